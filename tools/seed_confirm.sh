#!/bin/sh
# tools/seed_confirm.sh <id>...: confirm a seeded change on the current /repo HEAD
# in a scratch worktree: demo passes without, fails with the patch; the
# repository test-suite passes with the patch.
for p in "$@"; do
  d=$(mktemp -d /tmp/sc_XXXX); rmdir $d
  git -C /repo worktree add -q --detach $d HEAD
  YALAFI_TREE=$d python3 /verif/seeded/$p/demo.py >/dev/null 2>&1; a=$?
  if git -C $d apply /verif/seeded/$p/patch.diff 2>/dev/null; then
    YALAFI_TREE=$d python3 /verif/seeded/$p/demo.py >/dev/null 2>&1; b=$?
    t=$(cd $d && PYTHONPATH=$d /venv/bin/python -m pytest -q -p no:cacheprovider --timeout=900 2>&1 | tail -1)
  else b=NOAPPLY; t=-; fi
  echo "$p demo_without=$a demo_with=$b tests: $t"
  git -C /repo worktree remove --force $d
done
