#!/bin/sh
# tools/mkbaseline.sh: reference data derived from the tree the contracts are
# written against (/repo at a clean HEAD): local names per function
# (contracts/refnames.json) and the over-approximated constructs per function
# (contracts/refimprecise.json).  Run after a contract / engine change.
cd /verif
python3-vt tools/mkrefnames.py
rm -f contracts/refimprecise.json
for p in C01 C02 C03 C04 C05 C06 C07 C08 C09 C10 C11 C12 C13 C14 C15 C16 C17 C18 C19 C20; do
  PYVC_WRITE_BASELINE=1 PYVC_NO_BOUNDED=1 PYVC_EVIDENCE_DIR=/tmp/baseline_ev ./check $p | tail -1 | cut -c1-100
done
rm -rf /tmp/baseline_ev
