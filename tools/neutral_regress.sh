#!/bin/sh
# tools/neutral_regress.sh [patch files...]: false-alarm regression.  Every
# patch under /verif/neutral is a behaviour-preserving change of /repo
# (confirmed by the test suite and a differential test when it was made).
# Applied to a scratch copy, NO check may print a VIOLATION line or exit 1;
# exit 0 (still proved) is the goal, exit 2 (undecided: the contract no longer
# fits the restructured code) is tolerated and listed.
# FAST=1: only the functions the patch changes, no bounded stand-ins.
# STANDINS=1: only the lemmas and the bounded stand-ins of the quick tier.
# VERIF_DIR selects another copy of /verif to run (default /verif).
V=${VERIF_DIR:-/verif}
cd $V
[ $# -eq 0 ] && set -- $V/neutral/*.diff
alarm=0
for p in "$@"; do
  tag=$(basename $p .diff)
  t=$(mktemp -d /tmp/neutraltree_XXXX)
  cp -r /repo/yalafi "$t/yalafi"
  ( cd "$t" && git apply "$p" ) || { echo "$tag: PATCH DOES NOT APPLY"; rm -rf "$t"; continue; }
  only=""
  if [ -n "$FAST" ]; then
    only=$(python3-vt $V/tools/changed_funcs.py $t)
  fi
  # STANDINS=1: only lemmas and bounded stand-ins (no function is verified)
  [ -n "$STANDINS" ] && only="-"
  clean=0; und=""; bad=""
  for c in C01 C02 C03 C04 C05 C06 C07 C08 C09 C10 C11 C12 C13 C14 C15 C16 C17 C18 C19 C20; do
    log=/tmp/nr_${tag}_$c.log
    PYVC_ONLY_FUNCS="$only" PYVC_NO_BOUNDED=$FAST YALAFI_REPO=$t PYVC_EVIDENCE_DIR=/tmp/nr_ev_$tag PYVC_REPLAY_DIR=/tmp/nr_rp_$tag $V/check $c > $log 2>&1; rc=$?
    if [ $rc -eq 0 ] && ! grep -q '^VIOLATION' $log; then clean=$((clean+1)); rm -f $log
    elif [ $rc -eq 2 ] && ! grep -q '^VIOLATION' $log; then und="$und $c"; rm -f $log
    else bad="$bad $c(exit=$rc)"; alarm=1; fi
  done
  echo "$tag: proved=$clean undecided=[$und ] FALSE-ALARM/BROKEN=[$bad ]"
  rm -rf "$t" /tmp/nr_ev_$tag /tmp/nr_rp_$tag
done
exit $alarm
