#!/bin/sh
# tools/seed_regress.sh [seed dirs...]: every seeded change must still be
# reported (exit 1 with a VIOLATION line) by the checks named in its
# meta.json (detected_by).  Uses scratch copies (tools/seed_eval.sh).
# VERIF_DIR selects another copy of /verif to run (default /verif).
V=${VERIF_DIR:-/verif}
cd $V
[ $# -eq 0 ] && set -- $(ls seeded)
for d in "$@"; do
  cs=$(python3 -c "
import json,sys
m=json.load(open('$V/seeded/$d/meta.json'))
print(' '.join(sorted(m.get('detected_by',{}).keys())))" 2>/dev/null)
  [ -z "$cs" ] && { echo "$d: no detected_by (skipped)"; continue; }
  t=$(mktemp -d /tmp/seedtree_XXXX)
  cp -r /repo/yalafi "$t/yalafi"
  ( cd "$t" && git apply "$V/seeded/$d/patch.diff" ) || { echo "$d: PATCH DOES NOT APPLY"; rm -rf "$t"; continue; }
  hit=0; res=""
  for c in $cs; do
    YALAFI_REPO=$t PYVC_EVIDENCE_DIR=/tmp/sr_ev_$d PYVC_REPLAY_DIR=/tmp/sr_rp_$d $V/check $c > /tmp/sr_${d}_$c.log 2>&1; rc=$?
    n=$(grep -c '^VIOLATION' /tmp/sr_${d}_$c.log)
    res="$res $c:exit=$rc,viol=$n"
    [ $rc -eq 1 ] && [ $n -ge 1 ] && hit=1
  done
  if [ $hit -eq 1 ]; then echo "$d: detected ($res )"; rm -f /tmp/sr_${d}_*.log; else echo "$d: NOT DETECTED ($res )"; fi
  rm -rf "$t" /tmp/sr_ev_$d /tmp/sr_rp_$d
done
