#!/usr/bin/env python3
"""regenerates MANIFEST.json from props/*.py (single source of truth)"""
import importlib, json, os, sys
HERE = os.path.dirname(os.path.dirname(os.path.abspath(__file__)))
sys.path.insert(0, HERE)
ALL = ['C%02d' % i for i in range(1, 21)]
checks, na = [], []
for pid in ALL:
    try:
        p = importlib.import_module('props.' + pid)
    except ImportError:
        na.append({'property_id': pid, 'reason': 'check not built yet (work in progress, see DESIGN.md section 4.%s)' % pid})
        continue
    if getattr(p, 'NOT_APPLICABLE', None):
        na.append({'property_id': pid, 'reason': p.NOT_APPLICABLE})
        continue
    checks.append({
        'property_id': pid,
        'quick_cmd': './check %s --tier quick' % pid,
        'thorough_cmd': './check %s --tier thorough' % pid,
        'evidence_file': 'evidence/%s.json' % pid,
        'replay_cmd_template': './check %s --tier quick  # replay file {path} names the failed obligation and the concrete input' % pid,
        'engine': 'pyvc',
        'level_claimed': {'category': 'proof', 'text': p.LEVEL_TEXT, 'design_ref': 'DESIGN.md section 4 (%s)' % pid},
        'level_note': p.LEVEL_NOTE,
        'technique': p.TECHNIQUE,
    })
m = {
 'version': 1,
 'setup_cmd': 'python3-vt -m compileall -q pyvc contracts props >/dev/null 2>&1; true',
 'hooks': {
  'guard': 'YALAFI_VERIF',
  'enable': 'none needed: contracts are sidecar files under /verif/contracts; /repo is read through ast on every run (YALAFI_REPO selects another tree)',
  'baseline_off_cmd': 'cd /repo && /venv/bin/python -m pytest -ra -q -p no:cacheprovider --timeout=900 --continue-on-collection-errors',
  'source_commits': [],
  'add_only': True},
 'engines': [{'name': 'pyvc', 'path': 'pyvc/', 'serves_properties': [c['property_id'] for c in checks],
   'kind_free_text': 'home-built verification-condition generator over the Python AST of the real sources (symbolic execution, loops cut at invariants, calls replaced by callee contracts), z3 5.1 python API with z3 4.8.12 / cvc5 CLI fall-back; contracts are sidecar files in contracts/'}],
 'checks': checks,
 'not_applicable': na,
 'notes': 'exit codes of ./check: 0 held, 1 violation (VIOLATION line + replay file), 2 undecided, 3 broken check',
}
fx = os.path.join(HERE, 'FIX_COMMITS')
if os.path.exists(fx):
    m['hooks']['source_commits'] = [l.split()[0] for l in open(fx) if l.strip()]
json.dump(m, open(os.path.join(HERE, 'MANIFEST.json'), 'w'), indent=1)
print(len(checks), 'checks', len(na), 'n/a')
