#!/bin/sh
# tools/neutral_eval.sh <patch file> <tag> [check ids...]
# false-alarm test: applies a behaviour-preserving patch to a scratch copy of
# /repo/yalafi (outside /repo and /verif, removed afterwards) and runs the
# quick tier of the given checks (default: all) against that copy.  Every
# check is expected to exit 0; a line is printed per check that does not.
p=$1; tag=$2; shift; shift
[ $# -eq 0 ] && set -- C01 C02 C03 C04 C05 C06 C07 C08 C09 C10 C11 C12 C13 C14 C15 C16 C17 C18 C19 C20
t=$(mktemp -d /tmp/neutraltree_XXXX)
cp -r /repo/yalafi "$t/yalafi"
( cd "$t" && git apply "$p" ) || { echo "$tag PATCH DOES NOT APPLY"; rm -rf "$t"; exit 9; }
bad=0
for c in "$@"; do
  log=/tmp/neutral_${tag}_$c.log
  YALAFI_REPO=$t PYVC_EVIDENCE_DIR=/tmp/neutral_evidence_$tag PYVC_REPLAY_DIR=/tmp/neutral_replays_$tag ${VERIF_DIR:-/verif}/check $c > $log 2>&1; rc=$?
  if [ $rc -ne 0 ]; then
    bad=$((bad+1))
    echo "$tag $c exit=$rc"
    grep "^VIOLATION\|^UNDECIDED\|^BROKEN" $log | head -4 | sed 's/replay=[^ ]* //' | cut -c1-260
  else
    rm -f $log
  fi
done
echo "$tag done: $bad of $# checks not clean"
rm -rf "$t" /tmp/neutral_evidence_$tag /tmp/neutral_replays_$tag
