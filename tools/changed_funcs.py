import ast, sys, os
sys.path.insert(0, os.path.dirname(os.path.dirname(os.path.abspath(__file__))))
from pyvc import alpha
def units(root):
    out = {}
    for dp, dn, fn in os.walk(os.path.join(root, 'yalafi')):
        for f in fn:
            if f.endswith('.py'):
                path = os.path.join(dp, f)
                name = os.path.relpath(path, root)[:-3].replace(os.sep, '.')
                if name.endswith('.__init__'): name = name[:-9]
                tree = ast.parse(open(path, encoding='utf-8').read())
                for q, node in alpha.units(tree, name):
                    out[q] = ast.dump(node)
                # module level statements
                out[name + '.<module>'] = ast.dump(ast.Module(body=[s for s in tree.body if not isinstance(s, (ast.FunctionDef, ast.ClassDef))], type_ignores=[]))
    return out
a = units('/repo'); b = units(sys.argv[1])
ch = sorted(q for q in set(a) | set(b) if a.get(q) != b.get(q))
print(','.join(ch))
