#!/bin/sh
# tools/seed_eval.sh <seed dir with patch.diff+demo.py> <check ids...>
# applies the patch to /repo, runs the checks, undoes the patch
d=$1; shift
git -C /repo apply --check "$d/patch.diff" || { echo "PATCH DOES NOT APPLY"; exit 9; }
git -C /repo apply "$d/patch.diff"
for c in "$@"; do
  PYVC_EVIDENCE_DIR=/tmp/seed_evidence PYVC_REPLAY_DIR=/tmp/seed_replays /verif/check $c > /tmp/seed_eval_$c.log 2>&1; rc=$?
  echo "check $c exit=$rc: $(grep -c '^VIOLATION' /tmp/seed_eval_$c.log) violations; $(grep '^VIOLATION' /tmp/seed_eval_$c.log | head -2 | sed 's/replay=[^ ]* //' | cut -c1-230)"
  grep "^UNDECIDED\|^BROKEN" /tmp/seed_eval_$c.log | head -2 | cut -c1-200
done
git -C /repo checkout -- .
