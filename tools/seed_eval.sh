#!/bin/sh
# tools/seed_eval.sh <seed dir with patch.diff+demo.py> <check ids...>
# applies the patch to a scratch copy of /repo/yalafi (outside /repo and
# /verif, removed afterwards) and runs the checks against that copy
# (YALAFI_REPO), with separate evidence / replay directories -- /repo itself
# is not touched, so other runs are not disturbed
d=$1; shift
t=$(mktemp -d /tmp/seedtree_XXXX)
cp -r /repo/yalafi "$t/yalafi"
( cd "$t" && git apply "$d/patch.diff" ) || { echo "PATCH DOES NOT APPLY"; rm -rf "$t"; exit 9; }
for c in "$@"; do
  YALAFI_REPO=$t PYVC_EVIDENCE_DIR=/tmp/seed_evidence PYVC_REPLAY_DIR=/tmp/seed_replays /verif/check $c > /tmp/seed_eval_$c.log 2>&1; rc=$?
  echo "check $c exit=$rc: $(grep -c '^VIOLATION' /tmp/seed_eval_$c.log) violations; $(grep '^VIOLATION' /tmp/seed_eval_$c.log | head -2 | sed 's/replay=[^ ]* //' | cut -c1-230)"
  grep "^UNDECIDED\|^BROKEN" /tmp/seed_eval_$c.log | head -2 | cut -c1-200
done
rm -rf "$t"
