#!/bin/sh
# run every registered check once (quick tier) and print the summary lines
cd /verif
for p in C01 C02 C03 C04 C05 C06 C07 C08 C09 C10 C11 C12 C13 C14 C15 C16 C17 C18 C19 C20; do
  ./check $p "$@" 2>&1 | grep -v "^KNOWN-FINDING" | tail -1 | cut -c1-130
done
