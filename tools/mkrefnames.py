#!/usr/bin/env python3
"""tools/mkrefnames.py: write contracts/refnames.json from the tree the
contracts are written against (/repo at a clean HEAD): per top-level function
and method the hash of its AST with local names blanked and the local name
occurrences (see pyvc/alpha.py)."""
import ast, json, os, sys
sys.path.insert(0, os.path.dirname(os.path.dirname(os.path.abspath(__file__))))
from pyvc import alpha
root = os.environ.get('YALAFI_REPO', '/repo')
out = {}
for dp, dn, fn in os.walk(os.path.join(root, 'yalafi')):
    dn.sort()
    for f in sorted(fn):
        if not f.endswith('.py'):
            continue
        path = os.path.join(dp, f)
        name = os.path.relpath(path, root)[:-3].replace(os.sep, '.')
        if name.endswith('.__init__'):
            name = name[:-9]
        tree = ast.parse(open(path, encoding='utf-8').read())
        for q, node in alpha.units(tree, name):
            out[q] = alpha.skeleton(node)
json.dump(out, open(alpha.REF, 'w'), separators=(',', ':'), sort_keys=True)
print(len(out), 'functions')
