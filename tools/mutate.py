#!/usr/bin/env python3
"""scratch-copy mutation helper: mutate.py <file rel to repo> <old> <new> -- <command...>
Copies /repo/yalafi to a temp dir (outside /repo and /verif), replaces the
first occurrence of <old> by <new> in the file, runs the command with
YALAFI_REPO pointing to the copy, removes the copy."""
import os, shutil, subprocess, sys, tempfile
i = sys.argv.index('--')
rel, old, new = sys.argv[1:4]
cmd = sys.argv[i + 1:]
tmp = tempfile.mkdtemp(prefix='yalafi_mut_')
try:
    shutil.copytree('/repo/yalafi', os.path.join(tmp, 'yalafi'))
    p = os.path.join(tmp, rel)
    s = open(p, newline='').read()
    if old not in s and old.replace('\n', '\r\n') in s:
        old = old.replace('\n', '\r\n'); new = new.replace('\n', '\r\n')
    if old not in s:
        print('PATTERN NOT FOUND'); sys.exit(9)
    s = s.replace(old, new, 1)
    open(p, 'w', newline='').write(s)
    env = dict(os.environ, YALAFI_REPO=tmp)
    r = subprocess.run(cmd, env=env)
    sys.exit(r.returncode)
finally:
    shutil.rmtree(tmp, ignore_errors=True)
