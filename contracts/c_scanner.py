"""Contracts for yalafi/scanner.py: Scanner (array layer over the real
source string) and Buffer (summarised token lists)."""
import z3
from pyvc import sym
from pyvc.sym import (SSeq, Obj, Opt, Opaque, TokList, Single, Many, And, Or,
                      Not, Implies, Ite, zint, zbool, fresh_int, fresh_bool,
                      fresh_seq, forall, exists, lift_str, seq_len)
from pyvc.contracts import (FContract, Spec, IntS, BoolS, StrS, IListS, ObjS,
                            TupleS, ListS, AnyS, ConstS)
from pyvc.builtins import count_f
from . import tokmodel as tm
from . import common as cm
from .tokmodel import D

S = 'yalafi.scanner.Scanner.'
B = 'yalafi.scanner.Buffer.'

SPACE_CLASSES = [D + 'SpaceToken', D + 'CommentToken', D + 'ActionToken',
                 D + 'VoidToken', D + 'LanguageToken']


def src_ghost(ex, st, mode, vals):
    if mode == 'proof':
        return {'src': fresh_seq('str', 'src', st.assume)}
    # call side: the text the scanner object currently works on
    o = vals.get('self')
    if isinstance(o, Obj) and o.cls == 'yalafi.scanner.Scanner':
        if 'latex' in vals:
            return {'src': lift_str(vals['latex'])}
        return {'src': lift_str(o.fields['latex'])}
    if isinstance(o, Obj) and o.cls == 'yalafi.scanner.Buffer':
        s = o.meta.get('src') or st.ghost.get('src')
        return {'src': s}
    return {'src': st.ghost['src']}


def pos_of(A):
    return zint(A['self'].fields['pos'])


def set_pos_fresh(ex, st, A):
    A['self'].fields['pos'] = fresh_int('scpos')
    st.writes.append((A['self'].oid, 'pos'))


def register(T, repo):
    T.inline_ok.add('yalafi.parameters.Parameters.macro_character')
    T.inline_ok.add('yalafi.scanner.Buffer.is_space')
    T.inline_ok.add('yalafi.scanner.Buffer.all')

    def helper(name, extra_params=None, requires=(), ensures=(),
               classes=None, entry_pos='start'):
        """contract skeleton shared by the scan_* helpers"""
        def params(G):
            p = {'self': cm.ScannerS(G['src']), 'latex': cm.SameS(G['src']),
                 'start': IntS(name='start')}
            if extra_params:
                p.update(extra_params(G))
            return p
        req = [('start-in-range', lambda A: And(
            0 <= zint(A['start']), zint(A['start']) < zint(A['src'].ln)))]
        if entry_pos == 'start':
            req.append(('pos-is-start', lambda A: pos_of(A) ==
                        zint(A['start'])))
        req += list(requires)
        ens = [('progress', lambda A, r: And(
            pos_of(A) > zint(A['start']),
            pos_of(A) <= zint(A['src'].ln))),
            ('source-slice', lambda A, r: Or(
                zbool(r.fields['pos_fix']),
                tm.exact_full(r, A['src'])))] + list(ensures)
        c = FContract(S + name, ghosts=src_ghost, params=params,
                      requires=req,
                      result=lambda A: tm.DocTok(A['src'], classes),
                      ensures=ens, effects=set_pos_fresh,
                      olds=lambda A: {'pos': A['self'].fields['pos']})
        return T.add(c)

    # ---------------------------------------------------------- scan_space
    def space_post(A, r):
        src = A['src']
        s, e = zint(A['start']), pos_of(A)
        txt = lift_str(r.fields['txt'])
        nl = count_f(txt.arr, z3.IntVal(10), z3.IntVal(0), zint(txt.ln))
        ex = A['$ex']
        return And(
            zint(r.fields['pos']) == s, Not(zbool(r.fields['pos_fix'])),
            zint(txt.ln) == e - s,
            # maximal white-space run (C05)
            forall(s, e, lambda k: sym.isspace_c(src.at(k))),
            Or(e == zint(src.ln), Not(sym.isspace_c(src.at(e)))),
            # paragraph iff at least two line breaks
            tm.cls_is(ex, r, D + 'ParagraphToken') == (nl >= 2),
            tm.cls_is(ex, r, D + 'SpaceToken') == (nl < 2))
    helper('scan_space',
           requires=[('is-space', lambda A: sym.isspace_c(
               A['src'].at(zint(A['start']))))],
           ensures=[('space-token', space_post)],
           classes=[D + 'SpaceToken', D + 'ParagraphToken'])

    # -------------------------------------------------------- scan_comment
    def comment_post(A, r):
        src = A['src']
        s, e = zint(A['start']), pos_of(A)
        N = zint(src.ln)
        txt = lift_str(r.fields['txt'])
        # eol = first line end after start (or N)
        return And(
            zint(r.fields['pos']) == s, Not(zbool(r.fields['pos_fix'])),
            zint(txt.ln) == e - s,
            # the comment text itself contains no line break before the
            # line end it swallows: every '\n' inside [s, e) is followed
            # only by white space up to e
            forall(s, e, lambda k: Implies(
                src.at(k) == 10,
                forall(k, e, lambda j: sym.isspace_c(src.at(j))))),
            # at most one line break is swallowed (a blank line after the
            # comment still separates paragraphs, C05)
            forall(s, e, lambda k: forall(
                k + 1, e, lambda j: Not(And(src.at(k) == 10,
                                            src.at(j) == 10)))))
    helper('scan_comment',
           requires=[('is-percent', lambda A: A['src'].at(
               zint(A['start'])) == ord('%'))],
           ensures=[('comment-token', comment_post)],
           classes=[D + 'CommentToken'])

    # ------------------------------------------------------ scan_arg_token
    helper('scan_arg_token',
           requires=[('is-hash', lambda A: A['src'].at(
               zint(A['start'])) == ord('#'))],
           ensures=[('at-start', lambda A, r: And(
               zint(r.fields['pos']) == zint(A['start']),
               pos_of(A) == zint(A['start']) + zint(tm.tlen(r))))],
           classes=[D + 'SpecialToken', D + 'ArgumentToken'])

    # ---------------------------------------------------------- scan_macro
    helper('scan_macro',
           requires=[('is-backslash', lambda A: A['src'].at(
               zint(A['start'])) == ord('\\'))],
           ensures=[('text-is-error-mark', lambda A, r: Implies(
               tm.cls_is(A['$ex'], r, D + 'TextToken'),
               And(zbool(r.fields['pos_fix']),
                   zint(r.fields['pos']) == zint(A['start'])))),
               ('tiling', lambda A, r: Implies(
                   tm.cls_is(A['$ex'], r, D + 'MacroToken', D + 'BeginToken',
                             D + 'EndToken', D + 'ItemToken',
                             D + 'AccentToken'),
                   And(zint(r.fields['pos']) == zint(A['start']),
                       pos_of(A) == zint(A['start']) + zint(tm.tlen(r)))))],
           classes=[D + 'MacroToken', D + 'BeginToken', D + 'EndToken',
                    D + 'ItemToken', D + 'AccentToken', D + 'VerbatimToken',
                    D + 'TextToken'])

    # --------------------------------------------------------- error_token
    def et_post(A, r):
        ex = A['$ex']
        mark = lift_str(A['self'].fields['parms'].fields[
            'mark_latex_error'])
        head = lift_str(sym.seq_concat(sym.seq_concat(' ', mark), ' '))
        txt = lift_str(r.fields['txt'])
        return And(zbool(r.fields['pos_fix']),
                   zint(r.fields['pos']) == zint(A['start']),
                   # the complete mark in one token (C08)
                   zint(txt.ln) >= zint(head.ln),
                   forall(0, head.ln, lambda k: txt.at(k) == head.at(k)))
    if S + 'error_token' in repo.funcs:
        T.add(FContract(
            S + 'error_token', ghosts=src_ghost,
            params=lambda G: {'self': cm.ScannerS(G['src']),
                              'err': StrS(name='err'),
                              'start': IntS(name='start'),
                              'latex': cm.SameS(G['src'])},
            requires=[('start-in-range', lambda A: And(
                0 <= zint(A['start']),
                zint(A['start']) < zint(A['src'].ln)))],
            result=lambda A: tm.DocTok(A['src'], [D + 'TextToken']),
            ensures=[('complete-mark', et_post)], pure=True))

    # ----------------------------------------------------------- scan_verb
    def verb_post(A, r):
        ex = A['$ex']
        src = A['src']
        isverb = tm.cls_is(ex, r, D + 'VerbatimToken')
        p = zint(r.fields['pos'])
        L = zint(tm.tlen(r))
        return And(
            Implies(Not(isverb), And(zbool(r.fields['pos_fix']),
                                     p == zint(A['start']))),
            # C08: an unterminated \\verb costs at most the rest of its own
            # line -- the scanner resumes before the first line break after
            # the macro, no later text is skipped
            Implies(Not(isverb), And(
                pos_of(A) >= zint(A['start']) + 5,
                pos_of(A) <= zint(src.ln),
                forall(zint(A['start']), pos_of(A),
                       lambda k: src.at(k) != 10))),
            # issue 126: the verbatim token sits on its first content
            # character, right after the delimiter
            Implies(isverb, And(
                Not(zbool(r.fields['pos_fix'])),
                Not(zbool(tm.tfield(r, 'environ'))),
                p == zint(A['start']) + 6,
                pos_of(A) == p + L + 1,
                src.at(p + L) == src.at(p - 1),
                forall(p, p + L, lambda k: And(src.at(k) != src.at(p - 1),
                                               src.at(k) != 10)))))
    helper('scan_verb', entry_pos=None,
           requires=[('after-verb', lambda A: And(
               pos_of(A) == zint(A['start']) + 5,
               pos_of(A) <= zint(A['src'].ln),
               sym.seq_startswith(A['src'], '\\verb', A['start'])))],
           ensures=[('verb-token', verb_post)],
           classes=[D + 'VerbatimToken', D + 'TextToken'])

    # ------------------------------------------------------- scan_verbatim
    def verbatim_post(A, r):
        ex = A['$ex']
        src = A['src']
        isverb = tm.cls_is(ex, r, D + 'VerbatimToken')
        p = zint(r.fields['pos'])
        L = zint(tm.tlen(r))
        e = '\\end{verbatim}'
        return And(
            Implies(tm.cls_is(ex, r, D + 'BeginToken'),
                    And(p == zint(A['start']), L == 6,
                        pos_of(A) == zint(A['start']) + 6)),
            Implies(tm.cls_is(ex, r, D + 'TextToken'),
                    And(zbool(r.fields['pos_fix']),
                        p == zint(A['start']))),
            Implies(isverb, And(
                zbool(tm.tfield(r, 'environ')),
                Not(zbool(r.fields['pos_fix'])),
                pos_of(A) == p + L + len(e),
                sym.seq_startswith(src, e, p + L))))
    helper('scan_verbatim', entry_pos=None,
           extra_params=lambda G: {'mac': StrS(name='mac')},
           requires=[('after-begin', lambda A: And(
               pos_of(A) == zint(A['start']) + 6,
               pos_of(A) <= zint(A['src'].ln),
               sym.seq_eq(A['mac'], '\\begin'),
               sym.seq_startswith(A['src'], A['mac'], A['start'])))],
           ensures=[('verbatim-token', verbatim_post)],
           classes=[D + 'VerbatimToken', D + 'BeginToken', D + 'TextToken'])

    # ---------------------------------------------------------- next_token
    def nt_params(G):
        return {'self': cm.ScannerS(G['src'])}

    c = T.add(FContract(
        S + 'next_token', ghosts=src_ghost, params=nt_params,
        requires=[('in-range', lambda A: And(
            0 <= pos_of(A), pos_of(A) < zint(A['src'].ln)))],
        result=lambda A: tm.DocTok(A['src']),
        ensures=[('progress', lambda A, r: And(
            pos_of(A) > zint(A['old']['pos']),
            pos_of(A) <= zint(A['src'].ln))),
            # C02: an ordinary character is its own token at its own offset
            ('text-token', lambda A, r: Implies(
                tm.cls_is(A['$ex'], r, D + 'TextToken'),
                Or(zbool(r.fields['pos_fix']),
                   And(zint(r.fields['pos']) == zint(A['old']['pos']),
                       zint(tm.tlen(r)) == 1,
                       lift_str(r.fields['txt']).at(0) ==
                       A['src'].at(zint(A['old']['pos'])))))),
            # C03 at scanner level: tokens tile the source -- every token
            # that is not an error mark or verbatim material starts where
            # the scanner stood and covers exactly the characters consumed
            ('tiling', lambda A, r: Or(
                zbool(r.fields['pos_fix']),
                tm.cls_is(A['$ex'], r, D + 'VerbatimToken'),
                And(zint(r.fields['pos']) == zint(A['old']['pos']),
                    pos_of(A) == zint(A['old']['pos']) + zint(tm.tlen(r)),
                    tm.exact_full(r, A['src'])))),
        ],
        effects=set_pos_fresh,
        olds=lambda A: {'pos': A['self'].fields['pos']}))
    lp = c.loop(0)
    lp.invs.append(('pos-unchanged', lambda E: zint(
        E['self'].fields['pos']) == zint(E['start'])))

    # ---------------------------------------------------------------- scan
    def scan_params(G):
        return {'self': cm.ScannerS(), 'latex': cm.SameS(G['src'])}

    def scan_ghost(ex, st, mode, vals):
        if mode == 'proof':
            return {'src': fresh_seq('str', 'src', st.assume)}
        return {'src': lift_str(vals['latex'])}

    def scan_effects(ex, st, A):
        sc = A['self']
        sc.fields['latex'] = A['src']
        sc.fields['max_pos'] = A['src'].ln
        sc.fields['pos'] = fresh_int('scpos')
        for f in ('latex', 'max_pos', 'pos'):
            st.writes.append((sc.oid, f))

    c = T.add(FContract(
        S + 'scan', ghosts=scan_ghost, params=scan_params,
        result=lambda A: ListS(tm.DocTok(A['src']), None, 'scanned',
                               fresh=True),
        ensures=[('empty-iff', lambda A, r: (zint(r.length()) == 0) ==
                  (zint(A['src'].ln) == 0))],
        effects=scan_effects))
    lp = c.loop(0)
    lp.shapes['tokens'] = lambda E: tm.DocList(E['src'])
    lp.invs.append(('scanner-state', lambda E: And(
        E['self'].fields['latex'] is E['src'] or sym.seq_eq(
            E['self'].fields['latex'], E['src']),
        zint(E['self'].fields['max_pos']) == zint(E['src'].ln),
        0 <= zint(E['self'].fields['pos']),
        zint(E['self'].fields['pos']) <= zint(E['src'].ln))))
    lp.invs.append(('nonempty-progress', lambda E: (zint(
        E['tokens'].length()) == 0) == (zint(E['self'].fields['pos']) == 0)))
    lp.modifies.append('self.pos')
    lp.variant = lambda E: zint(E['self'].fields['max_pos']) - \
        zint(E['self'].fields['pos'])

    # -------------------------------------------------------------- Buffer
    def buf_params(G):
        return {'self': cm.BufS(G['src'])}

    def ntok(A):
        return zint(A['self'].fields['tokens'].length())

    def buf_old(A):
        return {'n': A['self'].fields['tokens'].length()}

    def remake_tokens(A):
        return cm.BufS(A['src'])

    def cur_result(A):
        return tm.OptTokS(tm.DocTok(A['src']), none_iff=(ntok(A) == 0))

    T.add(FContract(B + 'cur', ghosts=src_ghost, params=buf_params,
                    result=cur_result, pure=True))

    # C02 / C03: the star of a starred macro is the markup character `*`,
    # never verbatim material that reads `*` -- the only token that
    # expand_arguments itself consumes is the star it has just looked at in
    # its local `tok` (same family as the brace / bracket clauses of
    # arg_buffer)
    def star_is_markup(A):
        ex, st = A['$ex'], A['$st']
        if not (ex.cur_func or '').split('#')[0].endswith(
                '.expand_arguments'):
            return True
        env = st.env
        while '$caller' in env:
            env = env['$caller']
        tok = env.get('tok')
        if tok is None:
            return True
        o = tok.obj if isinstance(tok, Opt) else tok
        if not isinstance(o, Obj):
            return True
        isn = tok.isnone if isinstance(tok, Opt) else False
        return Or(isn, Not(tm.cls_is(ex, o, 'yalafi.defs.VerbatimToken')))

    T.add(FContract(
        B + 'next', ghosts=src_ghost, params=buf_params,
        requires=[('star-is-markup-not-verbatim-material', star_is_markup)],
        result=cur_result,
        ensures=[('pops-one', lambda A, r: ntok(A) == z3.If(
            zint(A['old']['n']) > 0, zint(A['old']['n']) - 1, 0))],
        post_objs=[('buffer', lambda A: A['self'], remake_tokens)],
        olds=buf_old))

    T.add(FContract(
        B + 'back', ghosts=src_ghost,
        params=lambda G: {'self': cm.BufS(G['src']),
                          'toks': tm.DocList(G['src'])},
        ensures=[('pushes', lambda A, r: ntok(A) == zint(A['old']['n']) +
                  zint(A['toks'].length()))],
        post_objs=[('buffer', lambda A: A['self'], remake_tokens)],
        olds=buf_old))

    def not_space(A, r):
        ex = A['$ex']
        if r is None:
            return True
        o = r.obj if isinstance(r, Opt) else r
        isn = r.isnone if isinstance(r, Opt) else False
        return Or(isn, Not(tm.cls_is(ex, o, *SPACE_CLASSES)))

    c = T.add(FContract(
        B + 'skip_space', ghosts=src_ghost, params=buf_params,
        result=cur_result,
        ensures=[('shrinks', lambda A, r: ntok(A) <= zint(A['old']['n'])),
                 # a paragraph token is returned, not skipped (C05)
                 ('not-space', not_space)],
        post_objs=[('buffer', lambda A: A['self'], remake_tokens)],
        olds=buf_old))
    lp = c.loop(0)
    lp.shapes['self.tokens'] = lambda E: tm.DocList(E['src'])
    lp.shapes['tok'] = lambda E: tm.OptTokS(tm.DocTok(E['src']))
    def skipped_is_space(E0, E1):
        # every token consumed by the loop is of a space class; in
        # particular a paragraph token is never skipped (C05)
        t = E0['tok']
        return And(Not(zbool(t.isnone)),
                   tm.cls_is(E0['$ex'], t.obj, *SPACE_CLASSES))
    lp.body_post.append(('skips-only-space-classes', skipped_is_space))
    lp.invs.append(('tok-is-cur', lambda E: And(
        zbool(E['tok'].isnone) ==
        (zint(E['self'].fields['tokens'].length()) == 0),
        zint(E['self'].fields['tokens'].length()) <=
        zint(E['$args']['old']['n']))))

    c = T.add(FContract(
        B + 'look_ahead', ghosts=src_ghost, params=buf_params,
        result=lambda A: tm.OptTokS(tm.DocTok(A['src'])),
        ensures=[('buffer-length-unchanged', lambda A, r: ntok(A) ==
                  zint(A['old']['n'])),
                 ('not-space', not_space)],
        post_objs=[('buffer', lambda A: A['self'], remake_tokens)],
        olds=buf_old))
    lp = c.loop(0)
    lp.shapes['self.tokens'] = lambda E: tm.DocList(E['src'])
    lp.shapes['buf'] = lambda E: tm.DocList(E['src'])
    lp.shapes['tok'] = lambda E: tm.OptTokS(tm.DocTok(E['src']))
    lp.body_post.append(('skips-only-space-classes', skipped_is_space))
    lp.invs.append(('tok-is-cur', lambda E: zbool(E['tok'].isnone) == (
        zint(E['self'].fields['tokens'].length()) == 0)))
    lp.invs.append(('length-conserved', lambda E: zint(
        E['self'].fields['tokens'].length()) + zint(E['buf'].length()) ==
        zint(E['$args']['old']['n'])))
    return T
