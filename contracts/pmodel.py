"""Parser-level specs: Expandable (MacInv), Parser (ParserInv), generic
handler contract H (DESIGN 3.3 / 3.4)."""
import z3
from pyvc import sym
from pyvc.sym import (SSeq, Obj, Opt, Opaque, TokList, Single, Many, And, Or,
                      Not, Implies, Ite, zint, zbool, fresh_int, fresh_bool,
                      fresh_seq, forall, lift_str, seq_len, EngineError,
                      Unsupported)
from pyvc.contracts import (FContract, Spec, IntS, BoolS, StrS, IListS, ObjS,
                            TupleS, ListS, AnyS, ConstS, DictS, OptS)
from pyvc.engine import PyDict, StrSet, OptVal
from . import tokmodel as tm
from . import common as cm
from .tokmodel import D

PARSER = 'yalafi.parser.Parser'
MACRO = D + 'Macro'
ENVIRON = D + 'Environ'
EQUENV = D + 'EquEnv'


# ------------------------------------------------------------ body tokens

def body_pred(nargs):
    """token of a macro body / default / extract list: positions are
    meaningless, but argument references are in range (MacInv) and special
    tokens are table keys"""
    def pred(ex, t):
        parts = [tm.cls_inv(ex, t)]
        if nargs is not None:
            parts.append(Implies(tm.cls_is(ex, t, D + 'ArgumentToken'),
                                 And(zint(tm.tfield(t, 'arg', 0)) >= 1,
                                     zint(tm.tfield(t, 'arg', 0)) <=
                                     zint(nargs))))
        return And(*parts)
    return pred


def BodyList(nargs, name='body'):
    return ListS(tm.TokS(body_pred(nargs), name='bt'), None, name)


class ReplU:
    """value of Expandable.repl: a handler (callable) or a body list"""
    def __init__(self, is_callable, body, owner=None):
        self.is_callable = is_callable
        self.body = body
        self.owner = owner

    def as_list(self, ex, st, label, line):
        ex.prove(st, label + ':repl-is-list', Not(self.is_callable), line)
        return self.body


class OptCallable:
    """None or a callable (Environ.items / end_func, Parser.read_macros)"""
    def __init__(self, isnone, kind):
        self.isnone = isnone
        self.kind = kind

    def truth_value(self, ex, st):
        return Not(self.isnone)


def args_code_ok(args):
    a = lift_str(args)
    return forall(0, a.ln, lambda k: Or(a.at(k) == ord('*'),
                                        a.at(k) == ord('A'),
                                        a.at(k) == ord('O')))


class MacroS(Spec):
    """Expandable object satisfying MacInv"""
    def __init__(self, kind='macro', args=None):
        self.kind = kind
        self.args = args

    def make(self, ex, st):
        if self.kind == 'macro':
            cls = MACRO
        else:
            cls = fresh_int('envcls')
            st.assume(Or(cls == ex.tag(ENVIRON), cls == ex.tag(EQUENV)))
        m = Obj(cls, {}, fresh=False)
        m.fields['name'] = fresh_seq('str', 'mname', st.assume)
        if self.args is not None:
            a = self.args
        else:
            a = fresh_seq('str', 'margs', st.assume)
            st.assume(args_code_ok(a))
        m.fields['args'] = a
        n = seq_len(a)
        m.fields['repl'] = ReplU(fresh_bool('repl_callable'),
                                 BodyList(n, 'repl').make(ex, st), m)
        m.fields['defaults'] = ListS(BodyList(n, 'default'), None,
                                     'defaults').make(ex, st)
        m.fields['extract'] = BodyList(n, 'extract').make(ex, st)
        if self.kind != 'macro':
            m.fields['add_pars'] = fresh_bool('add_pars')
            m.fields['remove'] = fresh_bool('remove')
            m.fields['items'] = OptCallable(fresh_bool('noitems'), 'items')
            m.fields['end_func'] = OptCallable(fresh_bool('noendf'),
                                               'end_func')
        m.meta['macinv'] = True
        return m

    def check(self, ex, st, v, label, line=0):
        if isinstance(v, Obj) and v.meta.get('macinv'):
            return
        if not isinstance(v, Obj):
            raise Unsupported('%s: expected Expandable, got %r' % (label, v))
        a = v.fields['args']
        ex.prove(st, label + ':macinv:args-code', args_code_ok(a), line)
        n = seq_len(a)
        r = v.fields['repl']
        if isinstance(r, ReplU):
            pass
        elif isinstance(r, TokList):
            BodyList(n).check(ex, st, r, label + ':macinv:repl', line)
        elif not _is_callable_value(r):
            raise Unsupported('%s: repl is %r' % (label, r))
        BodyList(n).check(ex, st, v.fields['extract'],
                          label + ':macinv:extract', line)
        ListS(BodyList(None)).check(ex, st, v.fields['defaults'],
                                    label + ':macinv:defaults', line)
        v.meta['macinv'] = True


def _is_callable_value(r):
    from pyvc.engine import FuncRef, LambdaRef
    return isinstance(r, (FuncRef, LambdaRef)) or (
        isinstance(r, Opaque) and r.tag == 'handler')


class MacDictS(Spec):
    """the_macros / the_environments: abstract dict name -> Expandable"""
    def __init__(self, kind):
        self.kind = kind

    def make(self, ex, st):
        d = PyDict('the_' + self.kind)
        ss = StrSet('the_%s_%d' % (self.kind, sym.uid()))
        kind = self.kind
        cache = {}
        def has(ex_, st_, k):
            b = ss.member(ex_, st_, k)
            # ghost log of membership tests (C09/C19: 'declared at the
            # moment of the test'): (table, key term, answer, dict)
            if sym.is_str(k):
                kk = lift_str(k)
                st_.ghost['$haslog'] = st_.ghost.get('$haslog', ()) + (
                    (kind, kk.arr.sexpr(), str(kk.ln), b, d),)
            return b
        d.has = has

        def mk(ex_, st_, k):
            key = lift_str(k)
            ck = (key.arr.sexpr(), str(key.ln))
            if ck not in cache:
                m = MacroS(kind).make(ex_, st_)
                cache[ck] = m
            return cache[ck]
        d.default_mk = mk
        d.macdict = True
        return d

    def check(self, ex, st, v, label, line=0):
        if not isinstance(v, PyDict):
            raise Unsupported('%s: expected dict' % label)
        for k, x in v.items.items():
            MacroS(self.kind).check(ex, st, x, '%s[%r]' % (label, k), line)


# ------------------------------------------------------------------ parser

MUTABLE = ('unknowns', 'extracted', 'item_lab_stack', 'the_macros',
           'the_environments')


def parser_field_specs(src, flows=None):
    return {
        'unknowns': ListS(StrS(name='unk'), None, 'unknowns'),
        'extracted': flows or ListS(tm.FinalList(src), None, 'extracted'),
        'item_lab_stack': ListS(TupleS(AnyS('labelgen'), StrS(name='env')),
                                lambda n: zint(n) >= 1, 'labstack'),
        'the_macros': MacDictS('macro'),
        'the_environments': MacDictS('env'),
    }


class ParserS(Spec):
    """Parser object satisfying ParserInv for the source text src"""
    def __init__(self, src, flows=None):
        self.src = src
        self.flows = flows      # spec of self.extracted (default Doc(src))

    def make(self, ex, st):
        o = Obj(PARSER, {}, fresh=False)
        o.fields['parms'] = cm.ParmsWithScannerS().make(ex, st)
        o.fields['latex'] = self.src
        for k, sp in parser_field_specs(self.src, self.flows).items():
            o.fields[k] = sp.make(ex, st)
        o.fields['item_macro'] = MacroS('macro', args='O').make(ex, st)
        o.fields['read_macros'] = OptCallable(fresh_bool('noread'),
                                              'read_macros')
        o.fields['packages'] = PyDict('packages')
        o.fields['packages'].has = lambda e, s, k: fresh_bool('inpk')
        o.fields['global_latex_options'] = TokList([])
        mp = Obj('yalafi.mathparser.MathParser', {'parser': o})
        # error mark of the last maths section: between calls it may be a
        # left-over of another text (parser_work switches texts), so the
        # object invariant says nothing about it; expand_math_section
        # ensures that it is fit for the output of the current text
        mp.fields['error_mark'] = ListS(AnyS(), None, 'error_mark').make(
            ex, st)
        o.fields['mathparser'] = mp
        o.meta['src'] = self.src
        return o

    def check(self, ex, st, v, label, line=0):
        if not isinstance(v, Obj) or v.cls != PARSER:
            raise Unsupported('%s: expected Parser, got %r' % (label, v))
        cm.SameS(self.src).check(ex, st, v.fields['latex'],
                                 label + '.latex', line)
        specs = parser_field_specs(self.src, self.flows)
        for k in ('item_lab_stack', 'extracted', 'unknowns', 'the_macros',
                  'the_environments'):
            specs[k].check(ex, st, v.fields[k], label + '.' + k, line)

    def remake(self, ex, st, cur):
        """call-site havoc of the mutable parser state"""
        for k, sp in parser_field_specs(self.src, self.flows).items():
            cur.fields[k] = sp.make(ex, st)
            st.writes.append((cur.oid, k))
        p = cur.fields['parms']
        p.fields['lang_context'] = cm.LangSettingsS().make(ex, st)
        st.writes.append((p.oid, 'lang_context'))
        mp = cur.fields.get('mathparser')
        if isinstance(mp, Obj):
            mp.fields['error_mark'] = ListS(AnyS(), None,
                                            'error_mark').make(ex, st)
            st.writes.append((mp.oid, 'error_mark'))


class BufPostS(Spec):
    def __init__(self, src):
        self.src = src
        self.inner = cm.BufS(src)

    def make(self, ex, st):
        return self.inner.make(ex, st)

    def check(self, ex, st, v, label, line=0):
        self.inner.check(ex, st, v, label, line)

    def remake(self, ex, st, cur):
        cur.fields['tokens'] = tm.DocList(self.src).make(ex, st)
        st.writes.append((cur.oid, 'tokens'))


def loop_parser_shapes(lp, parser='self', buf='buf'):
    """loop invariant = ParserInv + BufInv: havoc shapes for the mutable
    parser state and the buffer"""
    for k in MUTABLE:
        lp.shapes['%s.%s' % (parser, k)] = (
            lambda E, k=k: parser_field_specs(E['src'])[k])
    lp.shapes['%s.parms.lang_context' % parser] = \
        lambda E: cm.LangSettingsS()
    # left-over error mark of the last maths section (no invariant)
    lp.shapes['%s.mathparser.error_mark' % parser] = \
        lambda E: ListS(AnyS(), None, 'error_mark')

    def flows_grow(E, parser=parser):
        old = E['$args'].get('old') if '$args' in E else None
        if not old or 'nflows0' not in old:
            return True
        o = E[parser.split('.')[0]]
        for f in parser.split('.')[1:]:
            o = o.fields[f]
        return zint(o.fields['extracted'].length()) >= zint(old['nflows0'])
    lp.invs.append(('flows-only-grow', flows_grow))
    if buf:
        lp.shapes['%s.tokens' % buf] = lambda E: tm.DocList(E['src'])


def parser_ghost(ex, st, mode, vals):
    """ghost src of a Parser method = self.latex"""
    if mode == 'proof':
        return {'src': fresh_seq('str', 'src', st.assume)}
    o = vals.get('self') or vals.get('parser')
    return {'src': lift_str(o.fields['latex'])}


def in_range(A, name='start'):
    return And(0 <= zint(A[name]), zint(A[name]) < zint(A['src'].ln))


def ArgListS(src, mac_args, name='arguments'):
    """actual arguments of a macro call: one Doc list per code letter; a
    mandatory argument (code 'A') is never empty (C07)"""
    a = lift_str(mac_args)

    def indexed(i, e):
        return Implies(a.at(zint(i)) == ord('A'), zint(e.length()) >= 1)
    return ListS(tm.DocList(src), None, name, indexed=indexed)


def handler_contract(name='handler', with_args=True):
    """generic handler contract H (DESIGN 3.4); parameter names follow the
    convention of the code base"""
    def ghosts(ex, st, mode, vals):
        if mode == 'proof':
            return {'src': fresh_seq('str', 'src', st.assume)}
        return {'src': lift_str(vals['parser'].fields['latex'])}

    def params(G):
        return {'parser': ParserS(G['src']), 'buf': cm.BufS(G['src']),
                'mac': MacroS('any'), 'pos': IntS(name='pos')}

    def req_args(A):
        ex, st = A['$ex'], A['$st']
        return True

    c = FContract(
        name, ghosts=ghosts, params=params,
        requires=[('pos-in-range', lambda A: in_range(A, 'pos'))] + ([
            ('one-arg-per-code', lambda A: And(
                zint(A['args'].length()) ==
                zint(seq_len(A['mac'].fields['args'])),
                zint(A['delim'].length()) ==
                zint(seq_len(A['mac'].fields['args']))))]
            if with_args else []),
        result=lambda A: tm.DocList(A['src']),
        post_objs=[('buffer', lambda A: A['buf'],
                    lambda A: BufPostS(A['src'])),
                   ('parser', lambda A: A['parser'],
                    lambda A: ParserS(A['src']))])
    # the argument list spec depends on mac: checked in apply_handler
    return c


H = handler_contract()
H_END = handler_contract('end_func', with_args=False)


def apply_handler(ex, st, fv, args, line, end_func=False):
    """call of a handler value mac.repl(parser, buf, mac, arguments,
    delimiters, start)"""
    if len(args) != 6:
        raise Unsupported('handler call with %d arguments' % len(args))
    vals = dict(zip(('parser', 'buf', 'mac', 'args', 'delim', 'pos'), args))
    src = lift_str(vals['parser'].fields['latex'])
    if not end_func:
        ArgListS(src, vals['mac'].fields['args']).check(
            ex, st, vals['args'], 'call:handler@%d:arg:args' % line, line)
    yield from (H_END if end_func else H).apply(ex, st, vals, line)
