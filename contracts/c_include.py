"""C18: the --include work-list loop of yalafi/shell/shell.py, lifted
mechanically into a function (front.lift_include_loop).  File names are
abstracted to opaque identities (only equality, .endswith('.tex') and
+ '.tex' are used on them); the file system is a ghost map
FS: name -> list of names extracted from that file (inc_arr / inc_len)."""
import z3
from pyvc import sym, front
from pyvc.sym import (SSeq, Obj, Opt, Opaque, TokList, And, Or, Not, Implies,
                      Ite, zint, zbool, fresh_int, fresh_bool, forall,
                      exists, Unsupported)
from pyvc.contracts import (FContract, Spec, IntS, BoolS, StrS, IListS, ObjS,
                            AnyS)

I, B, A = sym.I, sym.B, sym.A
skip = z3.Function('skip_file', I, B)
ends_tex = z3.Function('ends_tex', I, B)
add_tex = z3.Function('add_tex', I, I)
inc_arr = z3.Function('FS_includes', I, A)
inc_len = z3.Function('FS_includes_len', I, I)
Q = 'yalafi.shell.shell.<include_loop>'


class StrId:
    """file name as an opaque identity"""
    def __init__(self, ident):
        self.ident = ident

    def py_method(self, ex, st, name, args, line):
        if name == 'endswith' and args == ['.tex']:
            return ends_tex(self.ident)
        raise Unsupported('file name method ' + name)

    def member_of(self, ex, st, coll):
        mem_axiom(st, coll)
        return member(coll, self.ident)

    def py_binop(self, ex, st, op, other, line):
        import ast
        if isinstance(op, ast.Add) and other == '.tex':
            return StrId(add_tex(self.ident))
        return NotImplemented


def norm(y):
    return z3.If(ends_tex(y), y, add_tex(y))


# membership as an uninterpreted predicate mem(array, length, value) with
# the (true) lemmas of the list operations; this keeps the closure
# invariant free of nested existential quantifiers
mem = z3.Function('mem', A, I, I, B)


def member(lst, x):
    if isinstance(lst.ln, int) and lst.ln == 0:
        return False
    return mem(lst.arr, zint(lst.ln), zint(x))


def mem_axiom(st, lst):
    """every element is a member"""
    m = fresh_int('m')
    st.assume(z3.ForAll([m], z3.Implies(
        z3.And(0 <= m, m < zint(lst.ln)),
        mem(lst.arr, zint(lst.ln), z3.Select(lst.arr, m)))))


def ilist_lemmas(ex, st, kind, old, new, e):
    y = fresh_int('y')
    if kind == 'append':
        mem_axiom(st, new)
        st.assume(z3.ForAll([y], mem(new.arr, zint(new.ln), y) == z3.Or(
            mem(old.arr, zint(old.ln), y), y == zint(e))))
    elif kind == 'pop0':
        mem_axiom(st, new)
        st.assume(z3.ForAll([y], mem(old.arr, zint(old.ln), y) == z3.Or(
            y == zint(e), mem(new.arr, zint(new.ln), y))))
    elif kind == 'concat':
        a, b = old
        st.assume(z3.ForAll([y], mem(new.arr, zint(new.ln), y) == z3.Or(
            zbool(member(a, y)), zbool(member(b, y)))))


def dupfree(lst):
    i, j = fresh_int('i'), fresh_int('j')
    return z3.ForAll([i, j], z3.Implies(
        z3.And(0 <= i, i < j, j < zint(lst.ln)), lst.at(i) != lst.at(j)))


def none_skipped(lst):
    return forall(0, lst.ln, lambda k: Not(skip(lst.at(k))))


def closed_for(x, upto, done, todo):
    """the first `upto` names extracted from file x are skipped, done or
    still to do"""
    arr = inc_arr(x)
    k = fresh_int('k')
    y = norm(z3.Select(arr, k))
    return z3.ForAll([k], z3.Implies(z3.And(0 <= k, k < zint(upto)), z3.Or(
        skip(y), zbool(member(done, y)), zbool(member(todo, y)))))


def closed(done, n, todo):
    """closure for the first n files of done"""
    i = fresh_int('i')
    x = done.at(i)
    arr = inc_arr(x)
    k = fresh_int('k')
    y = norm(z3.Select(arr, k))
    return z3.ForAll([i, k], z3.Implies(
        z3.And(0 <= i, i < zint(n), 0 <= k, k < inc_len(x)),
        z3.Or(skip(y), zbool(member(done, y)), zbool(member(todo, y)))))


def register(T, repo):
    front.lift_include_loop(repo)
    T.ilist_lemma_hook = ilist_lemmas

    def contains_hook(ex, st, coll, x, line):
        return NotImplemented

    class CmdS(Spec):
        def make(self, ex, st):
            files = IListS(name='files').make(ex, st)
            files.tag = StrId
            return Obj('cmdline', {'file': files,
                                   'include': fresh_bool('include'),
                                   'encoding': Opaque('enc'),
                                   'skip': Opaque('skip')})

        def check(self, ex, st, v, label, line=0):
            pass

    def post(A_, r):
        st = A_['$st']
        done = A_['cmdline'].fields['file']
        empty = sym.lift_ilist([])
        return And(dupfree(done), none_skipped(done),
                   Implies(zbool(A_['old']['include']),
                           closed(done, done.ln, empty)))
    def ghosts(ex, st, mode, vals):
        # an empty list has no members
        a = z3.Array('a_any', I, I)
        y = z3.Int('y_any')
        st.assume(z3.ForAll([a, y], z3.Not(mem(a, 0, y))))
        return {}

    c = T.add(FContract(
        Q, ghosts=ghosts, params={'cmdline': CmdS(), 'opts': AnyS()},
        ensures=[('each-once', lambda A_, r: dupfree(
            A_['cmdline'].fields['file'])),
            ('none-skipped', lambda A_, r: none_skipped(
                A_['cmdline'].fields['file'])),
            ('closed-under-includes', lambda A_, r: Implies(zbool(
                A_['old']['include']), closed(
                    A_['cmdline'].fields['file'],
                    A_['cmdline'].fields['file'].ln, sym.lift_ilist([]))))],
        olds=lambda A_: {'include': A_['cmdline'].fields['include'],
                         'files': A_['cmdline'].fields['file']}))
    T.empty_hints[(Q, 'done')] = 'ilist'

    # skip_file(f): uninterpreted predicate of the name
    def skip_apply(ex, st, vals, line):
        yield st, skip(vals['fn'].ident)
    sc = FContract('yalafi.shell.shell.skip_file', params={'fn': AnyS()})
    sc.apply = skip_apply
    T.add(sc)

    # file access: ghost FS
    def myopen(ex, st, vals, line):
        yield st, Obj('fp', {'name': vals['f']})
    mc = FContract('yalafi.tex2txt.myopen', params={})
    mc.apply = lambda ex, st, vals, line: myopen(ex, st, vals, line)
    T.add(mc)

    def fp_read(ex, st, fi, o, args, kw, line):
        yield st, Obj('texof', {'name': o.fields['name']})

    def fp_close(ex, st, fi, o, args, kw, line):
        yield st, None
    T.obj_methods[('fp', 'read')] = fp_read
    T.obj_methods[('fp', 'close')] = fp_close

    def t2t(ex, st, vals, line):
        x = vals['latex'].fields['name'].ident

        class Plain:
            def py_method(self, ex_, st_, name, args, line_):
                if name != 'split' or args:
                    raise Unsupported('plain.' + name)
                st_.assume(inc_len(x) >= 0)
                s = SSeq(inc_arr(x), inc_len(x), 'ilist')
                s.tag = StrId
                return s
        yield st, (Plain(), Opaque('charmap'))
    tc = FContract('yalafi.tex2txt.tex2txt', params={})
    tc.apply = t2t
    T.add(tc)

    # ---- bounded native search (used when the solver answers `unknown`):
    # the lifted statements are compiled as they are and run on small
    # inclusion graphs; the post-condition is the property's sentence
    def native_callable(ex):
        import ast as _ast
        import types
        fi = ex.repo.funcs[Q]
        fn = _ast.FunctionDef(
            name='include_loop', args=fi.node.args, body=fi.node.body,
            decorator_list=[], returns=None, type_comment=None,
            type_params=[])
        mod = _ast.Module(body=[fn], type_ignores=[])
        _ast.fix_missing_locations(mod)
        code = compile(mod, fi.path, 'exec')

        def run(cmdline, opts):
            fs = opts['FS']

            class FP:
                def __init__(self, name):
                    self.name = name

                def read(self):
                    return self.name

                def close(self):
                    pass
            t2t = types.SimpleNamespace(
                myopen=lambda f, encoding=None: FP(f),
                tex2txt=lambda tex, o: (' '.join(fs.get(tex, [])), None))
            g = {'tex2txt': t2t, 'cmdline': cmdline,
                 'skip_file': lambda f: f in opts['skip'],
                 'sys': __import__('sys'), 're': __import__('re')}
            exec(code, g)
            return g['include_loop'](cmdline, opts)
        return run
    c.native_callable = native_callable
    c.native_only = True

    def sampler(rng):
        import types
        names = ['a', 'b.tex', 'c', 'd.tex', 'a.tex', 'c.tex']
        k = rng.randint(1, 4)
        pool = rng.sample(names, k)
        fs = {}
        for x in pool + [n + '.tex' for n in pool if not n.endswith('.tex')]:
            fs[x] = [rng.choice(names) for _ in range(rng.randint(0, 3))]
        cmdline = types.SimpleNamespace(
            file=[rng.choice(pool) for _ in range(rng.randint(1, 3))],
            include=rng.random() < 0.85, encoding='utf-8', skip=None)
        skip_set = set(n for n in names if rng.random() < 0.2)
        return {'cmdline': cmdline, 'opts': {'FS': fs, 'skip': skip_set}}
    c.sampler = sampler

    def native_post(a, result):
        cmd, opts = a['cmdline'], a['opts']
        done = cmd.file
        fs, skip_set = opts['FS'], opts['skip']
        if len(set(done)) != len(done):
            return 'a file is checked twice: %r' % (done,)
        if any(x in skip_set for x in done):
            return 'a skipped file is checked: %r skip=%r' % (done, skip_set)
        if cmd.include:
            for x in done:
                for y in fs.get(x, []):
                    ny = y if y.endswith('.tex') else y + '.tex'
                    if ny not in skip_set and ny not in done:
                        return ('included file %r of %r is not checked: '
                                'done=%r FS=%r skip=%r' % (ny, x, done, fs,
                                                           skip_set))
        return None
    c.native_post = native_post

    lp = c.loop(0)

    lp.invs.append(('done-duplicate-free', lambda E: dupfree(E['done'])))
    lp.invs.append(('done-none-skipped', lambda E: none_skipped(E['done'])))
    lp.invs.append(('closed-under-includes', lambda E: Implies(
        zbool(E['cmdline'].fields['include']),
        closed(E['done'], E['done'].ln, E['todo']))))
    lp.shapes['f'] = lambda E: AnyS()
    lp.keep += ['fp', 'tex', 'plain', '_']
    lp1 = c.loop(1)

    lp1.invs.append(('done-nonempty', lambda E: zint(E['done'].ln) >= 1))
    lp1.invs.append(('done-duplicate-free', lambda E: dupfree(E['done'])))
    lp1.invs.append(('done-none-skipped', lambda E: none_skipped(E['done'])))
    lp1.invs.append(('closed-under-includes', lambda E: closed(
        E['done'], zint(E['done'].ln) - 1, E['todo'])))
    lp1.invs.append(('current-file-closed-so-far', lambda E: closed_for(
        E['done'].at(zint(E['done'].ln) - 1), E['idx1'], E['done'],
        E['todo'])))
    lp1.shapes['f'] = lambda E: AnyS()
    return T
