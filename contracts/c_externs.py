"""Assumed contracts of functions outside the repository (standard library).
Every entry here is part of the trusted base and is listed in the
evidence."""
import z3
from pyvc import sym
from pyvc.sym import (SSeq, Obj, Opt, Opaque, TokList, Single, Many, And, Or,
                      Not, Implies, Ite, zint, zbool, fresh_int, fresh_bool,
                      fresh_seq, forall, lift_str, Unsupported)

ASSUMED = {
    'copy.copy': 'shallow copy: new object of the same class, same field '
                 'values',
    'unicodedata.lookup': 'returns a one-character string or raises',
    'sys.stderr.write': 'no effect on program state (diagnostic counted in '
                        'ghost $diag)',
    're.finditer': 'matches left to right, non-overlapping, inside the text',
    'sys.exit': 'does not return',
}


def register(T, repo):
    def copy_copy(ex, st, fi, args, kw, line):
        o = args[0]
        if isinstance(o, Opt):
            ex.prove(st, 'safe:none-deref@%d' % line, Not(o.isnone), line)
            o = o.obj
        if isinstance(o, Obj):
            n = Obj(o.cls, dict(o.fields), fresh=True, meta=dict(o.meta))
            n.meta['copy_of'] = o.oid
            n.meta.pop('view', None)
            yield st, n
            return
        if isinstance(o, TokList):
            yield st, TokList(list(o.segs))
            return
        raise Unsupported('copy.copy(%r) at %d' % (o, line))
    T.externs['copy.copy'] = copy_copy

    def uni_lookup(ex, st, fi, args, kw, line):
        r = fresh_seq('str', 'unichar', st.assume)
        st.assume(r.ln == 1)
        yield st, r
    T.externs['unicodedata.lookup'] = uni_lookup

    def sys_exit(ex, st, fi, args, kw, line):
        st.assume(False)
        yield st, None
    T.externs['sys.exit'] = sys_exit
    return T
