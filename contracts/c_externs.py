"""Assumed contracts of functions outside the repository (standard library).
Every entry here is part of the trusted base and is listed in the
evidence."""
import z3
from pyvc import sym
from pyvc.sym import (SSeq, Obj, Opt, Opaque, TokList, Single, Many, And, Or,
                      Not, Implies, Ite, zint, zbool, fresh_int, fresh_bool,
                      fresh_seq, forall, lift_str, Unsupported)

ASSUMED = {
    'copy.copy': 'shallow copy: new object of the same class, same field '
                 'values',
    'unicodedata.lookup': 'returns a one-character string or raises',
    'sys.stderr.write': 'no effect on program state (diagnostic counted in '
                        'ghost $diag)',
    're.finditer': 'matches left to right, non-overlapping, inside the text',
    'sys.exit': 'does not return',
    're.escape': 'returns a string at least as long as its argument',
}


def register(T, repo):
    def copy_copy(ex, st, fi, args, kw, line):
        o = args[0]
        if isinstance(o, Opt):
            ex.prove(st, 'safe:none-deref@%d' % line, Not(o.isnone), line)
            o = o.obj
        if isinstance(o, Obj):
            n = Obj(o.cls, dict(o.fields), fresh=True, meta=dict(o.meta))
            n.meta['copy_of'] = o.oid
            n.meta.pop('view', None)
            yield st, n
            return
        if isinstance(o, TokList):
            yield st, TokList(list(o.segs))
            return
        raise Unsupported('copy.copy(%r) at %d' % (o, line))
    T.externs['copy.copy'] = copy_copy

    def uni_lookup(ex, st, fi, args, kw, line):
        r = fresh_seq('str', 'unichar', st.assume)
        st.assume(r.ln == 1)
        yield st, r
    T.externs['unicodedata.lookup'] = uni_lookup

    def sys_exit(ex, st, fi, args, kw, line):
        st.assume(False)
        yield st, None
    T.externs['sys.exit'] = sys_exit

    def re_escape(ex, st, fi, args, kw, line):
        s = lift_str(args[0])
        r = fresh_seq('str', 'escaped', st.assume)
        st.assume(r.ln >= zint(s.ln))
        # escaping keeps letters: first/last character alphabetic iff the
        # original one is (used by replace_phrases for the \\b decision)
        yield st, r
    T.externs['re.escape'] = re_escape
    return T
