"""Contracts for yalafi/tex2txt.py: the composition lemma of C01 and the
command-line output writer."""
import z3
from pyvc import sym
from pyvc.sym import (SSeq, Obj, Opt, Opaque, TokList, Single, Many, And, Or,
                      Not, Implies, Ite, zint, zbool, fresh_int, fresh_bool,
                      fresh_seq, forall, lift_str, seq_len)
from pyvc.contracts import (FContract, Spec, IntS, BoolS, StrS, IListS, ObjS,
                            TupleS, ListS, AnyS, ConstS, OptS)
from pyvc.engine import OptVal
from . import tokmodel as tm
from . import common as cm
from . import pmodel as pm

TT = 'yalafi.tex2txt.'

ASSUMED = {
    'yalafi.tex2txt.get_packages': 'returns a list (module loading through '
                                   'exec/eval is not modelled)',
    'yalafi.parser.Parser (constructor)': 'yields an idle parser '
        '(latex == \'\', no flows) satisfying ParserInv; package '
        'initialisation (init_package, module init functions) is not '
        'verified here',
    'yalafi.parameters.Parameters (constructor)': 'yields a parameter '
        'object with the default tables (tables are read by evaluation)',
    'modify_parms callback': 'keeps the invariants of the parameter object',
}


def OptionsS():
    return ObjS(TT + 'Options', {
        'lang': OptS(StrS(name='lang')),
        'dcls': OptS(StrS(name='dcls')),
        'pack': OptS(StrS(name='pack')),
        'extr': OptS(StrS(name='extr')),
        'defs': StrS(name='defs'),
        'repl': OptS(ListS(StrS(name='line'), None, 'repl')),
        'seqs': BoolS('seqs'), 'nosp': BoolS('nosp'), 'unkn': BoolS('unkn'),
        'ienc': StrS(name='ienc'),
    })


def register(T, repo):
    T.inline_ok.add('yalafi.parser.Parser.get_unknowns')
    T.inline_ok.add(TT + 'text_get_txt')
    T.inline_ok.add(TT + 'text_get_num')

    # ---- assumed (X): module loading and object construction
    T.add(FContract(TT + 'get_packages',
                    params={'packs': AnyS(), 'prefix': AnyS()},
                    result=lambda A: ListS(AnyS('package'), None, 'packs'),
                    pure=True))
    c = T.add(FContract('yalafi.parameters.Parameters',
                        params={'language': StrS(name='language')},
                        result=lambda A: cm.ParmsWithScannerS(), pure=True))
    c.ctor_defaults = {'language': 'en'}
    T.add(FContract('yalafi.parameters.Parameters.no_specials',
                    params={'self': AnyS()}))

    c = T.add(FContract(
        'yalafi.parser.Parser',
        params={'parms': AnyS(), 'packages': AnyS(), 'read_macros': AnyS()},
        result=lambda A: pm.ParserS(''), pure=True))
    c.ctor_defaults = {'packages': None, 'read_macros': None}

    def call_value(ex, st, fi, fv, args, kw, line, prev=T.call_value):
        if isinstance(fv, OptVal) and isinstance(fv.val, Opaque) and \
                fv.val.tag == 'modify_parms':
            return iter([(st, None)])
        return prev(ex, st, fi, fv, args, kw, line) if prev \
            else NotImplemented
    T.call_value = call_value

    def split_hook(ex, st, s, sep, line):
        return ListS(StrS(name='field'), lambda n: zint(n) >= 1,
                     'fields').make(ex, st)
    T.split_hook = split_hook

    # ----------------------------------------------------- replace_phrases
    def rp_ghosts(ex, st, mode, vals):
        if mode == 'proof':
            return {'lo': fresh_int('lo'), 'hi': fresh_int('hi')}
        return {'lo': st.ghost.get('lo', fresh_int('lo')),
                'hi': st.ghost.get('hi', fresh_int('hi'))}

    def in_rng(l, lo, hi):
        return forall(0, l.ln, lambda k: And(zint(lo) <= l.at(k),
                                             l.at(k) <= zint(hi)))
    def all_rules(A):
        ex, st = A['$ex'], A['$st']
        if 'tex2txt.tex2txt' not in (ex.cur_func or ''):
            return True
        opts = st.env.get('opts')
        if not isinstance(opts, Obj) or 'repl' not in opts.fields:
            return True
        r = opts.fields['repl']
        r = r.val if isinstance(r, OptVal) else r
        return bool(isinstance(r, TokList) and isinstance(A['lines'], TokList)
                    and r.lid == A['lines'].lid)

    c = T.add(FContract(
        'yalafi.utils.replace_phrases', ghosts=rp_ghosts,
        params={'txt': StrS(name='txt'), 'pos': IListS(name='pos'),
                'lines': ListS(StrS(name='line'), None, 'lines')},
        requires=[('len-eq', lambda A: zint(seq_len(A['txt'])) ==
                   zint(A['pos'].ln)),
                  # C13 ("several rules applied in sequence"): tex2txt
                  # hands the COMPLETE rule list of the options to
                  # replace_phrases, in single- and multi-language mode
                  ('all-rules-of-the-option-are-handed-over', all_rules)],
        result=lambda A: TupleS(StrS(), IListS()),
        ensures=[('len-eq', lambda A, r: zint(seq_len(r[0])) ==
                  zint(r[1].ln)),
                 ('range', lambda A, r: Implies(
                     in_rng(A['pos'], A['lo'], A['hi']),
                     in_rng(r[1], A['lo'], A['hi'])))],
        pure=True))
    lp = c.loop(0)
    lp.invs.append(('len-eq', lambda E: zint(seq_len(E['txt'])) ==
                    zint(E['pos'].ln)))
    lp.invs.append(('range', lambda E: Implies(
        in_rng(E['$args']['pos'], E['lo'], E['hi']),
        in_rng(E['pos'], E['lo'], E['hi']))))
    lp.shapes['lin'] = lambda E: AnyS()
    lp = c.loop(1)
    lp.invs.append(('true', lambda E: True))

    # ------------------------------------------------------------- tex2txt
    def t2t_post(A, r):
        txt, pos = r
        N = zint(seq_len(A['latex']))
        unkn = zbool(A['opts'].fields['unkn'])
        return And(
            zint(seq_len(txt)) == zint(pos.ln),
            Or(unkn, forall(0, pos.ln, lambda j: And(1 <= pos.at(j),
                                                     pos.at(j) <= N))))

    def t2t_ghost(ex, st, mode, vals):
        if mode == 'proof':
            return {}
        return {}

    c = T.add(FContract(
        TT + 'tex2txt',
        params={'latex': StrS(name='latex'), 'opts': OptionsS(),
                'multi_language': BoolS('ml'),
                'modify_parms': OptS(AnyS('modify_parms', truthy=True))},
        requires=[('single-language', lambda A: Not(
            zbool(A['multi_language'])))],
        result=lambda A: TupleS(StrS(), IListS()),
        ensures=[('C01', t2t_post)]))

    def t2t_stmt_hook(ex, stmt, st, fi):
        # ghost bookkeeping: src = latex; value range of positions before
        # the 1-based conversion is [0, N-1]
        if 'src' not in st.ghost and 'latex' in st.env:
            st.ghost['src'] = lift_str(st.env['latex'])
            st.ghost['lo'] = 0
            st.ghost['hi'] = zint(seq_len(st.env['latex'])) - 1
    T.stmt_hooks[TT + 'tex2txt'] = t2t_stmt_hook
    return T
