"""Token model shared by all contracts: class tags, the object invariant
Ok(t, src) (DESIGN 3.1) and the specs built from it.

src is the ghost *source text* (an SSeq) the positions of a token refer
to; N = len(src)."""
import z3
from pyvc import sym
from pyvc.sym import (SSeq, Obj, Opt, TokList, Single, Many, And, Or, Not,
                      Implies, Ite, zint, zbool, fresh_int, fresh_bool,
                      fresh_seq, forall, lift_str, is_int,
                      Unsupported)
from pyvc.contracts import Spec, ListS, IntS, BoolS, StrS, ObjS, AnyS
from pyvc.engine import PyDict, StrSet

D = 'yalafi.defs.'
M = 'yalafi.mathparser.'

TOKEN_CLASSES = [
    D + 'TextToken', D + 'SpaceToken', D + 'ParagraphToken',
    D + 'CommentToken', D + 'SpecialToken', D + 'MacroToken',
    D + 'BeginToken', D + 'EndToken', D + 'ItemToken', D + 'AccentToken',
    D + 'VerbatimToken', D + 'ArgumentToken', D + 'ActionToken',
    D + 'VoidToken', D + 'LanguageToken', D + 'MathBeginToken',
    D + 'MathElemToken', D + 'MathOperToken', D + 'MathSpaceToken',
    M + 'MathPartToken']

# classes whose text can reach the output with its length (span clause)
TEXTY = [D + 'TextToken', D + 'SpaceToken', D + 'ParagraphToken',
         D + 'ArgumentToken']
# classes whose text is never empty (control sequences, specials)
NONEMPTY = [D + 'CommentToken',
            D + 'SpecialToken', D + 'MacroToken', D + 'BeginToken',
            D + 'EndToken', D + 'ItemToken', D + 'AccentToken']
# classes whose text is always empty
EMPTYCLS = [D + 'ActionToken', D + 'VoidToken', D + 'LanguageToken']
# markup classes: never emitted by expand_sequence (closure lemma, C03)
MARKUP = [D + 'CommentToken', D + 'MacroToken', D + 'SpecialToken',
          D + 'BeginToken', D + 'EndToken', D + 'ItemToken',
          D + 'AccentToken', D + 'VerbatimToken', D + 'MathBeginToken']
MATHX = [D + 'MathElemToken', D + 'MathOperToken', D + 'MathSpaceToken',
         M + 'MathPartToken']
# classes that may be emitted by expand_sequence (closure lemma, C03)
OUTPUT = TEXTY + [D + 'LanguageToken']


# membership in Parameters.accent_macros (one table per run; uninterpreted)
ACCENTS = StrSet('accent_macros')


def is_accent(txt):
    t = lift_str(txt)
    return ACCENTS.fn(t.arr, zint(t.ln))


def check_token_classes(repo):
    """the class table is re-derived from the sources at every run"""
    found = [q for q in repo.classes
             if repo.is_subclass(q, D + 'TextToken')]
    missing = sorted(set(found) - set(TOKEN_CLASSES))
    gone = sorted(set(TOKEN_CLASSES) - set(found))
    return missing, gone


def real_parms():
    """the real default tables, evaluated from the code under check"""
    import importlib
    import sys
    from pyvc import front
    root = front.REPO
    if root not in sys.path:
        sys.path.insert(0, root)
    for m in [k for k in sys.modules if k == 'yalafi' or
              k.startswith('yalafi.')]:
        del sys.modules[m]
    parameters = importlib.import_module('yalafi.parameters')
    return parameters.Parameters()


_parms_cache = {}


def special_table():
    if 'V' not in _parms_cache:
        p = real_parms()
        _parms_cache['V'] = dict(p.special_tokens)
        _parms_cache['parms'] = p
    return _parms_cache['V']


def cls_is(ex, t, *quals):
    c = ex.cls_of(t)
    opts = []
    for q in quals:
        tg = ex.tag(q)
        if isinstance(c, int):
            opts.append(c == tg)
        else:
            opts.append(c == tg)
    return Or(*opts)


def tfield(t, name, default=False):
    return t.fields.get(name, default)


def tlen(t):
    return sym.seq_len(t.fields['txt'])


def in_text(t, N):
    p = zint(t.fields['pos'])
    L = zint(tlen(t))
    return And(p >= 0, Or(p < zint(N), And(L == 0, p <= zint(N))))


def in_text_strict(t, N):
    p = zint(t.fields['pos'])
    return And(p >= 0, p < zint(N))


def span(t, N):
    p = zint(t.fields['pos'])
    L = zint(tlen(t))
    return Or(L == 0, zbool(t.fields['pos_fix']), p + L <= zint(N))


import os as _os
FOCUS = _os.environ.get('PYVC_FOCUS', 'all')   # 'range': drop C02 clauses


def exact(t, src):
    """a non-fixed token of more than one character is a slice of the
    source at its own position (C02)"""
    if FOCUS == 'range':
        return True
    src = lift_str(src)
    txt = lift_str(t.fields['txt'])
    p = zint(t.fields['pos'])
    L = txt.ln
    return Or(zbool(t.fields['pos_fix']), zint(L) <= 1,
              forall(0, L, lambda k: txt.at(k) == src.at(p + k)))


def exact_full(t, src):
    """the token text is the source slice at its position (any length)"""
    if FOCUS == 'range':
        return True
    txt = lift_str(t.fields['txt'])
    p = zint(t.fields['pos'])
    return forall(0, txt.ln, lambda k: txt.at(k) == src.at(p + k))


def big_special_keys():
    V = special_table()
    return sorted(k for k, v in V.items() if len(v) > 1)


def special_ok(ex, t, N, src=None):
    """Special token: its text is a key of the table; keys whose value is
    longer than one character need the span clause (table lemma:
    len(V[k]) <= len(k), checked by evaluation in props)"""
    V = special_table()
    txt = t.fields['txt']
    iskey = Or(*[sym.seq_eq(txt, k) for k in V])
    big = Or(*[sym.seq_eq(txt, k) for k in big_special_keys()])
    if src is not None:
        return And(iskey, Implies(big, And(span(t, N), exact(t, src))))
    return And(iskey, Implies(big, span(t, N)))


def ok(ex, t, src, with_exact=True):
    """object invariant Ok(t, src) of DESIGN 3.1"""
    src = lift_str(src)
    N = src.ln
    if isinstance(t.cls, str):
        # concrete class: only the relevant clauses (other fields may not
        # exist on the object)
        parts = [in_text_strict(t, N)]
        if t.cls in NONEMPTY:
            parts.append(zint(tlen(t)) >= 1)
        if t.cls in EMPTYCLS:
            parts.append(zint(tlen(t)) == 0)
        if t.cls in TEXTY:
            parts.append(span(t, N))
        if t.cls == D + 'SpecialToken':
            parts.append(special_ok(ex, t, N, src if with_exact else None))
        if t.cls == D + 'VerbatimToken':
            fx = zbool(t.fields['pos_fix'])
            p = zint(t.fields['pos'])
            L = zint(tlen(t))
            parts.append(Or(fx, p + L <= zint(N)))
            parts.append(Implies(And(zbool(tfield(t, 'environ', False)), Not(fx)),
                                 p + L < zint(N)))
        if t.cls == D + 'ArgumentToken':
            parts.append(zint(tfield(t, 'arg', 0)) >= 0)
        if t.cls == D + 'CommentToken':
            parts.append(lift_str(t.fields['txt']).at(0) == ord('%'))
        if t.cls == D + 'AccentToken':
            parts.append(is_accent(t.fields['txt']))
        if with_exact and t.cls in TEXTY + [D + 'VerbatimToken']:
            parts.append(exact(t, src))
        return And(*parts)
    texty = cls_is(ex, t, *TEXTY)
    special = cls_is(ex, t, D + 'SpecialToken')
    verb = cls_is(ex, t, D + 'VerbatimToken')
    p = zint(t.fields['pos'])
    L = zint(tlen(t))
    fx = zbool(t.fields['pos_fix'])
    parts = [in_text_strict(t, N),
             Implies(cls_is(ex, t, *NONEMPTY), L >= 1),
             Implies(cls_is(ex, t, *EMPTYCLS), L == 0),
             Implies(texty, span(t, N)),
             Implies(special, special_ok(ex, t, N,
                                         src if with_exact else None)),
             Implies(verb, Or(fx, p + L <= zint(N))),
             Implies(And(verb, zbool(tfield(t, 'environ', False)), Not(fx)),
                     p + L < zint(N)),
             Implies(cls_is(ex, t, D + 'ArgumentToken'),
                     zint(tfield(t, 'arg', 0)) >= 0),
             Implies(cls_is(ex, t, D + 'CommentToken'),
                     lift_str(t.fields['txt']).at(0) == ord('%')),
             Implies(cls_is(ex, t, D + 'AccentToken'),
                     is_accent(t.fields['txt']))]
    if with_exact:
        parts.append(Implies(Or(texty, verb), exact(t, src)))
    return And(*parts)


def cls_inv(ex, t):
    """the source-independent part of Ok: class / text consistency"""
    V = special_table()
    txt = t.fields['txt']
    iskey = Or(*[sym.seq_eq(txt, k) for k in V])
    return And(Implies(cls_is(ex, t, D + 'SpecialToken'), iskey),
               Implies(cls_is(ex, t, *NONEMPTY), zint(tlen(t)) >= 1),
               Implies(cls_is(ex, t, *EMPTYCLS), zint(tlen(t)) == 0),
               Implies(cls_is(ex, t, D + 'AccentToken'), is_accent(txt)),
               Implies(cls_is(ex, t, D + 'CommentToken'),
                       lift_str(txt).at(0) == ord('%')),
               Implies(cls_is(ex, t, D + 'ArgumentToken'),
                       zint(tfield(t, 'arg', 0)) >= 0))


class ClassS(Spec):
    """a token class object (value of a `tok_typ` parameter)"""
    def make(self, ex, st):
        from pyvc.engine import TypeOf
        c = fresh_int('typ')
        st.assume(Or(*[c == ex.tag(q) for q in TOKEN_CLASSES]))
        return TypeOf(c)

    def check(self, ex, st, v, label, line=0):
        pass


def pre_out(ex, t, src):
    """token collected for the text output: Ok, neither markup nor one of
    the maths classes, characters are where they claim to be"""
    src = lift_str(src)
    return And(ok(ex, t, src), Not(cls_is(ex, t, *MARKUP)),
               Not(cls_is(ex, t, *MATHX)), span(t, src.ln), exact(t, src))


def work_tok(ex, t, src):
    """working tokens of remove_pure_action_lines: like pre_out, but an
    empty token may sit at pos == N (sentinels, fully consumed tokens)"""
    src = lift_str(src)
    N = src.ln
    strict = Or(zint(tlen(t)) >= 1,
                cls_is(ex, t, D + 'LanguageToken', D + 'ActionToken'))
    return And(in_text(t, N), Implies(strict, in_text_strict(t, N)),
               Implies(cls_is(ex, t, *EMPTYCLS), zint(tlen(t)) == 0),
               Not(cls_is(ex, t, *MARKUP)), Not(cls_is(ex, t, *MATHX)),
               span(t, N), exact(t, src),
               Implies(cls_is(ex, t, D + 'ArgumentToken'),
                       zint(tfield(t, 'arg', 0)) >= 0))


def out_final(ex, t, src):
    """token returned by expand_sequence"""
    return And(pre_out(ex, t, src),
               Not(cls_is(ex, t, D + 'ActionToken', D + 'VoidToken')),
               Or(zint(tlen(t)) >= 1, cls_is(ex, t, D + 'LanguageToken')))


def WorkList(src, lenpred=None):
    return ListS(TokS(lambda ex, t: work_tok(ex, t, src), name='wt'),
                 lenpred, 'work')


def PreOutList(src, lenpred=None):
    return ListS(TokS(lambda ex, t: pre_out(ex, t, src), name='po'),
                 lenpred, 'preout')


def FinalList(src, lenpred=None):
    return ListS(TokS(lambda ex, t: out_final(ex, t, src), name='fo'),
                 lenpred, 'final')


def OutputList(src, lenpred=None):
    """call-side view of an expand_sequence result: additionally no maths
    class (assumed, see contracts.c_parser)"""
    return ListS(TokS(lambda ex, t: And(out_final(ex, t, src),
                                        cls_is(ex, t, *OUTPUT)),
                      name='ot'), lenpred, 'output')


def parse_out(ex, t, src):
    """token returned by Parser.parse: an output token of the document, or
    a language token from the definitions pinned to position 0 (then the
    text is empty and the position irrelevant)"""
    return Or(out_final(ex, t, src),
              And(cls_is(ex, t, D + 'LanguageToken'),
                  zint(tlen(t)) == 0, zint(t.fields['pos']) == 0))


def out_ok(ex, t, src):
    """what get_txt_pos needs of *every* token it is given: the span clause
    regardless of class"""
    return And(in_text(t, src.ln), span(t, src.ln))


def fresh_token(ex, st, name='t', classes=None):
    """token with symbolic class and fields"""
    c = fresh_int(name + '_cls')
    cl = classes or TOKEN_CLASSES
    st.assume(Or(*[c == ex.tag(q) for q in cl]))
    o = Obj(c, {}, fresh=False)
    o.fields['pos'] = fresh_int(name + '_pos')
    o.fields['txt'] = fresh_seq('str', name + '_txt', st.assume)
    o.fields['pos_fix'] = fresh_bool(name + '_fix')
    o.fields['arg'] = fresh_int(name + '_arg')
    o.fields['environ'] = fresh_bool(name + '_environ')
    o.fields['lang'] = fresh_seq('str', name + '_lang', st.assume)
    o.fields['back'] = fresh_bool(name + '_back')
    o.fields['hard'] = fresh_bool(name + '_hard')
    o.fields['brk'] = fresh_bool(name + '_brk')
    o.meta['token'] = True
    o.meta['lazy'] = _scratch_lazy
    return o


def _scratch_lazy(ex, st, o, attr):
    # scratch attributes of remove_pure_action_lines (set by its eval())
    if attr in ('is_blank', 'can_start', 'can_end'):
        return fresh_bool(attr)
    return NotImplemented


class TokS(Spec):
    """token satisfying pred(ex, t) -> formula"""
    unwrap_opt = True

    def __init__(self, pred, classes=None, name='t'):
        self.pred = pred
        self.classes = classes
        self.name = name

    def make(self, ex, st):
        o = fresh_token(ex, st, self.name, self.classes)
        st.assume(self.pred(ex, o))
        return o

    def check(self, ex, st, v, label, line=0):
        if isinstance(v, Opt):
            ex.prove(st, label + ':not-none', Not(v.isnone), line)
            v = v.obj
        if not isinstance(v, Obj):
            from pyvc.sym import EngineError
            raise Unsupported('%s: expected token, got %r' % (label, v))
        if self.classes is not None:
            ex.prove(st, label + ':class', cls_is(ex, v, *self.classes), line)
        ex.prove(st, label, self.pred(ex, v), line)


class OptTokS(Spec):
    def __init__(self, inner, none_iff=None):
        self.inner = inner
        self.none_iff = none_iff

    def make(self, ex, st):
        b = fresh_bool('isnone')
        if self.none_iff is not None:
            st.assume(b == zbool(self.none_iff))
        g = st
        o = self.inner.make(ex, g)
        return Opt(b, o)

    def check(self, ex, st, v, label, line=0):
        if v is None:
            if self.none_iff is not None:
                ex.prove(st, label + ':none-iff', self.none_iff, line)
            return
        if isinstance(v, Opt):
            if self.none_iff is not None:
                ex.prove(st, label + ':none-iff',
                         zbool(v.isnone) == zbool(self.none_iff), line)
            g = st.clone()
            g.assume(Not(v.isnone))
            self.inner.check(ex, g, v.obj, label, line)
            return
        if self.none_iff is not None:
            ex.prove(st, label + ':none-iff', Not(self.none_iff), line)
        self.inner.check(ex, st, v, label, line)


def DocTok(src, classes=None):
    return TokS(lambda ex, t: ok(ex, t, src), classes)


def DocList(src, lenpred=None, classes=None, name='doc'):
    name = name or 'doc'
    return ListS(DocTok(src, classes), lenpred, name)


def OutTok(src):
    return TokS(lambda ex, t: out_ok(ex, t, src))


def OutList(src, lenpred=None):
    return ListS(OutTok(src), lenpred, 'out')
