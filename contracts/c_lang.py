"""Contracts for the parser's language stack (yalafi/parameters.py:
Parameters.change_parser_lang, check_parser_lang, lang_context_lang) --
C12: the language in force for placeholders, shorthands and the hard
language token that heads every detached text flow."""
import z3
from pyvc import sym
from pyvc.sym import (Obj, Opt, TokList, And, Or, Not, Implies, zint, zbool,
                      lift_str, seq_len)
from pyvc.contracts import (FContract, Spec, IntS, BoolS, StrS, ObjS, TupleS,
                            ListS, AnyS, DictS)
from . import common as cm

P = 'yalafi.parameters.Parameters.'
D = 'yalafi.defs.'


def LangParmsS():
    return ObjS('yalafi.parameters.Parameters', {
        'parser_lang_stack': ListS(
            TupleS(cm.LangSettingsS(), StrS(name='lang')),
            lambda n: zint(n) >= 1, 'lang_stack'),
        # table lemma (props/C12.py, by evaluation): 'en' is a key
        'parser_lang_settings': DictS(cm.LangSettingsS(), 'lang_settings',
                                      known=('en',)),
        'lang_context': cm.LangSettingsS()})


def LangTokS():
    return ObjS(D + 'LanguageToken', {
        'pos': IntS(name='pos'), 'txt': StrS(name='txt'),
        'pos_fix': BoolS('fix'), 'lang': StrS(name='tlang'),
        'back': BoolS('back'), 'hard': BoolS('hard'), 'brk': BoolS('brk')})


def register(T, repo):
    def top(A):
        st = A['$st']
        lst = A['self'].fields['parser_lang_stack']
        return A['$ex'].list_get(lst, -1, st, 0, check=False)

    def stack_post(A, r):
        n1 = zint(A['self'].fields['parser_lang_stack'].length())
        n0 = zint(A['old']['n'])
        tok = A['tok']
        back, hard = zbool(tok.fields['back']), zbool(tok.fields['hard'])
        t = top(A)
        same_lang = sym.seq_eq(lift_str(t[1]), lift_str(tok.fields['lang']))
        ctx = A['self'].fields['lang_context']
        is_top = bool(isinstance(ctx, Obj) and isinstance(t[0], Obj) and
                      ctx.oid == t[0].oid)
        return And(
            n1 >= 1,
            # closing a switch pops, but never the initial language
            Implies(back, n1 == z3.If(n0 > 1, n0 - 1, n0)),
            # a hard switch (\\selectlanguage, head of a detached flow)
            # replaces the language in force and nothing below it
            Implies(And(Not(back), hard), And(n1 == n0, same_lang)),
            # a soft switch pushes
            Implies(And(Not(back), Not(hard)), And(n1 == n0 + 1, same_lang)),
            # the settings in use are those of the language in force
            is_top)
    T.add(FContract(
        P + 'change_parser_lang',
        params={'self': LangParmsS(), 'tok': LangTokS()},
        olds=lambda A: {'n': A['self'].fields['parser_lang_stack'].length()},
        ensures=[('language-stack', stack_post)]))

    def lcl_post(A, r):
        t = top(A)
        return sym.seq_eq(lift_str(r), lift_str(t[1]))
    T.add(FContract(
        P + 'lang_context_lang', params={'self': LangParmsS()},
        result=lambda A: StrS(name='lang'),
        ensures=[('language-in-force-is-top-of-stack', lcl_post)],
        pure=True))
    return T
