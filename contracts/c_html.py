"""Contracts for yalafi/shell/genhtml.py (C16): escaping discipline as a
taint check -- every string that comes from the LaTeX source or from the
proofreader is 'raw'; only protect_html turns raw text into markup-safe
text; everything concatenated into the report must be safe."""
import z3
from pyvc import sym
from pyvc.sym import (SSeq, Obj, Opt, Opaque, TokList, Single, Many, And, Or,
                      Not, Implies, Ite, zint, zbool, fresh_int, fresh_bool,
                      fresh_seq, forall, lift_str, seq_len, Unsupported)
from pyvc.contracts import (FContract, Spec, IntS, BoolS, StrS, IListS, ObjS,
                            TupleS, ListS, AnyS)
from pyvc.engine import FuncRef, LambdaRef
from . import c_shell as sh

GH = 'yalafi.shell.genhtml.'


class RawStrS(Spec):
    def __init__(self, name='raw'):
        self.name = name

    def make(self, ex, st):
        s = fresh_seq('str', self.name, st.assume)
        s.tag = 'raw'
        return s

    def check(self, ex, st, v, label, line=0):
        pass


def is_raw(v):
    return isinstance(v, SSeq) and v.tag == 'raw'


class SafeStrS(Spec):
    """markup-safe string (no unescaped text from source / proofreader)"""
    def make(self, ex, st):
        return fresh_seq('str', 'safe', st.assume)

    def check(self, ex, st, v, label, line=0):
        ex.prove(st, label + ':html-safe', not is_raw(v), line,
                 note='text from the source or the proofreader reaches the '
                      'markup without protect_html')


def register(T, repo):
    # protect_html: the only sanitiser (its character map is checked by
    # evaluation, props.C16 lemma A)
    T.add(FContract(GH + 'protect_html', params={'s': AnyS()},
                    result=lambda A: SafeStrS(), pure=True))

    # module constants of genhtml (styles) are literals set by init()
    prev = T.globals_hook

    def g_hook(ex, st, module, name):
        if module == GH[:-1] and name in ('highlight_style',
                                          'highlight_style_unsure',
                                          'number_style'):
            return fresh_seq('str', name, st.assume)
        return prev(ex, st, module, name) if prev else NotImplemented
    T.globals_hook = g_hook
    mi = repo.modules[GH[:-1]]
    for n in ('highlight_style', 'highlight_style_unsure', 'number_style'):
        mi.globals.setdefault(n, None)

    # re.sub(pattern, repl, s): with a literal repl the result is as raw as
    # s; with a callback the callback is run on a generic match whose
    # groups are substrings of s
    def re_sub(ex, st, fi, args, kw, line):
        pat, repl, s = args[0], args[1], args[2]
        res = fresh_seq('str', 'subst', st.assume)
        raw = is_raw(s)
        if isinstance(repl, (FuncRef, LambdaRef)):
            from pyvc import builtins as bi
            m = Obj('re.MatchG', {'_string': lift_str(s)})
            outs = list(bi.dispatch(ex, sh.ast_call(line), st, fi, repl,
                                    [m], {}))
            for st2, v in outs:
                raw = raw or is_raw(v)
        elif is_raw(repl):
            raw = True
        if raw:
            res.tag = 'raw'
        yield st, res
    T.externs['re.sub'] = re_sub

    def mg_group(ex, st, fi, o, args, kw, line):
        g = fresh_seq('str', 'group', st.assume)
        base = o.fields.get('_string')
        if base is not None and is_raw(base):
            g.tag = 'raw'
        yield st, g
    T.obj_methods[('re.MatchG', 'group')] = mg_group

    MatchS = sh.JValS((sh.jv.T_DICT,), name='m')

    T.add(FContract(
        GH + 'begin_match',
        params={'m': MatchS, 'lin': IntS(name='lin'),
                'unsure': BoolS('unsure')},
        result=lambda A: TupleS(SafeStrS(), SafeStrS())))
    T.add(FContract(GH + 'end_match', params={},
                    result=lambda A: SafeStrS(), pure=True))
    T.add(FContract(
        GH + 'generate_highlight',
        params={'m': MatchS, 's': RawStrS('span'), 'lin': IntS(name='lin'),
                'unsure': BoolS('unsure')},
        result=lambda A: SafeStrS()))
    return T


def register2(T, repo):
    from pyvc.builtins import count_f
    TT = 'yalafi.tex2txt.'

    def nlines(tex):
        t = lift_str(tex)
        return count_f(t.arr, z3.IntVal(10), z3.IntVal(0), zint(t.ln))

    # get_line_starts (assumed: regex r'\n' on '\n' + s): one entry per
    # line, increasing, inside the text
    def gls_result(A):
        tex = lift_str(A['s'])
        n = nlines(tex) + 1
        return IListS(lambda l: And(
            zint(l.ln) == n, zint(l.ln) >= 1, l.at(0) == 0,
            forall(0, l.ln, lambda k: And(0 <= l.at(k),
                                          l.at(k) <= zint(tex.ln))),
            forall(0, zint(l.ln) - 1, lambda k: l.at(k) < l.at(k + 1))),
            name='starts')
    T.add(FContract(TT + 'get_line_starts', params={'s': AnyS()},
                    result=gls_result, pure=True))

    class HS(Spec):
        """highlight record (tex2txt.Aux): span inside the source, line
        range inside the list of line starts"""
        def __init__(self, tex, stage):
            self.tex = lift_str(tex)
            self.stage = stage      # 1: after first loop, 2: after regions

        def pred(self, h):
            N = zint(self.tex.ln)
            L = nlines(self.tex)
            p = [0 <= zint(h.fields['beg']),
                 zint(h.fields['beg']) < zint(h.fields['end']),
                 zint(h.fields['beg']) < N,
                 zint(h.fields['end']) <= N,
                 0 <= zint(h.fields['beglin']),
                 zint(h.fields['beglin']) <= L,
                 zint(h.fields['lin']) >= 0]
            if self.stage == 1:
                p += [zint(h.fields['endlin']) >= 1,
                      zint(h.fields['endlin']) <= L + 1,
                      zint(h.fields['beglin']) < zint(h.fields['endlin'])]
            else:
                p += [zint(h.fields['endlin']) >= 0,
                      zint(h.fields['endlin']) <= L]
            return And(*p)

        def make(self, ex, st):
            h = Obj('yalafi.tex2txt.Aux', {
                'beg': fresh_int('beg'), 'end': fresh_int('end'),
                'beglin': fresh_int('beglin'), 'endlin': fresh_int('endlin'),
                'lin': fresh_int('lin'), 'unsure': fresh_bool('unsure'),
                'm': sh.TypedMatchS().make(ex, st)})
            st.assume(self.pred(h))
            return h

        def check(self, ex, st, v, label, line=0):
            ex.prove(st, label + ':highlight-in-file', self.pred(v), line)

    def charmap_ok(A):
        cm_, N = A['charmap'], zint(seq_len(A['tex']))
        return forall(0, cm_.ln, lambda k: And(
            1 <= sym.iabs(cm_.at(k)), sym.iabs(cm_.at(k)) <= N))

    c = T.add(FContract(
        GH + 'generate_html',
        params={'tex': RawStrS('tex'), 'charmap': IListS(name='charmap'),
                'matches': ListS(sh.TypedMatchS(), None, 'matches'),
                # the file name comes from the command line (not among the
                # texts C16 speaks about)
                'file': StrS(name='file')},
        requires=[('charmap-in-file', charmap_ok)],
        result=lambda A: TupleS(SafeStrS(), AnyS(), SafeStrS(), IntS())))
    lp = c.loop(0)
    lp.shapes['hdata'] = lambda E: ListS(HS(E['tex'], 1), None, 'hdata')
    lp.shapes['h'] = lambda E: AnyS()
    lp.shapes['s'] = lambda E: AnyS()
    lp = c.loop(1)
    lp.shapes['regions'] = lambda E: ListS(
        ListS(HS(E['tex'], 2), lambda n: zint(n) >= 1, 'region'), None,
        'regions')
    lp.shapes['h'] = lambda E: AnyS()
    T.empty_hints[(GH + 'generate_html', 'line_numbers')] = 'ilist'

    def OverlapsS():
        return ListS(TupleS(SafeStrS(), IntS()), None, 'overlaps')
    lp = c.loop(2)
    lp.shapes['res_tot'] = lambda E: SafeStrS()
    lp.shapes['overlaps'] = lambda E: OverlapsS()
    lp.shapes['res'] = lambda E: SafeStrS()
    lp.shapes['h'] = lambda E: AnyS()
    lp.shapes['s'] = lambda E: AnyS()
    lp = c.loop(3)
    lp.shapes['res'] = lambda E: SafeStrS()
    lp.shapes['overlaps'] = lambda E: OverlapsS()
    lp.shapes['s'] = lambda E: AnyS()
    lp = c.loop(4)
    lp.shapes['postfix'] = lambda E: SafeStrS()
    lp.shapes['s'] = lambda E: AnyS()

    c2 = T.add(FContract(
        GH + 'add_line_numbers',
        params={'s': SafeStrS(), 'line_numbers': IListS(name='numbers')},
        result=lambda A: SafeStrS(), pure=True))
    return T


_reg1 = register


def register(T, repo):      # noqa: F811
    _reg1(T, repo)
    register2(T, repo)
    return T
