"""Contracts for the proofreading shell (yalafi/shell/*.py)."""
import z3
from pyvc import sym
from pyvc.sym import (SSeq, Obj, Opt, Opaque, TokList, Single, Many, And, Or,
                      Not, Implies, Ite, zint, zbool, fresh_int, fresh_bool,
                      fresh_seq, forall, lift_str, seq_len, Unsupported)
from pyvc.contracts import (FContract, Spec, IntS, BoolS, StrS, IListS, ObjS,
                            TupleS, ListS, AnyS, ConstS, OptS)
from pyvc.engine import PyDict

CH = 'yalafi.shell.checks.'


class MatchObjS(Spec):
    """re.Match object over a text (assumed contract of the re module:
    0 <= start <= end <= len(string), group(0) == string[start:end])"""
    def make(self, ex, st):
        s = fresh_seq('str', 'mstring', st.assume)
        a, b = fresh_int('mstart'), fresh_int('mend')
        st.assume(And(0 <= a, a <= b, b <= s.ln))
        return Obj('re.Match', {'_start': a, '_end': b, '_string': s,
                                'string': s})

    def check(self, ex, st, v, label, line=0):
        pass


class ContextS(Spec):
    def make(self, ex, st):
        d = PyDict('context')
        d.items = {'text': fresh_seq('str', 'ctext', st.assume),
                   'offset': fresh_int('coffset'),
                   'length': fresh_int('clength')}
        return d

    def check(self, ex, st, v, label, line=0):
        if not isinstance(v, PyDict) or set(v.items) != {
                'text', 'offset', 'length'}:
            ex.prove(st, label + ':shape', False, line)


def register(T, repo):
    # ------------------------------------------------------ create_context
    def cc_post(A, r):
        """the excerpt marks the same characters as (offset, length) does
        in the text (C20): text[o':o'+len'] is txt[offset:offset+len']
        with TAB / NL blanked, and the marker stays inside the excerpt"""
        txt = lift_str(A['txt'])
        off, ln = zint(A['offset']), zint(A['length'])
        text = lift_str(r.items['text'])
        o2, l2 = zint(r.items['offset']), zint(r.items['length'])

        def blank(c):
            return z3.If(Or(c == 9, c == 10), z3.IntVal(32), c)
        return And(
            o2 >= 3, l2 >= 0, l2 <= ln,
            o2 + l2 <= zint(text.ln) - 3,
            forall(0, l2, lambda k: text.at(o2 + k) ==
                   blank(txt.at(off + k))),
            # nothing is clipped when the flagged span fits into the window
            Implies(ln <= 45, l2 == ln))
    T.add(FContract(
        CH + 'create_context',
        params={'txt': StrS(name='txt'), 'offset': IntS(name='offset'),
                'length': IntS(name='length')},
        requires=[('span-in-text', lambda A: And(
            0 <= zint(A['offset']), 0 <= zint(A['length']),
            zint(A['offset']) + zint(A['length']) <=
            zint(seq_len(A['txt']))))],
        result=lambda A: ContextS(),
        ensures=[('excerpt-marks-span', cc_post)], pure=True))

    def cm_post(A, r):
        m = A['m']
        return And(zint(r.items['offset']) == zint(m.fields['_start']),
                   zint(r.items['length']) == zint(m.fields['_end']) -
                   zint(m.fields['_start']))
    c = T.add(FContract(
        CH + 'create_message',
        params={'m': MatchObjS(), 'rule': StrS(name='rule'),
                'msg': StrS(name='msg'), 'repl': StrS(name='repl')},
        result=lambda A: AnyS('message'),
        ensures=[('offset-length-select-match', cm_post)], pure=True))
    return T
