"""Contracts for the proofreading shell (yalafi/shell/*.py)."""
import z3
from pyvc import sym
from pyvc.sym import (SSeq, Obj, Opt, Opaque, TokList, Single, Many, And, Or,
                      Not, Implies, Ite, zint, zbool, fresh_int, fresh_bool,
                      fresh_seq, forall, lift_str, seq_len, Unsupported)
from pyvc.contracts import (FContract, Spec, IntS, BoolS, StrS, IListS, ObjS,
                            TupleS, ListS, AnyS, ConstS, OptS)
from pyvc.engine import PyDict

CH = 'yalafi.shell.checks.'


class MatchObjS(Spec):
    """re.Match object over a text (assumed contract of the re module:
    0 <= start <= end <= len(string), group(0) == string[start:end])"""
    def make(self, ex, st):
        s = fresh_seq('str', 'mstring', st.assume)
        a, b = fresh_int('mstart'), fresh_int('mend')
        st.assume(And(0 <= a, a <= b, b <= s.ln))
        return Obj('re.Match', {'_start': a, '_end': b, '_string': s,
                                'string': s})

    def check(self, ex, st, v, label, line=0):
        pass


class ContextS(Spec):
    def make(self, ex, st):
        d = PyDict('context')
        d.items = {'text': fresh_seq('str', 'ctext', st.assume),
                   'offset': fresh_int('coffset'),
                   'length': fresh_int('clength')}
        return d

    def check(self, ex, st, v, label, line=0):
        if not isinstance(v, PyDict) or set(v.items) != {
                'text', 'offset', 'length'}:
            ex.prove(st, label + ':shape', False, line)


def register(T, repo):
    # ------------------------------------------------------ create_context
    def cc_post(A, r):
        """the excerpt marks the same characters as (offset, length) does
        in the text (C20): text[o':o'+len'] is txt[offset:offset+len']
        with TAB / NL blanked, and the marker stays inside the excerpt"""
        txt = lift_str(A['txt'])
        off, ln = zint(A['offset']), zint(A['length'])
        text = lift_str(r.items['text'])
        o2, l2 = zint(r.items['offset']), zint(r.items['length'])

        def blank(c):
            return z3.If(Or(c == 9, c == 10), z3.IntVal(32), c)
        return And(
            o2 >= 3, l2 >= 0, l2 <= ln,
            o2 + l2 <= zint(text.ln) - 3,
            forall(0, l2, lambda k: text.at(o2 + k) ==
                   blank(txt.at(off + k))),
            # nothing is clipped when the flagged span fits into the window
            Implies(ln <= 45, l2 == ln))
    T.add(FContract(
        CH + 'create_context',
        params={'txt': StrS(name='txt'), 'offset': IntS(name='offset'),
                'length': IntS(name='length')},
        requires=[('span-in-text', lambda A: And(
            0 <= zint(A['offset']), 0 <= zint(A['length']),
            zint(A['offset']) + zint(A['length']) <=
            zint(seq_len(A['txt']))))],
        result=lambda A: ContextS(),
        ensures=[('excerpt-marks-span', cc_post)], pure=True))

    def cm_post(A, r):
        m = A['m']
        return And(zint(r.items['offset']) == zint(m.fields['_start']),
                   zint(r.items['length']) == zint(m.fields['_end']) -
                   zint(m.fields['_start']))
    c = T.add(FContract(
        CH + 'create_message',
        params={'m': MatchObjS(), 'rule': StrS(name='rule'),
                'msg': StrS(name='msg'), 'repl': StrS(name='repl')},
        result=lambda A: AnyS('message'),
        ensures=[('offset-length-select-match', cm_post)], pure=True))

    # ----------- create_single_letter_matches.<locals>.f (the cover test;
    # the function table keeps the LAST nested def of that name)
    # hits = [(B[j], E[j]) : j < n] as two ghost arrays; result:
    #   f(m)  <=>  exists j < n:  B[j] <= m.start(0) < E[j]
    COV = CH + 'create_single_letter_matches.<locals>.f'

    def cov_ghost(ex, st, mode, vals):
        return {'B': z3.Const('hitB_%d' % sym.uid(), sym.A),
                'E': z3.Const('hitE_%d' % sym.uid(), sym.A)}

    def hits_spec(G):
        return ListS(TupleS(IntS(name='beg'), IntS(name='end')), None,
                     'hits', indexed=lambda i, e: And(
                         zint(e[0]) == z3.Select(G['B'], zint(i)),
                         zint(e[1]) == z3.Select(G['E'], zint(i))))

    def covered(A, upto, s):
        j = z3.Int('j_%d' % sym.uid())
        return z3.Exists([j], And(0 <= j, j < zint(upto),
                                  z3.Select(A['B'], j) <= s,
                                  s < z3.Select(A['E'], j)))
    c = T.add(FContract(
        COV, ghosts=cov_ghost,
        params=lambda G: {'m': MatchObjS()},
        free=lambda G: {'hits': hits_spec(G)},
        result=lambda A: BoolS('covered'),
        ensures=[('covered-iff-start-inside-a-hit', lambda A, r: zbool(r) ==
                  covered(A, A['hits'].length(),
                          zint(A['m'].fields['_start'])))],
        pure=True))
    c.loop(0).invs.append(('no-earlier-hit-covers', lambda E: Not(covered(
        E, E['idx0'], zint(E['m'].fields['_start'])))))
    return T


# ===================================================================== JSON
from pyvc import jsonval as jv     # noqa: E402
from pyvc.jsonval import JVal      # noqa: E402

SU = 'yalafi.shell.utils.'
SH = 'yalafi.shell.shell.'
PR = 'yalafi.shell.proofreader.'


class JValS(Spec):
    """JSON value; typed=(type tags) fixes its type; fields: key ->
    (spec of the child) for keys known to be present"""
    def __init__(self, types=None, fields=None, name='j'):
        self.types = types
        self.fields = fields or {}
        self.name = name

    def make(self, ex, st):
        j = JVal(self.name)
        st.assume(j.constraints())
        if self.types:
            st.assume(j.is_types(*self.types))
        for k, sp in self.fields.items():
            ch = sp.make(ex, st)
            j.items[k] = [True, ch]
        return j

    def check(self, ex, st, v, label, line=0):
        if not isinstance(v, JVal):
            if self.types == (jv.T_DICT,) and isinstance(v, PyDict):
                for k, sp in self.fields.items():
                    if k not in v.items:
                        ex.prove(st, '%s:has[%s]' % (label, k), False, line)
                    else:
                        sp.check(ex, st, v.items[k], label + '.' + k, line)
                return
            if self.types and set(self.types) <= {jv.T_INT, jv.T_BOOL} \
                    and sym.is_int(v):
                return
            from pyvc.sym import EngineError
            raise EngineError('%s: expected JSON value, got %r' % (label, v))
        if self.types:
            ex.prove(st, label + ':json-type', v.is_types(*self.types), line)
        for k, sp in self.fields.items():
            p, ch = v.child(k)
            ex.prove(st, '%s:json-has[%s]' % (label, k), p, line)
            sp.check(ex, st, ch, label + '.' + k, line)


class FuncValS(Spec):
    def __init__(self, qual):
        self.qual = qual

    def make(self, ex, st):
        from pyvc.engine import FuncRef
        return FuncRef(self.qual)

    def check(self, ex, st, v, label, line=0):
        pass


def JInt(name='n'):
    return JValS((jv.T_INT, jv.T_BOOL), name=name)


def TypedMatchS():
    """a match after run_proofreader_options: a dict whose offset and
    length are integers (everything else is untyped)"""
    return JValS((jv.T_DICT,), {'offset': JInt('offset'),
                                'length': JInt('length')}, name='m')


def ast_call(line):
    import ast
    n = ast.Call(func=ast.Name(id='f', ctx=ast.Load()), args=[], keywords=[])
    n.lineno = line
    return n


def num(v):
    return v.ival if isinstance(v, JVal) else zint(v)


def register_json(T, repo):
    # ------------------------------------------------------------ json_get
    c = FContract(SH + 'json_get', params={'dic': AnyS(), 'item': AnyS(),
                                           'typ': AnyS()})

    def jg_apply(ex, st, vals, line, c=c):
        # returns a value of type `typ` or does not return (json_fatal)
        from pyvc.engine import Builtin, TypeOf
        dic, item, typ = vals['dic'], vals['item'], vals['typ']
        if isinstance(dic, JVal):
            if not isinstance(item, str):
                raise Unsupported('json_get item %r' % (item,))
            st.assume(dic.typ == jv.T_DICT)
            p, ch = dic.child(item)
            if isinstance(ch, JVal):
                st.assume(zbool(p))
                st.assume(ch.py_isinstance(ex, st, typ if isinstance(
                    typ, tuple) else (typ,)))
                # typed scalar results become ordinary values
                if isinstance(typ, Builtin) and typ.name == 'str':
                    yield st, ch.string(st)
                    return
                if isinstance(typ, Builtin) and typ.name == 'int':
                    yield st, ch.ival
                    return
            else:
                dic.items[item][0] = True
            yield st, ch
            return
        if isinstance(dic, PyDict) and isinstance(item, str) and \
                item in dic.items:
            yield st, dic.items[item]
            return
        raise Unsupported('json_get on %r' % (dic,))
    c.apply = jg_apply
    T.add(c)
    for q in ('yalafi.shell.gentext.json_get', 'yalafi.shell.genxml.json_get',
              'yalafi.shell.genhtml.json_get', PR + 'json_get'):
        pass

    # module globals of the report generators (set by init(vars))
    prev_g = T.globals_hook

    def g_hook(ex, st, module, name):
        if module.startswith('yalafi.shell.') and name == 'json_get':
            from pyvc.engine import FuncRef
            return FuncRef(SH + 'json_get')
        return prev_g(ex, st, module, name) if prev_g else NotImplemented
    T.globals_hook = g_hook
    from pyvc import front as _front
    for mi in _front.repo().modules.values():
        if mi.name.startswith('yalafi.shell.'):
            mi.globals.setdefault('json_get', None)
            mi.globals.setdefault('cmdline', None)

    def f_write(ex, st, fi, o, args, kw, line):
        # assumed: file.write accepts a str
        if not sym.is_str(args[0]):
            ex.prove(st, 'safe:write-str@%d' % line, False, line)
        st.ghost['$writes'] = st.ghost.get('$writes', 0) + 1
        yield st, None

    def f_flush(ex, st, fi, o, args, kw, line):
        yield st, None
    T.obj_methods[('file', 'write')] = f_write
    T.obj_methods[('file', 'flush')] = f_flush

    # --------------------------------------------- correct_mark_macroname
    def cmm_post(A, r):
        off, ln = zint(A['offset']), zint(A['length'])
        N = zint(seq_len(A['latex']))
        return And(Or(r == ln, And(ln == 1, r >= 1)),
                   Implies(And(0 <= off, off < N, ln == 1), off + r <= N))
    T.add(FContract(
        SU + 'correct_mark_macroname',
        params={'offset': IntS(name='offset'), 'length': IntS(name='length'),
                'latex': StrS(name='latex')},
        result=lambda A: IntS(name='len'),
        ensures=[('length', cmm_post)], pure=True))

    def re_search(ex, st, fi, args, kw, line):
        # assumed contract of re.search with a pattern anchored by \\A:
        # None, or a match starting at 0 inside the string
        s = lift_str(args[1])
        b = fresh_int('mend')
        st.assume(And(0 <= b, b <= zint(s.ln)))
        m = Obj('re.Match', {'_start': 0, '_end': b, '_string': s,
                             'string': s})
        pat = args[0]
        if isinstance(pat, str) and pat.startswith('\\A') and \
                pat.endswith('+'):
            st.assume(b >= 1)
        yield st, Opt(fresh_bool('nomatch'), m)
    T.externs['re.search'] = re_search

    # ------------------------------------------------- map_match_position
    def charmap_ok(A):
        cm_, N = A['charmap'], zint(seq_len(A['latex']))
        return And(zint(cm_.ln) >= 1, forall(0, cm_.ln, lambda k: And(
            1 <= sym.iabs(cm_.at(k)), sym.iabs(cm_.at(k)) <= N)))

    def mmp_post(A, r):
        m = A['m']
        N = zint(seq_len(A['latex']))
        off = num(m.items['offset'][1])
        ln = num(m.items['length'][1])
        # C15: the reported location lies inside the LaTeX file; C14: it is
        # the source position of the flagged plain-text character
        cmap = A['charmap']
        o0 = zint(A['old']['offset'])
        clamp = z3.If(o0 < 0, 0, z3.If(o0 > zint(cmap.ln) - 1,
                                       zint(cmap.ln) - 1, o0))
        return And(0 <= off, off < N,
                   off == sym.iabs(cmap.at(clamp)) - 1,
                   off + ln <= N)
    c = T.add(FContract(
        SU + 'map_match_position',
        params={'m': TypedMatchS(), 'latex': StrS(name='latex'),
                'charmap': IListS(name='charmap')},
        requires=[('charmap-in-file', charmap_ok)],
        returns_param='m',
        ensures=[('location-in-file', mmp_post)],
        olds=lambda A: {'offset': num(A['m'].items['offset'][1]),
                        'length': num(A['m'].items['length'][1])}))

    def mmp_effects(ex, st, A):
        m = A['m']
        m.items['offset'] = [True, fresh_int('offset_tex')]
        m.items['length'] = [True, fresh_int('length_tex')]
    c.effects = mmp_effects

    # -------------------------------------------------- output_text_report
    def FileS():
        return ObjS('file', {})

    def MatchesS():
        return ListS(TypedMatchS(), None, 'matches')

    GT = 'yalafi.shell.gentext.'
    c = T.add(FContract(
        GT + 'output_text_report',
        params={'tex': StrS(name='tex'), 'plain': StrS(name='plain'),
                'charmap': IListS(name='charmap'), 'matches': MatchesS(),
                'file': StrS(name='file'), 'out': FileS()},
        requires=[('charmap-in-file', lambda A: charmap_ok(
            {'charmap': A['charmap'], 'latex': A['tex']}))]))

    def linecol(tex, o):
        """spec function shared by all report formats (C14):
        1-based line and column of offset o"""
        from pyvc.builtins import count_f
        t = lift_str(tex)
        return count_f(t.arr, z3.IntVal(10), z3.IntVal(0), zint(o)) + 1

    def tr_body(E0, E1):
        # the report prints the 1-based line and column of the mapped
        # offset: col = offset - (start of its line) + 1
        tex = lift_str(E1['tex'])
        off = zint(E1['offset'])
        lin, nl, col = zint(E1['lin']), zint(E1['nl']), zint(E1['col'])
        return And(0 <= off, off < zint(tex.ln),
                   lin == linecol(tex, off), col == off - nl + 1, col >= 1,
                   0 <= nl, nl <= off,
                   forall(nl, off, lambda k: tex.at(k) != 10),
                   Or(nl == 0, tex.at(nl - 1) == 10))
    c.loop(0).body_post.append(('line-column-of-offset', tr_body))

    def line_start(tex, o, nl):
        """nl is the start of the line that contains offset o"""
        return And(0 <= nl, nl <= o,
                   forall(nl, o, lambda k: tex.at(k) != 10),
                   Or(nl == 0, tex.at(nl - 1) == 10))

    # --------------------------------------------------------- output_json
    GJ = 'yalafi.shell.genjson.'

    def oj_post(A, r):
        # 0-based line / column of the first and the last flagged character
        L = A.get('$locals')
        if L is None:
            return True
        tex = lift_str(L['tex'])
        priv = L['priv']
        beg, end = zint(L['beg']), zint(L['end'])
        fy, fx = zint(priv.items['fromy']), zint(priv.items['fromx'])
        ty, tx = zint(priv.items['toy']), zint(priv.items['tox'])
        return And(0 <= beg, beg < zint(tex.ln), end < zint(tex.ln),
                   fy == linecol(tex, beg) - 1, fx >= 0,
                   line_start(tex, beg, beg - fx),
                   Implies(end >= 0, And(ty == linecol(tex, end) - 1,
                                         line_start(tex, end,
                                                    end - tx + 1))))
    T.add(FContract(
        GJ + 'output_json.<locals>.f',
        params={'m': TypedMatchS()},
        free={'tex': StrS(name='tex'), 'charmap': IListS(name='charmap'),
              'json_get': FuncValS(SH + 'json_get')},
        requires=[('charmap-in-file', lambda A: charmap_ok(
            {'charmap': A['charmap'], 'latex': A['tex']}))],
        returns_param='m', ensures=[('line-column', oj_post)]))

    # --------------------------------------------------- output_xml_report
    GX = 'yalafi.shell.genxml.'
    c = T.add(FContract(
        GX + 'output_xml_report',
        params={'tex': StrS(name='tex'), 'plain': StrS(name='plain'),
                'charmap': IListS(name='charmap'), 'matches': MatchesS(),
                'byte_offset': BoolS('bytes'),
                'file': StrS(name='file'), 'out': FileS()},
        requires=[('charmap-in-file', lambda A: charmap_ok(
            {'charmap': A['charmap'], 'latex': A['tex']}))]))

    def xml_body(E0, E1):
        tex = lift_str(E1['tex'])
        beg, end = zint(E1['beg']), zint(E1['end'])
        fy, ty = zint(E1['fromy']), zint(E1['toy'])
        fx, tx = zint(E1['fromx']), zint(E1['tox'])
        bo = zbool(E1['byte_offset'])
        return And(0 <= beg, beg < zint(tex.ln), end < zint(tex.ln),
                   fy == linecol(tex, beg) - 1,
                   Implies(end >= 0, ty == linecol(tex, end) - 1),
                   Implies(Not(bo), And(fx >= 0, line_start(tex, beg,
                                                            beg - fx))),
                   Implies(And(Not(bo), end >= 0),
                           line_start(tex, end, end - tx + 1)),
                   fx >= 0)

    def xml_bytes(E0, E1):
        # byte mode (xml-b): the columns are the UTF-8 lengths of the text
        # from the start of the line of the first / last flagged character
        # up to (exclusive / inclusive) that character
        from pyvc.builtins import enc_prefix
        tex = lift_str(E1['tex'])
        beg, end = zint(E1['beg']), zint(E1['end'])
        fx, tx = zint(E1['fromx']), zint(E1['tox'])
        bo = zbool(E1['byte_offset'])

        def bytes_from(q, hi):
            return enc_prefix(tex.arr, zint(hi)) - enc_prefix(tex.arr,
                                                              zint(q))
        q1 = z3.Int('q1_%d' % sym.uid())
        q2 = z3.Int('q2_%d' % sym.uid())
        # stated for EVERY line start q (there is exactly one): as a goal
        # this is a Skolem constant, no existential search
        return Implies(bo, And(
            z3.ForAll([q1], Implies(line_start(tex, beg, q1),
                                    fx == bytes_from(q1, beg))),
            Implies(end >= 0, z3.ForAll([q2], Implies(
                line_start(tex, end, q2),
                tx == bytes_from(q2, end + 1))))))
    c.loop(0).body_post.append(('line-column', xml_body))
    c.loop(0).body_post.append(('byte-columns', xml_bytes))

    # bounded native search (only when the solver answers `unknown`;
    # refutation only): the real output_xml_report on short multi-line
    # texts with multi-byte characters, judged by the property's sentence
    def xml_native_callable(ex):
        from pyvc import replay as _r
        gx = _r.real_module('yalafi.shell.genxml')
        ut = _r.real_module('yalafi.shell.utils')

        def jget(dic, item, typ):
            v = dic[item]
            if not isinstance(v, typ):
                raise SystemExit('json')
            return v
        import types
        gx.json_get = jget
        ut.json_get = jget
        ut.cmdline = types.SimpleNamespace(context=20)
        gx.cmdline = ut.cmdline
        return gx.output_xml_report
    c.native_callable = xml_native_callable
    c.native_only = True

    def xml_sampler(rng):
        import io
        n = rng.randint(1, 14)
        tex = ''.join(rng.choice('ab \n\n\u00e4\u20ac%') for _ in range(n))
        if not tex.strip('\n'):
            tex = 'a' + tex
        o = rng.randrange(len(tex))
        ln = rng.randint(1, len(tex) - o)
        m = {'offset': o, 'length': ln, 'message': 'm',
             'rule': {'id': 'R', 'category': {'name': 'c'}},
             'replacements': [{'value': 'v'}],
             'context': {'text': tex, 'offset': o, 'length': ln}}
        return {'tex': tex, 'plain': tex,
                'charmap': list(range(1, len(tex) + 1)), 'matches': [m],
                'byte_offset': rng.random() < 0.7, 'file': 'f.tex',
                'out': io.StringIO()}
    c.sampler = xml_sampler

    def xml_native_post(a, result):
        import re as _re
        tex, m = a['tex'], a['matches'][0]
        out = a['$after']['out'].getvalue()
        got = {k: int(v) for k, v in _re.findall(
            r'(fromy|fromx|toy|tox)="(\d+)"', out)}
        beg = m['offset']
        end = beg + m['length'] - 1

        def col(p, incl):
            ls = tex.rfind('\n', 0, p) + 1
            t = tex[ls:p + (1 if incl else 0)]
            return len(t.encode()) if a['byte_offset'] else len(t)
        want = {'fromy': tex.count('\n', 0, beg), 'fromx': col(beg, False),
                'toy': tex.count('\n', 0, end), 'tox': col(end, True)}
        if got != want:
            return 'tex=%r offset=%d length=%d bytes=%r: reported %r, ' \
                'expected %r' % (tex, beg, m['length'], a['byte_offset'],
                                 got, want)
        return None
    c.native_post = xml_native_post

    def et_tostring(ex, st, fi, args, kw, line):
        yield st, fresh_seq('str', 'xml', st.assume)

    def et_element(ex, st, fi, args, kw, line):
        # assumed: attribute values must be strings
        d = args[1]
        if isinstance(d, PyDict):
            for k, v in d.items.items():
                if not sym.is_str(v):
                    ex.prove(st, 'safe:xml-attribute-str[%s]@%d' % (k, line),
                             False, line)
        yield st, Opaque('xml-element')
    # --------------------------------------------- run_proofreader_options
    from pyvc.engine import refine_list, FuncRef, PyDict as _PD
    TT = 'yalafi.tex2txt.'

    class CmdlineS(Spec):
        """the option object of the shell: attributes typed on demand"""
        BOOLS = ('plain_input', 'list_unknown', 'multi_language',
                 'textgears', 'simple_equations', 'no_specials')
        INTS = ('ml_continue_threshold', 'ml_rule_threshold', 'context')

        def make(self, ex, st):
            o = Obj('cmdline', {})

            def lazy(ex_, st_, o_, attr):
                if attr in self.BOOLS:
                    return fresh_bool(attr)
                if attr in self.INTS:
                    v = fresh_int(attr)
                    if attr == 'context':
                        # shell.py replaces a negative --context by 1e8
                        # right after option parsing
                        st_.assume(v >= 0)
                    return v
                from pyvc.engine import OptVal
                if attr in ('replace',):
                    return OptVal(fresh_bool('none'), ListS(StrS(), None,
                                                            attr).make(ex_, st_))
                return OptVal(fresh_bool(attr + '_none'),
                              fresh_seq('str', attr, st_.assume))
            o.meta['lazy'] = lazy
            return o

        def check(self, ex, st, v, label, line=0):
            pass

    def g_hook2(ex, st, module, name, prev=T.globals_hook):
        if module.startswith('yalafi.shell.') and name == 'cmdline':
            if '$cmdline' not in st.ghost:
                st.ghost['$cmdline'] = CmdlineS().make(ex, st)
            return st.ghost['$cmdline']
        if module == PR[:-1] and name.startswith('equation_replacements'):
            return fresh_seq('str', name, st.assume)
        return prev(ex, st, module, name)
    T.globals_hook = g_hook2
    for mi in _front.repo().modules.values():
        if mi.name == PR[:-1]:
            for n in ('equation_replacements', 'equation_replacements_inline',
                      'equation_replacements_display'):
                mi.globals.setdefault(n, None)

    # tex2txt as seen from the shell (proved in C01 for the single-language
    # mode; multi-language parts: lemmas of C12): text and map of equal
    # length, every entry p with 1 <= |p| <= len(tex)
    def PartS(A):
        N = seq_len(A['latex'])
        t = StrS(name='plain')

        class _P(Spec):
            def make(self, ex, st):
                txt = t.make(ex, st)
                cm_ = IListS(name='charmap').make(ex, st)
                st.assume(zint(cm_.ln) == zint(txt.ln))
                st.assume(forall(0, cm_.ln, lambda k: And(
                    1 <= cm_.at(k), cm_.at(k) <= zint(N))))
                return (txt, cm_)

            def check(self, ex, st, v, label, line=0):
                pass
        return _P()

    class T2TResultS(Spec):
        def __init__(self, A):
            self.A = A

        def make(self, ex, st):
            ml = self.A.get('multi_language', False)
            part = PartS(self.A)
            if ml is False:
                return part.make(ex, st)
            d = _PD('plain_map')
            lang = fresh_seq('str', 'lang', st.assume)
            d.sym_items.append((lang, ListS(part, None, 'parts').make(
                ex, st)))
            return d

        def check(self, ex, st, v, label, line=0):
            pass
    c = T.add(FContract(
        TT + 'tex2txt',
        params={'latex': StrS(name='latex'), 'opts': AnyS(),
                'multi_language': AnyS(), 'modify_parms': AnyS()},
        result=lambda A: T2TResultS(A), pure=True))
    c.ctor_defaults = {}
    T.add(FContract(TT + 'Options', params={}, result=lambda A: AnyS('opts'),
                    pure=True))
    T.get(TT + 'Options').apply_ctor = \
        lambda ex, st, args, kw, line: iter([(st, Opaque('opts'))])

    # tex2txt.fatal / json_fatal: the shell's clean one-line error exit
    # (allowed outcome of C15): does not return
    T.add(FContract(TT + 'fatal', params={'msg': AnyS(), 'detail': AnyS()},
                    no_return=True))
    T.get(TT + 'fatal').ctor_defaults = {}

    def untyped_matches():
        return ListS(JValS(name='lm'), None, 'lt_matches')
    for nm, ps in (('run_languagetool',
                    ['plain', 'language', 'disable', 'enable',
                     'disablecategories', 'enablecategories', 'lt_options']),
                   ('run_textgears', ['plain'])):
        T.add(FContract(PR + nm, params={p_: AnyS() for p_ in ps},
                        result=lambda A: untyped_matches(), pure=True))

    def own_matches():
        # messages built by checks.create_message: dict literals with
        # integer offset / length
        return ListS(TypedMatchS(), None, 'own_matches')
    T.add(FContract(CH + 'create_single_letter_matches',
                    params={'plain': AnyS(), 'cmdline': AnyS()},
                    result=lambda A: own_matches(), pure=True))
    T.add(FContract(CH + 'create_equation_punct_messages',
                    params={'plain': AnyS(), 'cmdline': AnyS(),
                            'equation_replacements_display': AnyS(),
                            'equation_replacements_inline': AnyS(),
                            'equation_replacements': AnyS()},
                    result=lambda A: own_matches(), pure=True))

    def rpo_result(A):
        tex = A['tex']

        class _R(Spec):
            def make(self, ex, st):
                plain = StrS(name='plain_tot').make(ex, st)
                cm_ = IListS(name='charmap_tot').make(ex, st)
                st.assume(zint(cm_.ln) == zint(plain.ln))
                st.assume(forall(0, cm_.ln, lambda k: And(
                    1 <= sym.iabs(cm_.at(k)),
                    sym.iabs(cm_.at(k)) <= zint(seq_len(tex)))))
                ms = MatchesS().make(ex, st)
                st.assume(Implies(zint(ms.length()) > 0, zint(cm_.ln) >= 1))
                return (tex, plain, cm_, ms)

            def check(self, ex, st, v, label, line=0):
                t_, plain, cm_, ms = v
                ex.prove(st, label + ':len-eq',
                         zint(seq_len(plain)) == zint(cm_.ln), line)
                ex.prove(st, label + ':charmap-in-file', forall(
                    0, cm_.ln, lambda k: And(
                        1 <= sym.iabs(cm_.at(k)),
                        sym.iabs(cm_.at(k)) <= zint(seq_len(tex)))), line)
                MatchesS().check(ex, st, ms, label + ':matches', line)
                ex.prove(st, label + ':matches-need-text', Implies(
                    zint(ms.length()) > 0, zint(cm_.ln) >= 1), line)
                # C14: the messages handed out are ordered by position in
                # the LaTeX file: the list was sorted (key proved to be the
                # LaTeX position) and not written afterwards
                srt = st.ghost.get('$sorted_by_key')
                later = [w for w in st.writes[srt[1]:] if w[0] == srt[0]] \
                    if srt is not None else []
                ex.prove(st, label + ':matches-sorted-by-latex-position', Or(
                    zint(ms.length()) == 0,
                    bool(isinstance(ms, TokList) and srt is not None and
                         srt[0] == ms.lid and len(later) == 0)), line)
        return _R()

    c = T.add(FContract(
        PR + 'run_proofreader_options',
        params={'tex': StrS(name='tex'), 'language': StrS(name='language'),
                'disable': StrS(name='disable'),
                'enable': StrS(name='enable'),
                'disablecategories': StrS(name='disacat'),
                'enablecategories': StrS(name='enacat'),
                'lt_options': AnyS()},
        result=rpo_result))

    def typed(ex_, s_, m):
        # established by the typing loop: json_get(m,'offset',int),
        # json_get(m,'length',int) returned
        if isinstance(m, JVal):
            po, co = m.child('offset')
            pl, cl = m.child('length')
            parts = [m.typ == jv.T_DICT]
            if isinstance(co, JVal):
                parts += [zbool(po), co.is_types(jv.T_INT, jv.T_BOOL)]
            if isinstance(cl, JVal):
                parts += [zbool(pl), cl.is_types(jv.T_INT, jv.T_BOOL)]
            return And(*parts)
        return True
    # loop ordinals: 0 = for lang, 1 = for plain, charmap, 2 = for m
    lp2 = c.loop(2)
    lp2.body_post.append(('offset-and-length-typed', lambda E0, E1: typed(
        None, None, E1['m'])))

    def shifted(E0, E1):
        # C14: the offset of a match is shifted by the length of the text
        # submitted before ITS part (the total at the time of the shift)
        m0, m1 = E0['m'], E1['m']
        if not (isinstance(m0, JVal) and isinstance(m1, JVal)):
            return False
        c0, c1 = m0.child('offset')[1], m1.child('offset')[1]
        return num(c1) == num(c0) + zint(seq_len(E0['plain_tot']))
    lp2.body_post.append(('offset-shifted-by-text-before-part', shifted))
    lp2.on_exit = lambda E, st: refine_list(st.ex, st, E['matches'], typed)
    lp2.shapes['m'] = lambda E: AnyS()
    for k in (0, 1):
        lp = c.loop(k)
        lp.shapes['matches_tot'] = lambda E: MatchesS()
        lp.invs.append(('text-and-map-in-step', lambda E: And(
            zint(seq_len(E['plain_tot'])) == zint(E['charmap_tot'].ln),
            Implies(zint(E['matches_tot'].length()) > 0,
                    zint(E['charmap_tot'].ln) >= 1),
            forall(0, E['charmap_tot'].ln, lambda j: And(
                1 <= sym.iabs(E['charmap_tot'].at(j)),
                sym.iabs(E['charmap_tot'].at(j)) <=
                zint(seq_len(E['tex'])))))))
    T.empty_hints[(PR + 'run_proofreader_options', 'charmap_tot')] = 'ilist'

    # C14 / C20: every match collected for a part -- those of the
    # proofreader AND the shell's own messages -- goes through the loop that
    # shifts its offset by the text before the part.  The exit refinement of
    # that loop marks the segments of `matches` (label +ref); a segment
    # added to `matches` afterwards has not been shifted.
    import ast as _ast2

    def rpo_stmt_hook(ex, stmt, st, fi):
        if isinstance(stmt, _ast2.AugAssign) and \
                isinstance(stmt.op, _ast2.Add) and \
                isinstance(stmt.target, _ast2.Name) and \
                stmt.target.id == 'matches_tot' and \
                isinstance(stmt.value, _ast2.Name):
            src = st.env.get(stmt.value.id)
            if isinstance(src, TokList):
                ok = all(isinstance(sg, Many) and sg.label.endswith('+ref')
                         for sg in src.segs)
                ex.prove(st, 'all-matches-of-the-part-went-through-the-'
                         'offset-shift-loop@%d' % stmt.lineno, bool(ok),
                         stmt.lineno)
    T.stmt_hooks[PR + 'run_proofreader_options'] = rpo_stmt_hook

    def sort_hook(ex, st, fi, lst, args, kw, line):
        # assumed contract of list.sort(key=f): f is called on every
        # element, the list is permuted
        from pyvc import builtins as bi
        key = kw.get('key')
        if key is None:
            raise Unsupported('sort without key')
        tmp = TokList(list(lst.segs))
        ex.normalise(tmp, st)
        g = st.clone()
        g.assume(zint(lst.length()) > 0)
        e = tmp.segs[0].mk(g)
        for g2, val in bi.dispatch(ex, ast_call(line), g, fi, key, [e], {}):
            # C14: messages are ordered by position in the LaTeX file --
            # the key of a match is the LaTeX position its offset maps to
            cmt = g2.env.get('charmap_tot')
            if isinstance(e, JVal) and isinstance(cmt, SSeq) and \
                    (sym.is_int(val) or isinstance(val, JVal)):
                off = num(e.child('offset')[1])
                ex.prove(g2, 'sort-key-is-latex-position@%d' % line,
                         num(val) == sym.iabs(cmt.at(off)), line)
        # ghost: this list (in its present state) is ordered by its key
        # (assumed contract of list.sort)
        st.ghost['$sorted_by_key'] = (lst.lid, len(st.writes))
        yield st, None
    T.sort_hook = sort_hook

    # ----------------------------- decoding of the raw proofreader answer
    # (mechanically lifted tails of run_languagetool / run_textgears, see
    # pyvc/front.py lift_answer_decoding).  Assumed contracts of the library:
    # bytes.decode may raise UnicodeDecodeError, JSONDecoder.decode may raise
    # (JSONDecodeError, RecursionError, ...): both are `safe:` obligations
    # that only a try with a catch-all handler discharges (C15: whatever the
    # proofreader answers -- truncated, invalid -- no traceback).
    def bytes_decode(ex, st, fi, o, args, kw, line):
        ex.prove(st, 'safe:may-raise:UnicodeDecodeError@%d' % line, False,
                 line)
        r = fresh_seq('str', 'answer', st.assume)
        r.tag = 'raw'
        yield st, r

    def json_decode(ex, st, fi, o, args, kw, line):
        ex.prove(st, 'safe:may-raise:JSONDecodeError/RecursionError@%d'
                 % line, False, line)
        root = JVal('answer')
        st.assume(root.constraints())
        yield st, root
    T.obj_methods[('bytes', 'decode')] = bytes_decode
    T.obj_methods[('json_decoder', 'decode')] = json_decode
    T.add(FContract(SH + 'json_fatal', params={'item': AnyS()},
                    no_return=True))

    def g_hook3(ex, st, module, name, prev=T.globals_hook):
        if module == PR[:-1] and name == 'json_decoder':
            return Obj('json_decoder', {})
        if module.startswith('yalafi.shell.') and name == 'json_fatal':
            from pyvc.engine import FuncRef
            return FuncRef(SH + 'json_fatal')
        return prev(ex, st, module, name)
    T.globals_hook = g_hook3
    for mi in _front.repo().modules.values():
        if mi.name.startswith('yalafi.shell.'):
            mi.globals.setdefault('json_fatal', None)
            mi.globals.setdefault('json_decoder', None)
    for q in _front.lift_answer_decoding(repo):
        T.add(FContract(q, params={'out': ObjS('bytes', {})}))

    # ------------------------------------------- server.Handler.create_message
    SV = 'yalafi.shell.server.Handler.'

    class RequS(Spec):
        """parsed HTML request (urllib.parse.parse_qs): field -> non-empty
        list of strings; 'language' and 'text' present (checked by do_POST
        through the bare except around create_message)"""
        def make(self, ex, st):
            from pyvc.contracts import DictS
            d = DictS(ListS(StrS(name='v'), lambda n: zint(n) >= 1, 'vals'),
                      'requ', known=('language', 'text')).make(ex, st)
            return d

        def check(self, ex, st, v, label, line=0):
            pass

    class ServerS(Spec):
        def make(self, ex, st):
            from pyvc.contracts import DictS
            srv = Obj('server', {
                'my_lt_options': ListS(StrS(name='o'), None, 'lt_options'
                                       ).make(ex, st),
                'my_option_map': DictS(TupleS(
                    ListS(StrS(name='cli'), lambda n: zint(n) >= 1, 'names'),
                    IntS(lambda n: And(n >= 0, n <= 1), name='nargs')),
                    'option_map').make(ex, st),
                'my_proofreader': FuncValS(PR + 'run_proofreader_options'
                                           ).make(ex, st)})
            return Obj('yalafi.shell.server.Handler', {'server': srv})

        def check(self, ex, st, v, label, line=0):
            pass

    def cm_result_post(A, r):
        return True
    c = T.add(FContract(
        SV + 'create_message',
        params={'self': ServerS(), 'requ': RequS()},
        result=lambda A: AnyS('answer')))
    lp = c.loop(0)
    lp.shapes['new_opts'] = lambda E: ListS(StrS(name='o'), None, 'new')
    lp.shapes['old_opts'] = lambda E: ListS(StrS(name='o'), None, 'old')
    lp = c.loop(1)
    lp.shapes['old_opts'] = lambda E: ListS(StrS(name='o'), None, 'old')

    T.externs['xml.etree.ElementTree.tostring'] = et_tostring
    T.externs['xml.etree.ElementTree.Element'] = et_element
    return T


_old_register = register


def register(T, repo):      # noqa: F811
    _old_register(T, repo)
    register_json(T, repo)
    return T
