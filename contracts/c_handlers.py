"""Contracts of the macro / environment handlers: each handler that is ever
stored in a repl= / end_func= slot is proved against the generic handler
contract H (DESIGN 3.4) under its own CodeReq (requirement on the argument
code string of the declaring macro).  The hull clause (C04): every token of
the result lies in the ghost interval [lo, hi] that contains `pos` and the
positions of all argument tokens."""
import z3
from pyvc import sym
from pyvc.sym import (SSeq, Obj, Opt, Opaque, TokList, Single, Many, And, Or,
                      Not, Implies, Ite, zint, zbool, fresh_int, fresh_bool,
                      fresh_seq, forall, lift_str, seq_len, Unsupported)
from pyvc.contracts import (FContract, Spec, IntS, BoolS, StrS, IListS, ObjS,
                            TupleS, ListS, AnyS, ConstS, OptS)
from . import tokmodel as tm
from . import common as cm
from . import pmodel as pm
from .tokmodel import D

# CodeReq: (index, letter|None) -- len(mac.args) > index and, if a letter is
# given, mac.args[index] == letter
CODEREQ = {
    'yalafi.handlers.h_newcommand': [(1, 'A'), (2, None), (3, None),
                                     (4, 'A')],
    'yalafi.handlers.h_theorem.<locals>.handler': [(0, None)],
    'yalafi.handlers.h_newtheorem': [(0, None), (2, None)],
    'yalafi.handlers.h_heading': [(2, 'A')],
    'yalafi.handlers.h_phantom': [(0, None)],
    'yalafi.handlers.h_hspace': [(1, None)],
    'yalafi.handlers.h_cite': [(0, None)],
    'yalafi.handlers.h_load_defs': [(0, None)],
    'yalafi.handlers.h_load_module.<locals>.f': [(0, None), (1, None)],
    'yalafi.packages.babel.h_foreignlanguage': [(1, None), (2, 'A')],
    'yalafi.packages.babel.h_selectlanguage': [(0, None)],
    'yalafi.packages.babel.h_begin_otherlang': [(0, None)],
    'yalafi.packages.babel.h_end_otherlang': [],
    'yalafi.packages.babel.h_end_otherlang_star': [],
    'yalafi.packages.biblatex.h_cite': [(1, None), (2, None)],
    'yalafi.packages.biblatex.h_footcite': [(1, None), (2, None)],
    'yalafi.packages.amsthm.h_proof': [(0, None)],
    'yalafi.packages.xspace.h_xspace': [],
    'yalafi.packages.cleveref.h_make_cref.<locals>.f': [(0, None),
                                                         (1, None)],
    'yalafi.packages.cleveref.h_make_crefrange.<locals>.f': [
        (0, None), (1, None), (2, None)],
    'yalafi.packages.cleveref.h_cref_warning': [],
    'yalafi.packages.glossaries.h_gls.<locals>.f': [(1, None)],
    'yalafi.packages.glossaries.h_newacronym': [(2, None)],
    'yalafi.packages.glossaries.h_newglossaryentry': [(1, None)],
    'yalafi.packages.glossaries.h_parse_glsdefs': [(0, None), (1, None)],
}
END_FUNCS = ('yalafi.packages.babel.h_end_otherlang',
             'yalafi.packages.babel.h_end_otherlang_star')


def codereq_concrete(req, code):
    return all(len(code) > i and (l is None or code[i] == l)
               for i, l in req)


def codereq_formula(req, a):
    a = lift_str(a)
    parts = []
    for i, l in req:
        parts.append(zint(a.ln) > i)
        if l is not None:
            parts.append(a.at(i) == ord(l))
    return And(*parts)


class HullTokS(tm.TokS):
    def __init__(self, src, lo, hi):
        self.src = src
        super().__init__(lambda ex, t: And(
            tm.ok(ex, t, src), zint(lo) <= zint(t.fields['pos']),
            zint(t.fields['pos']) <= zint(hi)), name='ht')

    def check(self, ex, st, v, label, line=0):
        o = v.obj if isinstance(v, Opt) else v
        if isinstance(o, Obj) and o.meta.get('errmark'):
            # error marks are placed by latex_error (C08), not by the hull
            ex.prove(st, label, tm.ok(ex, o, self.src), line)
            return
        super().check(ex, st, v, label, line)


def hull_tok(src, lo, hi):
    return HullTokS(src, lo, hi)


def hull_args(src, lo, hi, mac_args):
    a = lift_str(mac_args)

    def indexed(i, e):
        return Implies(a.at(zint(i)) == ord('A'), zint(e.length()) >= 1)
    return ListS(ListS(hull_tok(src, lo, hi), None, 'arg'), None, 'args',
                 indexed=indexed)


def h_ghost(ex, st, mode, vals):
    if mode == 'proof':
        return {'src': fresh_seq('str', 'src', st.assume),
                'lo': fresh_int('lo'), 'hi': fresh_int('hi')}
    src = lift_str(vals['parser'].fields['latex'])
    if 'lo' in st.ghost and 'hi' in st.ghost:
        # handler called from a handler: same hull
        return {'src': src, 'lo': st.ghost['lo'], 'hi': st.ghost['hi']}
    return {'src': src, 'lo': 0, 'hi': zint(src.ln) - 1}


class HandlerContract(FContract):
    """H specialised to one handler; the argument-list spec depends on the
    mac parameter, so setup() builds it after mac"""
    def __init__(self, qual, req, end_func=False, free=None):
        self.req = req
        self.end_func = end_func
        super().__init__(
            qual, ghosts=h_ghost,
            params=lambda G: {'parser': pm.ParserS(G['src']),
                              'buf': cm.BufS(G['src']),
                              'mac': pm.MacroS('any'),
                              'pos': IntS(name='pos')},
            requires=[
                ('pos-in-range', lambda A: pm.in_range(A, 'pos')),
                ('pos-in-hull', lambda A: And(zint(A['lo']) <= zint(A['pos']),
                                              zint(A['pos']) <= zint(A['hi']))),
                ('codereq', lambda A: codereq_formula(
                    req, A['mac'].fields['args']))],
            result=lambda A: ListS(hull_tok(A['src'], A['lo'], A['hi']),
                                   None, 'hresult'),
            post_objs=[('buffer', lambda A: A['buf'],
                        lambda A: pm.BufPostS(A['src'])),
                       ('parser', lambda A: A['parser'],
                        lambda A: pm.ParserS(A['src']))],
            free=free,
            olds=lambda A: {'nflows0': A['parser'].fields[
                'extracted'].length()})
        self.ensures.append(('flows-only-grow', lambda A, r: zint(
            A['parser'].fields['extracted'].length()) >=
            zint(A['old']['nflows0'])))

    def setup(self, ex, st):
        A = super().setup(ex, st)
        code = A['mac'].fields['args']
        if self.end_func:
            A['args'] = TokList([])
            A['delim'] = TokList([])
        else:
            A['args'] = hull_args(A['src'], A['lo'], A['hi'],
                                  code).make(ex, st)
            A['delim'] = ListS(BoolS('d'), None, 'delim').make(ex, st)
            st.assume(zint(A['args'].length()) == zint(seq_len(code)))
            st.assume(zint(A['delim'].length()) == zint(seq_len(code)))
        return A


def register(T, repo):
    T.inline_ok.add('yalafi.packages.babel.translate_lang')

    def globals_hook(ex, st, module, name):
        if (module, name) == ('yalafi.packages.babel', 'language_map'):
            from pyvc.contracts import DictS
            d = DictS(StrS(name='ltlang'), 'language_map',
                      known=('english',)).make(ex, st)
            return d
        if (module, name) == ('yalafi.handlers', 'numbers'):
            return Obj('re.Pattern', {})
        return NotImplemented
    T.globals_hook = globals_hook

    # h_hspace: numbers.match(arg), match.group(1).replace(), float()
    def pat_match(ex, st, fi, o, args, kw, line):
        m = Obj('re.MatchG', {})
        yield st, Opt(fresh_bool('nomatch'), m)

    def match_group(ex, st, fi, o, args, kw, line):
        yield st, fresh_seq('str', 'group', st.assume)
    T.obj_methods[('re.Pattern', 'match')] = pat_match
    T.obj_methods[('re.MatchG', 'group')] = match_group
    T.float_hook = lambda ex, st, args, line: fresh_int('floatval')

    from pyvc.contracts import DictS
    from pyvc.engine import refine_list, FuncRef

    class ModListS(Spec):
        """h_gls: list of token-list modifiers (cap_first / cap_all)"""
        def make(self, ex, st):
            return ListS(AnyS('glsmod', truthy=True), None, 'mods').make(
                ex, st)

        def check(self, ex, st, v, label, line=0):
            pass
    FREE = {
        'h_theorem.<locals>.handler': {'name': StrS(name='thname')},
        'h_load_module.<locals>.f': {'prefix': StrS(name='prefix')},
        # assumption: the tables built by h_read_sed have entries for the
        # star forms '' and '*'
        'h_make_cref.<locals>.f': {'cref': DictS(
            DictS(StrS(name='repl'), 'cref_star'), 'cref', total=True)},
        'h_make_crefrange.<locals>.f': {'cref': DictS(
            DictS(StrS(name='repl'), 'cref_star'), 'cref', total=True)},
        'h_gls.<locals>.f': {'key': StrS(name='key'), 'mods': ModListS()},
    }
    for q, req in CODEREQ.items():
        if q not in repo.funcs:
            continue
        free = None
        for suffix, fr in FREE.items():
            if q.endswith(suffix):
                free = fr
        T.add(HandlerContract(q, req, end_func=q in END_FUNCS, free=free))

    prev_globals = T.globals_hook

    def globals_hook2(ex, st, module, name):
        if module == 'yalafi.packages.cleveref' and name.startswith('msg_'):
            return fresh_seq('str', name, st.assume)
        return prev_globals(ex, st, module, name)
    T.globals_hook = globals_hook2

    def GlsList():
        # token lists stored in the glossary: positions are meaningless
        # (they refer to whatever text defined the entry)
        return ListS(tm.TokS(lambda ex, t: tm.cls_inv(ex, t), name='gt'),
                     None, 'glstoks')

    # ---- h_newcommand: the loop checks every argument reference of the
    # body; on normal exit all of them are in range (needed for MacInv)
    c = T.get('yalafi.handlers.h_newcommand')
    lp = c.loop(0)

    def nc_body(E0, E1):
        # stated for the abstraction: an iteration that ends normally has
        # seen no argument reference out of range -- whether the loop runs
        # over the references only or over all tokens of the body
        a = E0['a']
        o = a.obj if isinstance(a, Opt) else a
        isref = tm.cls_is(E0['$ex'], o, 'yalafi.defs.ArgumentToken')
        return Implies(isref, And(
            zint(tm.tfield(o, 'arg', 0)) >= 1,
            zint(tm.tfield(o, 'arg', 0)) <= zint(E0['nargs'])))
    lp.body_post.append(('reference-in-range', nc_body))

    def nc_exit(E, st):
        ex = st.ex
        body = ex.list_get(E['args'], 4, st, 0, check=False)
        n = E['nargs']
        refine_list(ex, st, body, lambda ex_, s_, t: Implies(
            tm.cls_is(ex_, t, D + 'ArgumentToken'),
            And(zint(tm.tfield(t, 'arg', 0)) >= 1,
                zint(tm.tfield(t, 'arg', 0)) <= zint(n))))
    lp.on_exit = nc_exit

    # ---- h_load_module.f: loop over the package names
    c = T.get('yalafi.handlers.h_load_module.<locals>.f')
    if c is not None:
        lp = c.loop(0)
        pm.loop_parser_shapes(lp, parser='parser', buf='buf')
        lp.shapes['out'] = lambda E: ListS(tm.TokS(lambda ex, t: And(
            tm.cls_inv(ex, t), tm.cls_is(ex, t, D + 'LanguageToken'))),
            None, 'inject')

    # a store into a module-level dictionary outlives the call (C17)
    prev_store = T.dict_store_hook

    def dict_store_hook(ex, st, d, k, v, line):
        if d.tag == 'the_glossary':
            # kept in the parser object (call-local, C17)
            d.version += 1
            return
        return prev_store(ex, st, d, k, v, line)
    T.dict_store_hook = dict_store_hook

    # ---- glossaries helpers
    G = 'yalafi.packages.glossaries.'

    def gl_effects(ex, st, A):
        p = A['parser']
        if 'the_glossary' not in p.fields:
            p.fields['the_glossary'] = DictS(DictS(
                OptS(GlsList()), 'entry'), 'the_glossary').make(ex, st)
    if G + 'the_glossary' in repo.funcs:
        c = T.add(FContract(G + 'the_glossary', params={'parser': AnyS()},
                            effects=gl_effects, pure=True))
        c.result = None
        c.returns_field = True

        def gl_apply(ex, st, vals, line, c=c):
            gl_effects(ex, st, vals)
            yield st, vals['parser'].fields['the_glossary']
        c.apply = gl_apply
    if G + 'cap_first' in repo.funcs:
        for nm in ('cap_first', 'cap_all'):
            T.add(FContract(G + nm, params={'toks': GlsList()},
                            result=lambda A: GlsList(), pure=True))
        T.add(FContract(
            G + 'cap_all.<locals>.f',
            params={'t': tm.TokS(lambda ex, t: tm.cls_inv(ex, t))},
            result=lambda A: tm.TokS(lambda ex, r: And(
                tm.cls_inv(ex, r),
                zint(r.fields['pos']) == zint(A['t'].fields['pos']))),
            pure=True))

        def call_value(ex, st, fi, fv, args, kw, line, prev=T.call_value):
            if isinstance(fv, Opaque) and fv.tag == 'glsmod':
                GlsList().check(ex, st, args[0], 'call:glsmod@%d' % line,
                                line)
                return iter([(st, GlsList().make(ex, st))])
            return prev(ex, st, fi, fv, args, kw, line) if prev \
                else NotImplemented
        T.call_value = call_value
        c = T.get(G + 'h_gls.<locals>.f')
        c.loop(0).shapes['toks'] = lambda E: GlsList()
        T.add(FContract(
            G + 'get_tokens', ghosts=h_ghost,
            params=lambda G_: {'parser': pm.ParserS(G_['src']),
                               'label': tm.DocList(G_['src']),
                               'key': StrS(name='key')},
            result=lambda A: OptS(GlsList()),
            post_objs=[('parser', lambda A: A['parser'],
                        lambda A: pm.ParserS(A['src']))]))
        T.add(FContract(
            G + 'modify_description', ghosts=h_ghost,
            params=lambda G_: {'parser': pm.ParserS(G_['src']),
                               'toks': ListS(hull_tok(
                                   G_['src'], G_['lo'], G_['hi']), None,
                                   'descr')},
            result=lambda A: ListS(hull_tok(A['src'], A['lo'], A['hi']),
                                   None, 'descr'),
            post_objs=[('parser', lambda A: A['parser'],
                        lambda A: pm.ParserS(A['src']))]))
    # explicit assumption NonEmptyFirstTextToken: the first Text token of a
    # token list handed to cap_first has at least one character (tokens made
    # by the scanner are single characters; `Ok` does not state it for
    # generated tokens).  Injected at the statement that reads txt[0].
    import ast as _ast

    def capfirst_hook(ex, stmt, st, fi):
        if isinstance(stmt, _ast.Assign) and \
                isinstance(stmt.targets[0], _ast.Attribute) and \
                stmt.targets[0].attr == 'txt' and \
                isinstance(stmt.targets[0].value, _ast.Subscript):
            lst, i = st.env.get('toks'), st.env.get('i')
            if isinstance(lst, TokList) and i is not None:
                e = ex.list_get(lst, i, st, stmt.lineno, check=False)
                o = e.obj if isinstance(e, Opt) else e
                if isinstance(o, Obj) and 'txt' in o.fields:
                    st.assume(zint(seq_len(o.fields['txt'])) >= 1)
                    ex.used_assumptions.add(
                        'NonEmptyFirstTextToken (assumed at `txt[0]` in '
                        'glossaries.cap_first)')
    T.stmt_hooks[G + 'cap_first'] = capfirst_hook

    # modify_description is verified with the real body of cap_first
    # inlined (cap_first is also called on glossary tokens, whose positions
    # are meaningless: two different element predicates)
    T.force[G + 'modify_description'] = (G + 'cap_first',)
    T.inline_ok.add(G + 'cap_first')
    for nm in ('get_tokens', 'modify_description'):
        if T.get(G + nm) is not None:
            T.add_flows_grow(T.get(G + nm), 'parser')
    return T
