"""Specs of the long-lived objects (Parameters, Scanner, Parser, Buffer,
Expandable) shared by the scanner / parser / handler contracts."""
import z3
from pyvc import sym
from pyvc.sym import (SSeq, Obj, Opt, Opaque, TokList, Single, Many, And, Or,
                      Not, Implies, Ite, zint, zbool, fresh_int, fresh_bool,
                      fresh_seq, forall, lift_str, seq_len, EngineError)
from pyvc.contracts import (FContract, Spec, IntS, BoolS, StrS, IListS, ObjS,
                            TupleS, ListS, AnyS, ConstS, DictS, OptS)
from pyvc.engine import PyDict, StrSet, OptVal
from . import tokmodel as tm
from .tokmodel import D

P = 'yalafi.parameters.Parameters'


class SameS(Spec):
    """exactly this value (identity for objects, equality for strings)"""
    def __init__(self, v):
        self.v = v

    def make(self, ex, st):
        return self.v

    def check(self, ex, st, v, label, line=0):
        if v is self.v:
            return
        if isinstance(self.v, (SSeq, str)):
            ex.prove(st, label + ':same', sym.seq_eq(v, self.v), line)
        elif isinstance(self.v, Obj) and isinstance(v, Obj) and \
                v.oid == self.v.oid:
            return
        else:
            ex.prove(st, label + ':same', False, line)


class StrSetS(Spec):
    """abstract collection of strings (list/set/dict keys) supporting `in`
    and truthiness"""
    def __init__(self, name, known=(), nonempty=None, known_not=(),
                 maxlen=None):
        self.name = name
        self.known = known
        self.known_not = known_not
        self.maxlen = maxlen
        self.nonempty = nonempty

    def make(self, ex, st):
        s = StrSet(self.name + '_%d' % sym.uid(), known=self.known,
                   known_not=self.known_not, maxlen=self.maxlen)
        return s

    def check(self, ex, st, v, label, line=0):
        pass


class ConcreteListS(Spec):
    """list of concrete strings evaluated from the real table"""
    def __init__(self, vals):
        self.vals = list(vals)

    def make(self, ex, st):
        return TokList([Single(v) for v in self.vals])

    def check(self, ex, st, v, label, line=0):
        pass


def nonempty_strlist(name):
    return ListS(StrS(name=name), lambda n: zint(n) >= 1, name)


def LangSettingsS():
    return ObjS('yalafi.parameters.ParserLanguageSettings', {
        # table lemma (props: evaluated on the shipped settings): active
        # characters are single characters and '%' is not one of them
        'active_chars': StrSetS('active_chars', known_not=('%',),
                                maxlen=1),
        'short_macros': DictS(StrS(name='shortmac'), 'short_macros'),
        'math_repl_inline': nonempty_strlist('repl_inline'),
        'math_repl_display': nonempty_strlist('repl_display'),
        'lang_change_repl': nonempty_strlist('lang_repl'),
        'math_op_text': DictS(StrS(name='optext'), 'math_op_text',
                              known=(None,)),
        'proof_name': StrS(name='proof_name'),
    })


def real_tables():
    tm.special_table()
    return tm._parms_cache['parms']


def ParmsS(scanner=None):
    rp = real_tables()
    V = PyDict('special_tokens')
    V.items = dict(rp.special_tokens)
    class _AccS(Spec):
        def make(self, ex, st):
            d = PyDict('accent_macros')
            d.has = lambda ex_, st_, k: tm.is_accent(k)
            val = ListS(StrS(name='accname'), lambda n: zint(n) >= 1,
                        'accnames')
            d.default_mk = lambda ex_, st_, k: val.make(ex_, st_)
            return d

        def check(self, ex, st, v, label, line=0):
            pass
    acc = _AccS()
    fields = {
        'mark_latex_error': StrS(name='mark'),
        'mark_latex_error_verbose': BoolS('verbose'),
        'special_tokens': ConstS(V),
        'comment_skip_begin': StrS(name='skipb'),
        'comment_skip_end': StrS(name='skipe'),
        'multi_language': BoolS('ml'),
        'math_default_env': StrS(name='mdenv'),
        'math_displayed_simple': BoolS('simple'),
        'lang_context': LangSettingsS(),
        'accent_macros': acc,
        'item_punctuation': StrSetS('item_punct'),
        'heading_punct': StrSetS('heading_punct'),
        'math_punctuation': StrSetS('math_punct'),
        'math_ignore': StrSetS('math_ignore'),
        'math_space': StrSetS('math_space'),
        'math_operators': StrSetS('math_operators'),
        'math_text_macros': StrSetS('math_text_macros'),
        'newcommand_ignore': StrSetS('newcommand_ignore'),
        'item_default_label': nonempty_strlist('item_label'),
        'package_modules': StrS(name='pkgmods'),
        'class_modules': StrS(name='clsmods'),
        'ml_continue_thresh': IntS(name='mlthresh'),
    }
    spec = ObjS(P, fields)
    return spec


class ParmsWithScannerS(Spec):
    """Parameters object whose `scanner` field points back to a Scanner that
    shares it"""
    def make(self, ex, st):
        p = ParmsS().make(ex, st)
        sc = Obj('yalafi.scanner.Scanner', {'parms': p}, fresh=False)
        keys = list(real_tables().special_tokens.keys())
        sc.fields['special_tokens_sorted'] = ListS(
            StrS(lambda s: And(zint(s.ln) >= 1, Or(*[sym.seq_eq(s, k)
                                                     for k in keys])),
                 name='key'), None, 'keys').make(ex, st)
        sc.fields['latex'] = fresh_seq('str', 'sc_latex', st.assume)
        sc.fields['pos'] = fresh_int('sc_pos')
        sc.fields['max_pos'] = fresh_int('sc_max')
        p.fields['scanner'] = sc
        return p

    def check(self, ex, st, v, label, line=0):
        if not isinstance(v, Obj) or v.cls != P:
            raise EngineError('%s: expected Parameters, got %r' % (label, v))


def ConstS_check_skip():
    pass


# ----------------------------------------------------------------- scanner

def ScannerS(src=None):
    """Scanner object; when src is given, self.latex is src and
    self.max_pos == len(src)"""
    class _S(Spec):
        def make(self, ex, st):
            p = ParmsWithScannerS().make(ex, st)
            sc = p.fields['scanner']
            if src is not None:
                sc.fields['latex'] = src
                sc.fields['max_pos'] = src.ln
            return sc

        def check(self, ex, st, v, label, line=0):
            if not isinstance(v, Obj) or v.cls != 'yalafi.scanner.Scanner':
                raise EngineError('%s: expected Scanner, got %r' % (label,
                                                                     v))
            if src is not None:
                SameS(src).check(ex, st, v.fields['latex'], label + '.latex',
                                 line)
                ex.prove(st, label + '.max_pos',
                         zint(v.fields['max_pos']) == zint(src.ln), line)
    return _S()


def BufS(src):
    return ObjS('yalafi.scanner.Buffer', {'tokens': tm.DocList(src)})
