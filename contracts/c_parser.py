"""Contracts for yalafi/parser.py (refinement layer: summarised token lists,
object invariant Ok, ParserInv, BufInv, MacInv)."""
import z3
from pyvc import sym
from pyvc.sym import (SSeq, Obj, Opt, Opaque, TokList, Single, Many, And, Or,
                      Not, Implies, Ite, zint, zbool, fresh_int, fresh_bool,
                      fresh_seq, forall, lift_str, seq_len, EngineError,
                      Unsupported)
from pyvc.contracts import (FContract, Spec, IntS, BoolS, StrS, IListS, ObjS,
                            TupleS, ListS, AnyS, ConstS, DictS, OptS)
from pyvc.engine import PyDict, StrSet, OptVal
from . import tokmodel as tm
from . import common as cm
from . import pmodel as pm
from .tokmodel import D
from .pmodel import (ParserS, BufPostS, MacroS, BodyList, parser_ghost,
                     in_range, loop_parser_shapes)

PAR = 'yalafi.parser.Parser.'


def P_self(A):
    return A['self']


def post_parser(A):
    return ParserS(A['src'])


def post_buf(A):
    return BufPostS(A['src'])


def same_token(ex, a, b):
    """a and b agree in class, position, flag and text"""
    if a is b:
        return True
    ta, tb = lift_str(a.fields['txt']), lift_str(b.fields['txt'])
    ca, cb = ex.cls_of(a), ex.cls_of(b)
    return And(zint(ca) == zint(cb),
               zint(a.fields['pos']) == zint(b.fields['pos']),
               zbool(a.fields['pos_fix']) == zbool(b.fields['pos_fix']),
               sym.seq_eq(ta, tb))


def pm_opt_strlist():
    return OptS(ListS(StrS(name='x'), None, 'extract'))


def chk_body_ok(A):
    """every ArgumentToken of toks refers to 1..len(args)"""
    ex, st = A['$ex'], A['$st']
    n = seq_len(A['args'])
    toks = A['toks']
    if hasattr(toks, 'as_list'):
        toks = toks.body
    acc = []
    for sg in toks.segs:
        if isinstance(sg, Single):
            t = sg.obj
            g = st
        else:
            g = sym_guard(st, zint(sg.ln) > 0)
            t = sg.mk(g)
        acc.append(Implies(
            And(True if isinstance(sg, Single) else zint(sg.ln) > 0,
                tm.cls_is(ex, t, D + 'ArgumentToken')),
            And(zint(tm.tfield(t, 'arg', 0)) >= 1,
                zint(tm.tfield(t, 'arg', 0)) <= zint(n))))
    return And(*acc)


def sym_guard(st, g):
    from pyvc.engine import GuardedState
    return GuardedState(st, g)


def register(T, repo):
    # utils.fatal never returns; every call site must be unreachable
    T.add(FContract('yalafi.utils.fatal', params={'err': AnyS()},
                    requires=[('unreachable', lambda A: False)],
                    no_return=True))

    # store hook: only fresh tokens may be stamped (frame rule, C04/C17)
    def store_hook(ex, st, o, attr, v, line):
        if not o.meta.get('token') and not (
                isinstance(o.cls, str) and o.cls in tm.TOKEN_CLASSES):
            return
        if attr in ('pos', 'txt', 'pos_fix', 'arg', 'environ', 'lang',
                    'back', 'hard', 'brk'):
            if not o.fresh:
                ex.prove(st, 'frame:stamp-fresh:%s@%d' % (attr, line),
                         False, line,
                         note='store to a token that is not a fresh copy')
    T.store_hook = store_hook

    def after_construct(ex, st, o, line):
        if isinstance(o.cls, str) and o.cls in tm.TOKEN_CLASSES:
            o.meta['token'] = True
    T.after_construct = after_construct

    def callable_hook(ex, st, v, line):
        if isinstance(v, pm.ReplU):
            return v.is_callable
        if isinstance(v, pm.OptCallable):
            return Not(v.isnone)
        return NotImplemented
    T.callable_hook = callable_hook

    def attr_hook(ex, st, o, attr, line):
        # `environ` is a bool on VerbatimToken and the environment object
        # on MathBeginToken
        if attr == 'environ' and o.meta.get('token') and \
                not isinstance(o.cls, str):
            ismb = tm.cls_is(ex, o, D + 'MathBeginToken')
            if ex.implied(st, ismb):
                if 'environ$env' not in o.fields:
                    e = MacroS('env').make(ex, st)
                    st.assume(zint(e.cls) == ex.tag(D + 'EquEnv'))
                    o.fields['environ$env'] = e
                return o.fields['environ$env']
            if ex.implied(st, Not(ismb)):
                return o.fields['environ']
            raise Unsupported('class of token undetermined at .environ '
                              '(line %d)' % line)
        return NotImplemented
    T.attr_hook = attr_hook

    def next_hook(ex, st, g, default, line):
        # item label generators (labs_default, labs_enumerate, labs_itemize)
        # are infinite `while True: yield <str>` loops (shape checked in
        # props.C07): next() always returns a string
        if isinstance(g, Opaque) and g.tag == 'labelgen':
            return fresh_seq('str', 'label', st.assume)
        return NotImplemented
    T.next_hook = next_hook

    def dict_store_hook(ex, st, d, k, v, line):
        # the_macros[name] = Macro(...): the new entry must satisfy MacInv;
        # later look-ups yield generic entries satisfying MacInv
        if d.tag in ('the_macro', 'the_env'):
            kind = 'macro' if d.tag == 'the_macro' else 'env'
            MacroS(kind).check(ex, st, v, 'store:%s@%d' % (d.tag, line),
                               line)
            d.version += 1
            return
        raise Unsupported('store into dict %s at %d' % (d.tag, line))
    T.dict_store_hook = dict_store_hook

    def dict_iter(ex, st, d):
        if d.tag in ('the_macro', 'the_env'):
            def mk(ex_, st_):
                k = fresh_seq('str', 'key', st_.assume)
                st_.assume(d.has(ex_, st_, k))
                return k
            return mk
        return NotImplemented
    T.dict_iter = dict_iter

    # defs.Expandable.__init__.<locals>.check
    CHK = 'yalafi.defs.Expandable.__init__.<locals>.check'

    def chk_ghost(ex, st, mode, vals):
        if mode == 'proof':
            return {'nargs': fresh_int('nargs')}
        return {'nargs': seq_len(vals['args'])}

    # the run-time guard of Expandable.__init__: returns its argument, or
    # does not return (utils.fatal); afterwards every argument reference of
    # the list is in range -- proved as loop body contract, handed to the
    # caller as a refinement of the very list that was passed in
    def chk_refine(ex, st, A):
        from pyvc.engine import refine_list
        pred = pm.body_pred(A['nargs'])
        refine_list(ex, st, A['toks'], lambda ex_, s_, e: pred(ex_, e))
    c = T.add(FContract(
        CHK, ghosts=chk_ghost,
        params=lambda G: {'toks': BodyList(None),
                          'args': StrS(name='a')},
        requires=[('nargs', lambda A: zint(A['nargs']) ==
                   zint(seq_len(A['args'])))],
        result=lambda A: BodyList(A['nargs']),
        returns_param='toks', pure=True, effects=chk_refine,
        free={'name': StrS(name='name')}))
    lp = c.loop(0)
    lp.invs.append(('true', lambda E: True))
    lp.body_post.append(('argument-reference-in-range', lambda E0, E1:
                         pm.body_pred(E1['nargs'])(E1['$ex'], E1['t'])))
    lp.on_exit = lambda E, st: chk_refine(st.ex, st, E)

    def list_contains(ex, st, coll, x, line):
        # membership in a summarised list of strings: unknown, except that
        # an empty list contains nothing.  The answer is remembered (ghost)
        # so that `append only if absent` can be checked (C19).
        b = fresh_bool('member')
        st.assume(Implies(zint(coll.length()) == 0, Not(b)))
        memq = st.ghost.setdefault('$memq', {})
        key = (coll.lid, len(st.writes_of(coll)),
               lift_str(x).arr.sexpr() if sym.is_str(x) else id(x))
        memq[key] = b
        return b
    T.list_contains = list_contains

    def list_append_hook(ex, st, lst, v, line):
        # Parser.unknowns stays duplicate-free: a name is appended only on a
        # path on which `name in self.unknowns` was evaluated to False for
        # the same list state
        if not any(isinstance(sg, Many) and sg.label == 'unknowns'
                   for sg in lst.segs) and not getattr(lst, 'is_unknowns',
                                                       False):
            return
        key = (lst.lid, len(st.writes_of(lst)),
               lift_str(v).arr.sexpr() if sym.is_str(v) else id(v))
        b = st.ghost.get('$memq', {}).get(key)
        ex.prove(st, 'unknowns:append-only-if-absent@%d' % line,
                 Not(b) if b is not None else False, line)
    T.list_append_hook = list_append_hook

    def call_value(ex, st, fi, fv, args, kw, line):
        if isinstance(fv, pm.ReplU):
            ex.prove(st, 'safe:call-handler@%d' % line, fv.is_callable, line)
            return pm.apply_handler(ex, st, fv, args, line)
        if isinstance(fv, pm.OptCallable) and fv.kind == 'end_func':
            ex.prove(st, 'safe:call-none@%d' % line, Not(fv.isnone), line)
            return pm.apply_handler(ex, st, fv, args, line, end_func=True)
        if isinstance(fv, pm.OptCallable) and fv.kind == 'read_macros':
            ex.prove(st, 'safe:call-none@%d' % line, Not(fv.isnone), line)
            return iter([(st, (fresh_bool('ok'),
                               fresh_seq('str', 'filetext', st.assume)))])
        if isinstance(fv, pm.OptCallable) and fv.kind == 'items':
            ex.prove(st, 'safe:call-none@%d' % line, Not(fv.isnone), line)
            return iter([(st, Opaque('labelgen'))])
        return NotImplemented
    T.call_value = call_value

    PARMS = 'yalafi.parameters.Parameters.'
    T.add(FContract(PARMS + 'lang_context_lang', params={'self': AnyS()},
                    result=lambda A: StrS(name='lang'), pure=True))

    def chg_lang(ex, st, A):
        p = A['self']
        p.fields['lang_context'] = cm.LangSettingsS().make(ex, st)
        st.writes.append((p.oid, 'lang_context'))
    T.add(FContract(PARMS + 'change_parser_lang',
                    params={'self': AnyS(), 'tok': AnyS()},
                    effects=chg_lang))

    # ------------------------------------------------------ expand_sequence
    def es_none(A):
        v = A['env_stop']
        if v is None:
            return True
        if isinstance(v, OptVal):
            return v.isnone
        return False
    c = T.add(FContract(
        PAR + 'expand_sequence', ghosts=parser_ghost,
        params=lambda G: {'self': ParserS(G['src']),
                          'buf': cm.BufS(G['src']),
                          'env_stop': OptS(StrS(name='env_stop'))},
        # without env_stop the result went through remove_pure_action_lines;
        # with env_stop it may be the raw result of end_environment
        result=lambda A: ListS(tm.TokS(lambda ex, t: And(
            tm.ok(ex, t, A['src']),
            Implies(es_none(A), tm.out_final(ex, t, A['src']))),
            name='es'), None, 'es_result'),
        post_objs=[('buffer', lambda A: A['buf'], post_buf),
                   ('parser', P_self, post_parser)]))

    # ------------------------------------------------- small text helpers
    def display_text_of_output(A):
        # C11: the punctuation mark kept for a displayed equation is the
        # last character of the RENDERED equation -- expand_display_math
        # asks for the text of its output list `out`, nothing else
        ex, st = A['$ex'], A['$st']
        if not (ex.cur_func or '').endswith('.expand_display_math'):
            return True
        env = st.env
        while '$caller' in env:     # call from an inlined helper: the
            env = env['$caller']    # frame of expand_display_math itself
        out = env.get('out')
        return bool(isinstance(out, TokList) and isinstance(
            A['toks'], TokList) and out.lid == A['toks'].lid)
    T.add(FContract(
        PAR + 'get_text_direct', ghosts=parser_ghost,
        params=lambda G: {'self': AnyS(), 'toks': ListS(AnyS(), None)},
        requires=[('display-punctuation-read-from-rendered-output',
                   display_text_of_output)],
        result=lambda A: StrS(name='text'),
        ensures=[('empty-list-empty-text', lambda A, r: Implies(
            zint(A['toks'].length()) == 0, zint(seq_len(r)) == 0))],
        pure=True))
    T.add(FContract(
        PAR + 'get_text_expanded', ghosts=parser_ghost,
        params=lambda G: {'self': ParserS(G['src']),
                          'toks': tm.DocList(G['src'])},
        result=lambda A: StrS(name='text'),
        # not proved (needs 'empty buffer gives empty expansion'):
        # query purity: the flows collected so far are unchanged (C03)
        ensures=[('flows-unchanged', lambda A, r: zint(
            A['self'].fields['extracted'].length()) ==
            zint(A['old']['nflows']))],
        olds=lambda A: {'nflows': A['self'].fields['extracted'].length()},
        assumed_ensures=[('text of an empty token list is empty',
                          lambda A, r: Implies(zint(A['toks'].length()) == 0,
                                               zint(seq_len(r)) == 0))],
        post_objs=[('parser', P_self, post_parser)]))

    # ---- key-value lists (assumed contracts, bodies not verified yet)
    # hull of the argument: inside a handler (ghost lo/hi of H) the values
    # consist of tokens of the argument and of braces placed at positions of
    # such tokens -- assumed together with the rest of these contracts
    def kv_ghost(ex, st, mode, vals):
        g = parser_ghost(ex, st, mode, vals)
        if mode == 'proof':
            g['lo'], g['hi'] = fresh_int('lo'), fresh_int('hi')
        elif 'lo' in st.ghost and 'hi' in st.ghost:
            g['lo'], g['hi'] = st.ghost['lo'], st.ghost['hi']
        else:
            g['lo'], g['hi'] = 0, zint(g['src'].ln) - 1
        return g

    def kv_tok(G):
        return tm.TokS(lambda ex, t: And(
            tm.ok(ex, t, G['src']), zint(G['lo']) <= zint(t.fields['pos']),
            zint(t.fields['pos']) <= zint(G['hi'])), name='kv')

    def KeyValS(G):
        return ListS(TupleS(StrS(name='key'),
                            OptS(ListS(kv_tok(G), None, 'val'))),
                     None, 'keyvals')
    T.add(FContract(
        PAR + 'parse_keyvals_list', ghosts=kv_ghost,
        params=lambda G: {'self': ParserS(G['src']),
                          'tokens': ListS(kv_tok(G), None, 'tokens')},
        result=lambda A: KeyValS(A),
        post_objs=[('parser', P_self, post_parser)]))
    T.add(FContract(
        PAR + 'expand_keyvals', ghosts=kv_ghost,
        params=lambda G: {'self': ParserS(G['src']),
                          'keyvals': KeyValS(G)},
        result=lambda A: ListS(TupleS(StrS(name='key'),
                                      OptS(StrS(name='val'))), None, 'kv'),
        post_objs=[('parser', P_self, post_parser)]))
    from pyvc.contracts import DictS as _DictS
    T.add(FContract(
        PAR + 'parse_keyvals_dict', ghosts=kv_ghost,
        params=lambda G: {'self': ParserS(G['src']),
                          'tokens': ListS(kv_tok(G), None, 'tokens')},
        result=lambda A: _DictS(OptS(ListS(kv_tok(A), None, 'val')),
                                'keyvals'),
        post_objs=[('parser', P_self, post_parser)]))
    # module initialisation (assumed, X): returns the module's inject_tokens
    T.add(FContract(
        PAR + 'modify_parameters', ghosts=parser_ghost,
        params=lambda G: {'self': ParserS(G['src']), 'f': AnyS(),
                          'options': AnyS(), 'position': IntS()},
        result=lambda A: ListS(tm.TokS(lambda ex, t: And(
            tm.cls_inv(ex, t), tm.cls_is(ex, t, D + 'LanguageToken'))),
            None, 'inject'),
        post_objs=[('parser', P_self, post_parser)]))
    T.add(FContract(
        PAR + 'init_package', ghosts=parser_ghost,
        params=lambda G: {'self': ParserS(G['src']), 'name': AnyS(),
                          'actions': AnyS(), 'options': AnyS(),
                          'position': IntS()},
        result=lambda A: ListS(tm.TokS(lambda ex, t: And(
            tm.cls_inv(ex, t), tm.cls_is(ex, t, D + 'LanguageToken'))),
            None, 'inject'),
        post_objs=[('parser', P_self, post_parser)]))
    T.add(FContract('yalafi.utils.get_module_handler',
                    params={'name': AnyS(), 'prefix': AnyS()},
                    result=lambda A: AnyS('module_handler'), pure=True))

    c = T.add(FContract(
        PAR + 'get_environment_name', ghosts=parser_ghost,
        params=lambda G: {'self': ParserS(G['src']),
                          'buf': cm.BufS(G['src']),
                          'tok': tm.DocTok(G['src'])},
        result=lambda A: StrS(name='envname'),
        # ghost history: \\begin and \\end read the environment name through
        # this one function (expanded text), so both ends see the same name
        effects=lambda ex, st, A: st.ghost.__setitem__(
            '$envname_calls', st.ghost.get('$envname_calls', 0) + 1),
        post_objs=[('buffer', lambda A: A['buf'], post_buf),
                   ('parser', P_self, post_parser)]))

    def name_read_once(A, r):
        return bool(A['$st'].ghost.get('$envname_calls', 0) == 1)

    c = T.add(FContract(
        PAR + 'parse_newline_option', ghosts=parser_ghost,
        params=lambda G: {'self': ParserS(G['src']),
                          'buf': cm.BufS(G['src']),
                          'skip_space': BoolS('skip')},
        post_objs=[('buffer', lambda A: A['buf'], post_buf)]))

    c = T.add(FContract(
        PAR + 'expand_verb_env_token', ghosts=parser_ghost,
        params=lambda G: {'self': ParserS(G['src']),
                          'tok': tm.DocTok(G['src'],
                                           [D + 'VerbatimToken'])},
        requires=[('environ', lambda A: zbool(A['tok'].fields['environ']))],
        result=lambda A: tm.DocList(A['src']), pure=True))

    c = T.add(FContract(
        PAR + 'expand_short_macro', ghosts=parser_ghost,
        params=lambda G: {'self': ParserS(G['src']),
                          'buf': cm.BufS(G['src']),
                          'tok': tm.DocTok(G['src'])},
        result=lambda A: tm.DocTok(A['src']),
        ensures=[('tok-or-fixed-text', lambda A, r: Or(
            same_token(A['$ex'], r, A['tok']),
            And(tm.cls_is(A['$ex'], r, D + 'TextToken'),
                zbool(r.fields['pos_fix']),
                zint(r.fields['pos']) == zint(A['tok'].fields['pos']))))],
        post_objs=[('buffer', lambda A: A['buf'], post_buf)]))

    # --------------------------------------------- generate_replacements
    def gr_ghost(ex, st, mode, vals):
        g = parser_ghost(ex, st, mode, vals)
        if mode == 'proof':
            g['nargs'] = fresh_int('nargs')
            g['lo'] = fresh_int('lo')
            g['hi'] = fresh_int('hi')
        else:
            g['nargs'] = vals['arguments'].length()
            g['lo'] = 0
            g['hi'] = zint(g['src'].ln) - 1
        return g

    def hull_doc(G):
        # C04: ghost interval [lo, hi] containing the call position and all
        # argument tokens; every generated token stays inside it
        return tm.TokS(lambda ex, t: And(
            tm.ok(ex, t, G['src']), zint(G['lo']) <= zint(t.fields['pos']),
            zint(t.fields['pos']) <= zint(G['hi'])), name='hd')

    c = T.add(FContract(
        PAR + 'generate_replacements', ghosts=gr_ghost,
        params=lambda G: {
            'self': ParserS(G['src']),
            'arguments': ListS(ListS(hull_doc(G), None, 'arg'), None,
                               'arguments'),
            'repls': BodyList(G['nargs'], 'repls'),
            'start': IntS(name='start')},
        requires=[('start-in-range', in_range),
                  ('start-in-hull', lambda A: And(
                      zint(A['lo']) <= zint(A['start']),
                      zint(A['start']) <= zint(A['hi']))),
                  ('arg-refs-in-range', lambda A: zint(A['nargs']) <=
                   zint(A['arguments'].length()))],
        result=lambda A: ListS(hull_doc(A), None, 'gr_result'),
        pure=True))
    for k in (0, 1):
        lp = c.loop(k)
        lp.invs.append(('cur_pos-in-range', lambda E: And(
            0 <= zint(E['cur_pos']),
            zint(E['cur_pos']) < zint(E['src'].ln),
            zint(E['lo']) <= zint(E['cur_pos']),
            zint(E['cur_pos']) <= zint(E['hi']))))
    c.loop(1).shapes['out'] = lambda E: ListS(hull_doc(E), None, 'out')

    # ---------------------------------------------------------- arg_buffer
    def ab_opened_by_markup(A):
        st = A['$st']
        if not sym.is_str(A['end']) or sym.seq_eq(A['end'], ']') is not True:
            return True
        tok = st.env.get('tok')
        if tok is None:
            return True
        o = tok.obj if isinstance(tok, Opt) else tok
        if not isinstance(o, Obj):
            return True
        isn = tok.isnone if isinstance(tok, Opt) else False
        return Or(isn, Not(tm.cls_is(A['$ex'], o, D + 'VerbatimToken')))

    c = T.add(FContract(
        PAR + 'arg_buffer', ghosts=parser_ghost,
        params=lambda G: {'self': ParserS(G['src']),
                          'buf': cm.BufS(G['src']),
                          'start': IntS(name='start'),
                          'end': StrS(name='end')},
        requires=[('start-in-range', in_range),
                  ('end-is-a-closing-bracket', lambda A: Or(
                      sym.seq_eq(A['end'], '}'), sym.seq_eq(A['end'], ']'))),
                  # C02 / C03: an optional argument or the option of \\\\ is
                  # opened by the markup character `[`, never by verbatim
                  # material that reads `[` (the caller has just looked at
                  # the token in its local `tok`)
                  ('option-is-opened-by-markup', ab_opened_by_markup)],
        result=lambda A: ObjS('yalafi.scanner.Buffer', {
            'tokens': tm.DocList(A['src'], lambda n: zint(n) >= 1)}),
        post_objs=[('buffer', lambda A: A['buf'], post_buf)]))
    lp = c.loop(0)
    lp.shapes['out'] = lambda E: tm.DocList(E['src'])
    lp.shapes['tok'] = lambda E: tm.OptTokS(tm.DocTok(E['src']))
    lp.shapes['buf.tokens'] = lambda E: tm.DocList(E['src'])
    lp.invs.append(('tok-is-cur', lambda E: zbool(E['tok'].isnone) == (
        zint(E['buf'].fields['tokens'].length()) == 0)))

    # C02 / C03: verbatim material inside an argument is never markup -- a
    # \\verb token neither changes the brace level nor closes the argument,
    # it is collected like any other text
    def ab_verbatim_opaque(E0, E1):
        ex = E0['$ex']
        tok = E0['tok']
        o = tok.obj if isinstance(tok, Opt) else tok
        if not isinstance(o, Obj):
            return True
        isverb = And(Not(tok.isnone) if isinstance(tok, Opt) else True,
                     tm.cls_is(ex, o, D + 'VerbatimToken'))
        out1 = E1['out']
        kept = False
        if isinstance(out1, TokList) and out1.segs and \
                isinstance(out1.segs[-1], Single):
            last = out1.segs[-1].obj
            last = last.obj if isinstance(last, Opt) else last
            kept = bool(isinstance(last, Obj) and last.oid == o.oid)
        return Implies(isverb, And(zint(E1['lev']) == zint(E0['lev']), kept))
    lp.body_post.append(('verbatim-token-is-opaque', ab_verbatim_opaque))

    def ab_closed_by_markup(A, r):
        L = A.get('$locals') or {}
        tok = L.get('tok')
        if 'out' not in L or tok is None:
            return True
        o = tok.obj if isinstance(tok, Opt) else tok
        if not isinstance(o, Obj):
            return True
        isn = tok.isnone if isinstance(tok, Opt) else False
        return Or(isn, Not(tm.cls_is(A['$ex'], o, D + 'VerbatimToken')))
    c.proof_ensures.append(('closing-token-is-not-verbatim',
                            ab_closed_by_markup))

    # C08: a mark never appears without a diagnostic -- on the path that
    # returns the error mark (end of text reached: the loop ended with
    # tok == None) latex_error has been called (ghost event counter)
    def ab_mark_has_diagnostic(A, r):
        L = A.get('$locals') or {}
        tok = L.get('tok')
        if 'out' not in L:
            return True
        ended = tok is None or (isinstance(tok, Opt) and tok.isnone)
        if ended is False:
            return True
        n = A['$st'].ghost.get('$diag', 0)
        return Implies(ended if ended is not True else True,
                       bool(isinstance(n, int) and n >= 1))
    c.proof_ensures.append(('error-mark-comes-with-a-diagnostic',
                            ab_mark_has_diagnostic))

    # -------------------------------------------------------- expand_macro
    def from_maths(A):
        # C19: names used inside maths are not listed -- every call from
        # the maths section loop passes math=True
        ex = A['$ex']
        if 'expand_math_section' in (ex.cur_func or ''):
            return A['math']
        return True

    # C09 / C19, ghost history of the activation: `$expansions` is the
    # sequence of macro objects handed to expand_arguments (appended by the
    # call-site effect of its contract).  Declared at entry  <=>  exactly one
    # expansion, of the_macros[name]; undeclared => no expansion, and the
    # name is recorded in `unknowns` iff it is used in text mode and was not
    # recorded before.
    def em_olds(A):
        ex, st = A['$ex'], A['$st']
        d = A['self'].fields['the_macros']
        u = A['self'].fields['unknowns']
        name = A['tok'].fields['txt']
        return {'declared': d.has(ex, st, name),
                'mac_oid': d.default_mk(ex, st, name).oid,
                'unk_lid': u.lid,
                'unk_writes': len(st.writes_of(u)),
                'nexp': len(st.ghost.get('$expansions', ()))}

    def em_calls(A):
        return A['$st'].ghost.get('$expansions', ())[A['old']['nexp']:]

    def em_appends(A):
        st, old = A['$st'], A['old']
        return len([w for w in st.writes if w[0] == old['unk_lid']]) - \
            old['unk_writes']

    def em_declared_expanded(A, r):
        calls = em_calls(A)
        return Implies(A['old']['declared'], bool(
            len(calls) == 1 and calls[0] == A['old']['mac_oid']))

    def em_undeclared_not_expanded(A, r):
        return Implies(Not(A['old']['declared']), len(em_calls(A)) == 0)

    def em_no_record(A, r):
        return Implies(Or(A['old']['declared'], A['math']),
                       em_appends(A) == 0)

    def em_record(A, r):
        # undeclared and in text mode: the name was in the list already
        # (ghost answer of the membership test) or is appended now
        st, old = A['$st'], A['old']
        u = A['self'].fields['unknowns']
        name = lift_str(A['tok'].fields['txt'])
        memb = st.ghost.get('$memq', {}).get(
            (old['unk_lid'], old['unk_writes'], name.arr.sexpr()))
        done = False
        if u.lid == old['unk_lid'] and em_appends(A) == 1 and u.segs and \
                isinstance(u.segs[-1], Single) and \
                sym.is_str(u.segs[-1].obj):
            done = sym.seq_eq(lift_str(u.segs[-1].obj), name)
        return Implies(And(Not(A['old']['declared']), Not(A['math'])),
                       Or(done, memb if memb is not None else False))

    c = T.add(FContract(
        PAR + 'expand_macro', ghosts=parser_ghost,
        params=lambda G: {'self': ParserS(G['src']),
                          'buf': cm.BufS(G['src']),
                          'tok': tm.DocTok(G['src']),
                          'math': BoolS('math')},
        requires=[('maths-calls-pass-math-true', from_maths)],
        result=lambda A: tm.DocList(A['src']),
        olds=em_olds,
        proof_ensures=[
            ('declared-macro-is-expanded', em_declared_expanded),
            ('undeclared-macro-not-expanded', em_undeclared_not_expanded),
            ('unknowns:no-record-when-declared-or-maths', em_no_record),
            ('unknowns:undeclared-text-use-recorded', em_record)],
        post_objs=[('buffer', lambda A: A['buf'], post_buf),
                   ('parser', P_self, post_parser)]))
    # the loop that skips space behind the macro name (it stops in front of
    # a language switch): only the buffer changes
    lp = c.loop(0)
    lp.shapes['buf.tokens'] = lambda E: tm.DocList(E['src'])
    c.loop_ok = True

    # ---------------------------------------------------- expand_arguments
    def note_expansion(ex, st, A):
        st.ghost['$expansions'] = st.ghost.get('$expansions', ()) + (
            A['mac'].oid,)

    c = T.add(FContract(
        PAR + 'expand_arguments', ghosts=parser_ghost,
        params=lambda G: {'self': ParserS(G['src']),
                          'buf': cm.BufS(G['src']),
                          'mac': MacroS('any'),
                          'start': IntS(name='start')},
        requires=[('start-in-range', in_range)],
        result=lambda A: tm.DocList(A['src'], lambda n: zint(n) >= 1),
        effects=note_expansion,
        post_objs=[('buffer', lambda A: A['buf'], post_buf),
                   ('parser', P_self, post_parser)]))
    lp = c.loop(0)
    loop_parser_shapes(lp)
    lp.shapes['arguments'] = lambda E: pm.ArgListS(
        E['src'], E['mac'].fields['args'])
    lp.shapes['arguments_extr'] = lambda E: pm.ArgListS(
        E['src'], E['mac'].fields['args'], 'arguments_extr')
    lp.shapes['delimiters'] = lambda E: ListS(BoolS('delim'), None,
                                              'delimiters')
    lp.invs.append(('pos-in-range', lambda E: And(
        0 <= zint(E['pos']), zint(E['pos']) < zint(E['src'].ln))))
    lp.invs.append(('one-entry-per-code', lambda E: And(
        zint(E['arguments'].length()) == zint(E['idx0']),
        zint(E['arguments_extr'].length()) == zint(E['idx0']),
        zint(E['delimiters'].length()) == zint(E['idx0']))))

    # explicit assumption NoMathTokensInTextOutput: the token taken from the
    # buffer in text mode is not of a maths class (MathElem/Oper/Space/Part
    # tokens are pushed back only by MathParser.expand_math_section, which
    # consumes them in its very next iteration -- a buffer-history argument
    # outside the summarised-list abstraction)
    import ast as _ast

    def es_stmt_hook(ex, stmt, st, fi):
        if isinstance(stmt, _ast.Expr) and isinstance(stmt.value, _ast.Call):
            f = stmt.value.func
            if isinstance(f, _ast.Attribute) and f.attr == 'append' and \
                    isinstance(f.value, _ast.Name) and f.value.id == 'out':
                tok = st.env.get('tok')
                o = tok.obj if isinstance(tok, Opt) else tok
                if isinstance(o, Obj):
                    st.assume(Not(tm.cls_is(ex, o, *tm.MATHX)))
                    ex.used_assumptions.add(
                        'NoMathTokensInTextOutput (assumed at `out.append` '
                        'in Parser.expand_sequence)')
    T.stmt_hooks[PAR + 'expand_sequence'] = es_stmt_hook

    lp = T.get(PAR + 'expand_sequence').loop(0)

    def verb_copied(E0, E1):
        # C02 / C03: verbatim material met in text mode is copied -- a
        # \\verb token taken from the buffer ends the iteration as a Text
        # token with the same text at the same position (whatever the text
        # looks like: a brace, a dollar sign, a double backslash)
        ex = E1['$ex']
        tok = E1['tok']
        o = tok.obj if isinstance(tok, Opt) else tok
        isn = tok.isnone if isinstance(tok, Opt) else False
        if not isinstance(o, Obj):
            return True
        isverb = And(Not(isn), tm.cls_is(ex, o, D + 'VerbatimToken'),
                     Not(zbool(tm.tfield(o, 'environ', False))))
        out1 = E1['out']
        ok = False
        if isinstance(out1, TokList) and out1.segs and \
                isinstance(out1.segs[-1], Single) and \
                isinstance(out1.segs[-1].obj, Obj):
            t = out1.segs[-1].obj
            ok = And(tm.cls_is(ex, t, D + 'TextToken'),
                     sym.seq_eq(lift_str(t.fields['txt']),
                                lift_str(o.fields['txt'])),
                     zint(t.fields['pos']) == zint(o.fields['pos']),
                     zbool(t.fields['pos_fix']) ==
                     zbool(o.fields['pos_fix']))
        return Implies(isverb, ok)
    lp.body_post.append(('verbatim-material-is-copied', verb_copied))

    def expansion_is_reread(E0, E1):
        # C09 ("nested uses expand fully", the expansion behaves like the
        # body written in place): what a macro, an environment begin or an
        # \\item expands to goes back to the input and is read again -- in an
        # iteration that called expand_macro / begin_environment /
        # expand_item (ghost call counter) the output list is not touched.
        # (Definitions -- \\def and whatever else the code treats like it --
        # are not expansions: parse_def_macro is not counted.)
        n0 = E0['$st'].ghost.get('$reread_calls', 0)
        n1 = E1['$st'].ghost.get('$reread_calls', 0)
        if n1 == n0:
            return True
        return zint(E1['out'].length()) == zint(E0['out'].length())
    lp.body_post.append(('expansion-goes-back-to-the-input',
                         expansion_is_reread))


    def _count_reread(c_):
        prev = c_.effects

        def eff(ex, st, A, prev=prev):
            st.ghost['$reread_calls'] = st.ghost.get('$reread_calls', 0) + 1
            if prev:
                prev(ex, st, A)
        c_.effects = eff
    loop_parser_shapes(lp)
    lp.shapes['out'] = lambda E: tm.PreOutList(E['src'])
    lp.shapes['tok'] = lambda E: tm.OptTokS(tm.DocTok(E['src']))

    # ------------------------------------------------------- expand_accent
    c = T.add(FContract(
        PAR + 'expand_accent', ghosts=parser_ghost,
        params=lambda G: {'self': ParserS(G['src']),
                          'buf': cm.BufS(G['src']),
                          'tok': tm.DocTok(G['src'], [D + 'AccentToken'])},
        result=lambda A: tm.PreOutList(A['src']),
        post_objs=[('buffer', lambda A: A['buf'], post_buf),
                   ('parser', P_self, post_parser)]))

    # --------------------------------------------------- begin_environment
    # same ghost-history clauses as for expand_macro; 'declared' is the
    # answer of the last membership test on the environment table for the
    # name that was read (the table may change while the name is read)
    def be_test(A):
        st = A['$st']
        name = A['$locals'].get('name')
        if not sym.is_str(name):
            return None
        nm = lift_str(name)
        key = (nm.arr.sexpr(), str(nm.ln))
        for kind, a, n, b, d in reversed(st.ghost.get('$haslog', ())):
            if kind == 'env' and (a, n) == key:
                return b, d, nm
        return None

    def be_calls(A):
        return A['$st'].ghost.get('$expansions', ())[A['old']['nexp']:]

    def be_declared_expanded(A, r):
        t = be_test(A)
        if t is None:
            return False
        b, d, nm = t
        calls = be_calls(A)
        env_oid = d.default_mk(A['$ex'], A['$st'], nm).oid
        return And(Implies(b, bool(len(calls) == 1 and
                                   calls[0] == env_oid)),
                   Implies(Not(b), len(calls) == 0))

    def be_record(A, r):
        t = be_test(A)
        if t is None:
            return False
        b, d, nm = t
        st = A['$st']
        u = A['self'].fields['unknowns']
        # the list object at return is the one the test and the append
        # worked on only on the undeclared path (no call in between)
        if len(be_calls(A)) > 0:
            return True
        wr = len(st.writes_of(u))
        memb = None
        for (lid, ver, a), v in st.ghost.get('$memq', {}).items():
            if lid == u.lid and a == nm.arr.sexpr():
                memb = v
        done = False
        if wr >= 1 and u.segs and isinstance(u.segs[-1], Single) and \
                sym.is_str(u.segs[-1].obj):
            done = sym.seq_eq(lift_str(u.segs[-1].obj), nm)
        return And(
            Implies(Or(b, A['math']), wr == 0),
            Implies(And(Not(b), Not(A['math'])),
                    Or(And(wr == 1, done),
                       And(wr == 0, memb if memb is not None else False))))

    c = T.add(FContract(
        PAR + 'begin_environment', ghosts=parser_ghost,
        params=lambda G: {'self': ParserS(G['src']),
                          'buf': cm.BufS(G['src']),
                          'tok': tm.DocTok(G['src']),
                          'math': BoolS('math')},
        requires=[('maths-calls-pass-math-true', from_maths)],
        result=lambda A: tm.DocList(A['src']),
        olds=lambda A: {'nexp': len(A['$st'].ghost.get('$expansions', ()))},
        proof_ensures=[
            ('environment-name-read-as-at-end', name_read_once),
            ('declared-environment-is-expanded', be_declared_expanded),
            ('unknowns:environment-recorded-iff-undeclared-text-use',
             be_record)],
        post_objs=[('buffer', lambda A: A['buf'], post_buf),
                   ('parser', P_self, post_parser)]))
    c.loop_ok = True

    c = T.add(FContract(
        PAR + 'end_environment', ghosts=parser_ghost,
        params=lambda G: {'self': ParserS(G['src']),
                          'buf': cm.BufS(G['src']),
                          'tok': tm.DocTok(G['src']),
                          'env_stop': OptS(StrS(name='env_stop'))},
        result=lambda A: TupleS(tm.DocList(A['src'], lambda n: zint(n) >= 1),
                                BoolS('stop')),
        ensures=[('stop-needs-env_stop', lambda A, r: Implies(
            r[1], Not(es_none(A))))],
        proof_ensures=[('environment-name-read-as-at-begin',
                        name_read_once)],
        post_objs=[('buffer', lambda A: A['buf'], post_buf),
                   ('parser', P_self, post_parser)]))

    # --------------------------------------------------------- expand_item
    # C04: the tokens generated for an item (label, copied punctuation
    # mark, blanks) sit on the \\item token itself or on a token of its
    # [label] argument -- never on the text that happens to precede the item
    def item_tokens_anchored(A, r):
        if not isinstance(r, TokList):
            return False
        start = zint(A['tok'].fields['pos'])
        anchors = [start]
        goals = []
        for sg in r.segs:
            if isinstance(sg, Many):
                if sg.last is not None and isinstance(sg.last, Obj):
                    anchors.append(zint(sg.last.fields['pos']))
                if sg.first is not None and isinstance(sg.first, Obj):
                    anchors.append(zint(sg.first.fields['pos']))
                continue
            o = sg.obj.obj if isinstance(sg.obj, Opt) else sg.obj
            if not isinstance(o, Obj):
                continue
            if o.fresh:
                goals.append(Or(*[zint(o.fields['pos']) == a
                                  for a in anchors]))
            anchors.append(zint(o.fields['pos']))
        return And(*goals) if goals else True

    c = T.add(FContract(
        PAR + 'expand_item', ghosts=parser_ghost,
        params=lambda G: {'self': ParserS(G['src']),
                          'buf': cm.BufS(G['src']),
                          'tok': tm.DocTok(G['src']),
                          'out_so_far': tm.PreOutList(G['src'])},
        result=lambda A: tm.DocList(A['src']),
        proof_ensures=[('generated-item-tokens-sit-on-the-item-or-its-label',
                        item_tokens_anchored)],
        post_objs=[('buffer', lambda A: A['buf'], post_buf),
                   ('parser', P_self, post_parser)]))

    # ----------------------------------------------------- parse_def_macro
    c = T.add(FContract(
        PAR + 'parse_def_macro', ghosts=parser_ghost,
        params=lambda G: {'self': ParserS(G['src']),
                          'buf': cm.BufS(G['src']),
                          'start': IntS(name='start')},
        requires=[('start-in-range', in_range)],
        result=lambda A: tm.PreOutList(A['src']),
        post_objs=[('buffer', lambda A: A['buf'], post_buf),
                   ('parser', P_self, post_parser)]))
    lp = c.loop(0)
    loop_parser_shapes(lp)
    # C09 (\\def, "undelimited parameters"): white space and comments
    # between the macro name, the parameters and the body are not part of
    # the parameter text (TeX ignores space after a control word and after
    # #k) -- every token kept as parameter text is of a non-space class
    lp.shapes['args'] = lambda E: ListS(tm.TokS(lambda ex, t: And(
        tm.ok(ex, t, E['src']), Not(tm.cls_is(
            ex, t, D + 'SpaceToken', D + 'CommentToken', D + 'ActionToken',
            D + 'VoidToken'))), name='dp'), None, 'def_params')
    lp.shapes['tok'] = lambda E: tm.OptTokS(tm.DocTok(E['src']))
    lp = c.loop(1)
    lp.shapes['arg_pos_map'] = lambda E: IListS(
        lambda l: forall(0, l.ln, lambda j: And(
            1 <= l.at(j), l.at(j) <= zint(E['args'].length()))))
    lp.invs.append(('n-counts-map', lambda E: zint(E['n']) ==
                    zint(E['arg_pos_map'].ln) + 1))
    lp = c.loop(2)
    lp.shapes['repl_mapped'] = lambda E: BodyList(E['args'].length())
    T.empty_hints[(PAR + 'parse_def_macro', 'arg_pos_map')] = 'ilist'

    # ----------------------------------------------------------- mathparser
    MP = 'yalafi.mathparser.MathParser.'

    def mp_ghost(ex, st, mode, vals):
        if mode == 'proof':
            return {'src': fresh_seq('str', 'src', st.assume)}
        return {'src': lift_str(
            vals['self'].fields['parser'].fields['latex'])}

    def MathParserS(src):
        class _S(Spec):
            def make(self, ex, st):
                return ParserS(src).make(ex, st).fields['mathparser']

            def check(self, ex, st, v, label, line=0):
                ParserS(src).check(ex, st, v.fields['parser'],
                                   label + '.parser', line)

            def remake(self, ex, st, cur):
                ParserS(src).remake(ex, st, cur.fields['parser'])
        return _S()

    T.add(FContract(
        MP + 'expand_inline_math', ghosts=mp_ghost,
        params=lambda G: {'self': MathParserS(G['src']),
                          'buf': cm.BufS(G['src']),
                          'tok': tm.DocTok(G['src'])},
        result=lambda A: tm.PreOutList(A['src']),
        post_objs=[('buffer', lambda A: A['buf'], post_buf),
                   ('parser', P_self, lambda A: MathParserS(A['src']))]))
    T.add(FContract(
        MP + 'expand_display_math', ghosts=mp_ghost,
        params=lambda G: {'self': MathParserS(G['src']),
                          'buf': cm.BufS(G['src']),
                          'tok': tm.DocTok(G['src']),
                          'env': MacroS('env')},
        result=lambda A: tm.PreOutList(A['src']),
        post_objs=[('buffer', lambda A: A['buf'], post_buf),
                   ('parser', P_self, lambda A: MathParserS(A['src']))]))
    T.mathparser_spec = MathParserS

    # --------------------------------------------------------- parser_work
    def pw_ghost(ex, st, mode, vals):
        # parser_work(latex) re-binds self.latex: two texts are involved,
        # `outer` = self.latex at entry, `src` = the text being parsed
        if mode == 'proof':
            return {'src': fresh_seq('str', 'src', st.assume),
                    'outer': fresh_seq('str', 'outer', st.assume)}
        return {'src': lift_str(vals['latex']),
                'outer': lift_str(vals['self'].fields['latex'])}

    def no_flows(src):
        return ListS(tm.FinalList(src), lambda n: zint(n) == 0, 'extracted')

    c = T.add(FContract(
        PAR + 'parser_work', ghosts=pw_ghost,
        # flows collected while a text is parsed refer to that text; the
        # caller hands over an empty flow list and decides afterwards
        # whether the flows belong to the document (main text) or are
        # dropped (definition texts)
        params=lambda G: {'self': ParserS(G['outer'], no_flows(G['outer'])),
                          'latex': cm.SameS(G['src'])},
        result=lambda A: ListS(tm.TokS(lambda ex, t: tm.out_final(
            ex, t, A['src']), name='pw'), None, 'pw_result'),
        post_objs=[('parser', P_self, lambda A: ParserS(
            A['outer'], ListS(tm.FinalList(A['src']), None, 'extracted')))]))
    lp = c.loop(0)
    lp.shapes['out'] = lambda E: tm.DocList(E['src'])
    lp.invs.append(('last-in-range', lambda E: And(
        0 <= zint(E['last']), zint(E['last']) <= zint(E['toks'].length()))))

    # C03 / C18 (skipped regions): an iteration that goes round again has
    # found an opening comment at `beg` at or behind the resume point and
    # resumes strictly behind it -- tokens are copied at most once
    # (toks[last:beg] then continue at last' > beg) and every skipped region
    # starts with an opening comment
    def pw_progress(E0, E1):
        return And(zint(E0['last']) <= zint(E1['beg']),
                   zint(E1['beg']) < zint(E1['last']),
                   zint(E1['last']) <= zint(E1['toks'].length()))
    lp.body_post.append(('resume-point-moves-behind-the-opening-comment',
                         pw_progress))

    # ------------------------------------------------------------- parse
    def parse_ghost(ex, st, mode, vals):
        if mode == 'proof':
            return {'src': fresh_seq('str', 'src', st.assume),
                    'outer': ''}
        return {'src': lift_str(vals['latex']),
                'outer': lift_str(vals['self'].fields['latex'])}

    c = T.add(FContract(
        PAR + 'parse', ghosts=parse_ghost,
        # entry point: no text is being parsed yet (self.latex == '')
        params=lambda G: {'self': ParserS(G['outer']),
                          'latex': cm.SameS(G['src']),
                          'define': StrS(name='define'),
                          'extract': pm_opt_strlist()},
        requires=[('idle', lambda A: sym.seq_eq(
            A['self'].fields['latex'], ''))],
        # every token of the result refers to `latex` (C01 step 7)
        result=lambda A: ListS(tm.TokS(lambda ex, t: tm.parse_out(
            ex, t, A['src']), name='pr'), None, 'parse_result'),
        post_objs=[('parser', P_self, lambda A: ParserS(
            A['outer'], ListS(tm.FinalList(A['src']), None, 'extracted')))]))
    lp = c.loop(0)
    lp.shapes['main'] = lambda E: ListS(tm.TokS(lambda ex, t: tm.parse_out(
        ex, t, E['src']), name='pr'), None, 'main')

    # ------------------------------------------------ \\item label generators
    # Parser.expand_item calls next() on them without a default: a label
    # generator never ends (C07: no StopIteration) -- `no_return`: every path
    # through the generator body stays in a loop; yielded values are strings
    GENS = ['yalafi.parameters.Parameters.init_environments.<locals>.'
            'labs_enumerate',
            'yalafi.parameters.Parameters.init_environments.<locals>.'
            'labs_itemize',
            PAR + '__init__.<locals>.labs_default']
    T.label_generators = GENS
    for q in GENS:
        if q not in repo.funcs:
            continue
        c = T.add(FContract(
            q, params={'level': IntS(lambda n: n >= 0, name='level')},
            free={'self': cm.ParmsS(), 'parms': cm.ParmsS()},
            no_return=True))
        c.yields = StrS(name='label')
        for k in range(len(repo.funcs[q].loop_nodes())):
            c.loop(k).invs.append(('true', lambda E: True))
        if q.endswith('labs_enumerate'):
            # the running letter of nested lists is one character
            c.loop(1).invs.append(('letter', lambda E: zint(seq_len(
                E['c'])) == 1 if 'c' in E and sym.is_str(E['c']) else True))

    # ---------------------------------------------------- init_extractions
    c = T.add(FContract(
        PAR + 'init_extractions', ghosts=parser_ghost,
        params=lambda G: {'self': ParserS(G['src']),
                          'extracts': ListS(StrS(name='x'), None, 'extracts')},
        post_objs=[('parser', P_self, post_parser)]))
    c.loop(0).invs.append(('true', lambda E: True))
    c.loop(1).invs.append(('true', lambda E: True))
    loop_parser_shapes(c.loop(0), buf=None)
    loop_parser_shapes(c.loop(1), buf=None)
    for k in (0, 1):
        for f in ('latex', 'max_pos', 'pos'):
            c.loop(k).modifies.append('self.parms.scanner.' + f)
    # loop 0 iterates over the_macros and replaces fields of the macros,
    # the dictionary itself is not written
    del c.loop(0).shapes['self.the_macros']

    # C18, first half: the extraction text handed to the scanner for a
    # listed macro is '' or '#k' where k-1 is the index of the FIRST
    # mandatory argument ('A') of the macro's argument code.  str(int)
    # carries the ghost tag ('decimal', value) (pyvc/builtins.py b_str);
    # that the scanner turns '#k' into the reference to argument k is the
    # evaluation lemma of props/C18.py.
    def extraction_text_ok(A):
        from pyvc import builtins as _bi
        ex, st = A['$ex'], A['$st']
        if not (ex.cur_func or '').endswith('.init_extractions') or \
                'extracts' not in st.env or 'mac' not in st.env:
            return True     # other callers, incl. constructors inlined here
        v = A['latex']
        if isinstance(v, str):
            return v == ''
        tag = getattr(v, 'tag', None)
        mac = st.env.get('mac')
        if not (isinstance(tag, tuple) and tag[0] == 'decimal' and
                isinstance(mac, Obj)):
            return False
        k = zint(tag[1])
        a = lift_str(mac.fields['args'])
        return And(zint(v.ln) == 1 + _bi.str_of_int_len(k),
                   v.at(0) == ord('#'),
                   1 <= k, k <= zint(a.ln), a.at(k - 1) == ord('A'),
                   forall(0, k - 1, lambda j: a.at(j) != ord('A')))
    T.get('yalafi.scanner.Scanner.scan').requires.append(
        ('extraction-refers-to-first-mandatory-argument',
         extraction_text_ok))

    # the flows collected so far are never dropped by the expander: the
    # list only grows (needed for the purity of get_text_expanded)
    def add_flows_grow(c, who='self'):
        prev = c.olds

        def olds(A, prev=prev):
            d = dict(prev(A)) if prev else {}
            d['nflows0'] = A[who].fields['extracted'].length()
            return d
        c.olds = olds
        c.ensures.append(('flows-only-grow', lambda A, r: zint(
            A[who].fields['extracted'].length()) >=
            zint(A['old']['nflows0'])))
    for nm in ('expand_sequence', 'expand_macro', 'expand_arguments',
               'expand_accent', 'begin_environment', 'end_environment',
               'expand_item', 'parse_def_macro', 'get_environment_name',
               'parse_keyvals_list', 'expand_keyvals', 'parse_keyvals_dict',
               'modify_parameters', 'init_package'):
        add_flows_grow(T.get(PAR + nm))
    T.add_flows_grow = add_flows_grow
    add_flows_grow(pm.H, 'parser')
    add_flows_grow(pm.H_END, 'parser')
    for nm in ('expand_inline_math', 'expand_display_math'):
        cc = T.get('yalafi.mathparser.MathParser.' + nm)
        prevo = cc.olds
        cc.olds = (lambda A, prevo=prevo: dict(
            (prevo(A) if prevo else {}),
            nflows0=A['self'].fields['parser'].fields['extracted'].length()))
        cc.ensures.append(('flows-only-grow', lambda A, r: zint(
            A['self'].fields['parser'].fields['extracted'].length()) >=
            zint(A['old']['nflows0'])))

    # --------------------------------------------- remove_pure_action_lines
    RPA = PAR + 'remove_pure_action_lines'

    def eval_effects(ex, st, A):
        t = A['t']
        for f in ('is_blank', 'can_start', 'can_end'):
            t.fields[f] = fresh_bool(f)
            st.writes.append((t.oid, f))
    T.add(FContract(
        RPA + '.<locals>.eval',
        params={'t': tm.TokS(lambda ex, t: True)},
        effects=eval_effects, returns_param='t'))

    c = T.add(FContract(
        RPA, ghosts=parser_ghost,
        params=lambda G: {'self': ParserS(G['src']),
                          'tokens': tm.PreOutList(G['src'])},
        result=lambda A: tm.FinalList(A['src']), pure=True))
    for k in (0, 1):
        lp = c.loop(k)
        lp.shapes['tokens'] = lambda E: tm.WorkList(E['src'])
        lp.shapes['tok'] = lambda E: tm.TokS(
            lambda ex, t: tm.work_tok(ex, t, E['src']))
    c.loop(0).shapes['out'] = lambda E: tm.WorkList(E['src'])
    c.loop(1).shapes['buf'] = lambda E: tm.WorkList(
        E['src'], lambda n: zint(n) >= 1)
    for q_ in ('expand_macro', 'begin_environment', 'expand_item'):
        _count_reread(T.get(PAR + q_))
    return T
