"""Contracts for yalafi/utils.py (array layer)."""
import z3
from pyvc import sym
from pyvc.sym import (SSeq, Obj, Opt, Opaque, TokList, Single, Many, And, Or,
                      Not, Implies, Ite, zint, zbool, fresh_int, fresh_seq,
                      forall, lift_str, seq_len)
from pyvc.contracts import (FContract, IntS, BoolS, StrS, IListS, ObjS,
                            TupleS, ListS, AnyS, Spec)
from . import tokmodel as tm
from .tokmodel import D

U = 'yalafi.utils.'


def ParmsErrS():
    """the two fields of Parameters that latex_error reads"""
    return ObjS('yalafi.parameters.Parameters', {
        'mark_latex_error': StrS(name='mark'),
        'mark_latex_error_verbose': BoolS('verbose')})


def src_ghost(ex, st, mode, vals):
    if mode == 'proof':
        return {'src': fresh_seq('str', 'src', st.assume)}
    s = st.ghost.get('src')
    if s is None:
        raise sym.EngineError('caller has no ghost src')
    return {'src': s}


def register(T, repo):
    # ------------------------------------------------------------ externs
    def stderr_write(ex, st, fi, args, kw, line):
        st.ghost['$diag'] = st.ghost.get('$diag', 0) + 1
        yield st, None

    def noop(ex, st, fi, args, kw, line):
        yield st, None
    T.externs['sys.stderr.write'] = stderr_write
    T.externs['sys.stderr.flush'] = noop

    def re_finditer(ex, st, fi, args, kw, line):
        # assumed contract of re.finditer: see iters.MatchIter
        yield st, Opaque('matchiter', {'s': args[1], 'expr': args[0]})
    T.externs['re.finditer'] = re_finditer

    def m_group(ex, st, fi, o, args, kw, line):
        s = o.fields['_string']
        yield st, sym.seq_slice(s, o.fields['_start'], o.fields['_end'])

    def m_start(ex, st, fi, o, args, kw, line):
        yield st, o.fields['_start']

    def m_end(ex, st, fi, o, args, kw, line):
        yield st, o.fields['_end']
    T.obj_methods[('re.Match', 'group')] = m_group
    T.obj_methods[('re.Match', 'start')] = m_start
    T.obj_methods[('re.Match', 'end')] = m_end

    def m_span(ex, st, fi, o, args, kw, line):
        yield st, (o.fields['_start'], o.fields['_end'])
    T.obj_methods[('re.Match', 'span')] = m_span

    # -------------------------------------------------------- get_txt_pos
    c = T.add(FContract(
        U + 'get_txt_pos',
        ghosts=src_ghost,
        params=lambda G: {'toks': tm.OutList(G['src'])},
        result=lambda A: TupleS(StrS(), IListS()),
        ensures=[
            ('len-eq', lambda A, r: zint(seq_len(r[0])) == zint(r[1].ln)),
            ('range', lambda A, r: forall(
                0, r[1].ln, lambda j: And(0 <= r[1].at(j),
                                          r[1].at(j) < zint(A['src'].ln)))),
        ], pure=True))
    lp = c.loop(0)
    lp.invs.append(('len-eq', lambda E: zint(seq_len(E['txt'])) ==
                    zint(E['pos'].ln)))
    lp.invs.append(('range', lambda E: forall(
        0, E['pos'].ln, lambda j: And(0 <= E['pos'].at(j),
                                      E['pos'].at(j) < zint(E['src'].ln)))))

    def body_map(E0, E1):
        # exact map (C02 / C04): k-th character of token t gets t.pos if
        # t.pos_fix else t.pos + k; everything before is unchanged
        t = E0['t']
        old, new = E0['pos'], E1['pos']
        tx0, tx1 = lift_str(E0['txt']), lift_str(E1['txt'])
        L = zint(tm.tlen(t))
        ttxt = lift_str(t.fields['txt'])
        return And(
            zint(new.ln) == zint(old.ln) + L,
            zint(tx1.ln) == zint(tx0.ln) + L,
            forall(0, old.ln, lambda k: new.at(k) == old.at(k)),
            forall(0, tx0.ln, lambda k: tx1.at(k) == tx0.at(k)),
            forall(0, L, lambda k: And(
                tx1.at(zint(tx0.ln) + k) == ttxt.at(k),
                new.at(zint(old.ln) + k) == Ite(
                    t.fields['pos_fix'], zint(t.fields['pos']),
                    zint(t.fields['pos']) + k))))
    lp.body_post.append(('exact-map', body_map))
    T.empty_hints[(U + 'get_txt_pos', 'pos')] = 'ilist'

    # -------------------------------------------------------- latex_error
    def le_result(A):
        src = A['latex']
        pos = A['pos']
        inr = And(0 <= zint(pos), zint(pos) < zint(src.ln))

        def pred(ex, t):
            return And(tm.cls_is(ex, t, D + 'TextToken'),
                       zbool(t.fields['pos_fix']),
                       Implies(inr, And(tm.ok(ex, t, src),
                                        zint(t.fields['pos']) >= zint(pos),
                                        zint(t.fields['pos']) <
                                        zint(src.ln))))
        class ErrTokS(tm.TokS):
            # tokens of an error mark are tagged (ghost): the hull clause of
            # C04 does not apply to them (C08 places them)
            def make(self, ex, st):
                o = super().make(ex, st)
                o.meta['errmark'] = True
                return o
        return ListS(ErrTokS(pred, name='err'),
                     lambda n: And(zint(n) >= 1, zint(n) <= 2), 'errtoks',
                     fresh=True)

    class ErrListS(Spec):
        """result of latex_error: one token, optionally followed by a
        second one"""
        def __init__(self, A):
            self.A = A
            self.inner = le_result(A)

        def make(self, ex, st):
            ts = self.inner.elem
            t0 = ts.make(ex, st)
            t1 = ts.make(ex, st)
            two = sym.fresh_bool('two_pieces')
            m = Many(Ite(two, 1, 0), (lambda s1, t1=t1: t1), True, 'opt01')
            return TokList([Single(t0), m])

        def check(self, ex, st, v, label, line=0):
            self.inner.check(ex, st, v, label, line)

    def pieces(A, r):
        """concatenated text of the pieces of a latex_error result"""
        st = A['$st']
        txt = ''
        for sg in r.segs:
            if isinstance(sg, Single):
                piece = sg.obj.fields['txt']
            else:
                e = sg.mk(st)
                t = lift_str(e.fields['txt'])
                piece = SSeq(t.arr, Ite(zint(sg.ln) == 1, t.ln, 0), 'str')
            txt = sym.seq_concat(txt, piece)
        return lift_str(txt)

    def le_first_at_pos(A, r):
        ex, st = A['$ex'], A['$st']
        t0 = ex.list_get(r, 0, st, 0, check=False)
        return zint(t0.fields['pos']) == zint(A['pos'])

    def le_mark_complete(A, r):
        """concatenated text of the pieces == the complete mark, which
        starts with ' ' + parms.mark_latex_error + ' ' (C08)"""
        mark = lift_str(A['parms'].fields['mark_latex_error'])
        if not all(isinstance(s, Single) or s.label == 'opt01'
                   for s in r.segs):
            return True
        txt = pieces(A, r)
        head = lift_str(sym.seq_concat(sym.seq_concat(' ', mark), ' '))
        verbose = zbool(A['parms'].fields['mark_latex_error_verbose'])
        return And(
            zint(txt.ln) >= zint(head.ln),
            forall(0, head.ln, lambda k: txt.at(k) == head.at(k)),
            Implies(Not(verbose), zint(txt.ln) == zint(head.ln)))

    def le_linecol(A, r):
        """the diagnostic names the 1-based line and column of pos (C08)"""
        L = A.get('$locals')
        if L is None:
            return True
        latex = lift_str(A['latex'])
        pos = zint(A['pos'])
        lin, nl, col = zint(L['lin']), zint(L['nl']), zint(L['col'])
        return Implies(And(0 <= pos, pos <= zint(latex.ln)), And(
            lin >= 1, col >= 1, 0 <= nl, nl <= pos, col == pos - nl + 1,
            forall(nl, pos, lambda k: latex.at(k) != 10),
            Or(nl == 0, latex.at(nl - 1) == 10),
            (lin == 1) == zbool(forall(0, pos,
                                       lambda k: latex.at(k) != 10))))

    def le_diag(A, r):
        st = A['$st']
        if '$diag0' not in st.ghost:
            return True
        return zint(st.ghost['$diag']) == zint(st.ghost['$diag0']) + 1

    c = T.add(FContract(
        U + 'latex_error',
        params={'err': StrS(name='err'), 'pos': IntS(name='pos'),
                'latex': StrS(name='latex'), 'parms': ParmsErrS()},
        result=lambda A: ErrListS(A),
        ensures=[('first-at-pos', le_first_at_pos),
                 ('mark-complete', le_mark_complete),
                 ('line-column', le_linecol)],
        effects=lambda ex, st, A: st.ghost.__setitem__(
            '$diag', st.ghost.get('$diag', 0) + 1)))

    # C08 mark-complete at call sites: taking one element of a latex_error
    # result drops the second piece of the mark
    def list_index_hook(ex, st, lst, i, line):
        if any(isinstance(sg, Many) and sg.label == 'opt01'
               for sg in lst.segs) and len(lst.segs) == 2:
            ex.prove(st, 'mark-complete:index@%d' % line,
                     zint(lst.length()) == 1, line,
                     note='only one piece of a two-piece error mark is used')
    T.list_index_hook = list_index_hook

    # --------------------------------------------------------- substitute
    def sub_pre(A):
        return zint(seq_len(A['i_txt'])) == zint(A['i_pos'].ln)

    def sub_range(A, r):
        # value range of positions preserved: every output position is one
        # of the input positions
        ip = A['i_pos']
        lo, hi = A['lo'], A['hi']
        return Implies(
            forall(0, ip.ln, lambda k: And(zint(lo) <= ip.at(k),
                                           ip.at(k) <= zint(hi))),
            forall(0, r[1].ln, lambda k: And(zint(lo) <= r[1].at(k),
                                             r[1].at(k) <= zint(hi))))

    def sub_ghosts(ex, st, mode, vals):
        if mode == 'proof':
            return {'lo': fresh_int('lo'), 'hi': fresh_int('hi')}
        g = {}
        g['lo'] = st.ghost.get('lo', fresh_int('lo'))
        g['hi'] = st.ghost.get('hi', fresh_int('hi'))
        return g

    c = T.add(FContract(
        U + 'substitute',
        ghosts=sub_ghosts,
        params={'i_txt': StrS(name='i_txt'), 'i_pos': IListS(name='i_pos'),
                'expr': StrS(name='expr'), 'repl': StrS(name='repl')},
        requires=[('len-eq', sub_pre)],
        result=lambda A: TupleS(StrS(), IListS()),
        ensures=[('len-eq', lambda A, r: zint(seq_len(r[0])) ==
                  zint(r[1].ln)),
                 ('range', sub_range)],
        pure=True))
    lp = c.loop(0)
    lp.invs.append(('len-eq', lambda E: zint(seq_len(E['o_txt'])) ==
                    zint(E['o_pos'].ln)))
    lp.invs.append(('last', lambda E: And(
        0 <= zint(E['last']), zint(E['last']) <= zint(E['mend0']),
        zint(E['mend0']) <= zint(seq_len(E['i_txt'])))))
    lp.invs.append(('range', lambda E: Implies(
        forall(0, E['i_pos'].ln, lambda k: And(
            zint(E['lo']) <= E['i_pos'].at(k),
            E['i_pos'].at(k) <= zint(E['hi']))),
        forall(0, E['o_pos'].ln, lambda k: And(
            zint(E['lo']) <= E['o_pos'].at(k),
            E['o_pos'].at(k) <= zint(E['hi']))))))

    def sub_body(E0, E1):
        """per non-empty match: o_txt grows by i_txt[last:cur] ++ repl,
        o_pos by i_pos[last:cur] followed by r_len entries
        i_pos[cur + min(k, m_len-1)]; an empty match changes nothing"""
        m = E0['m']
        cur, end = zint(m.fields['_start']), zint(m.fields['_end'])
        m_len = end - cur
        last = zint(E0['last'])
        ot0, ot1 = lift_str(E0['o_txt']), lift_str(E1['o_txt'])
        op0, op1 = E0['o_pos'], E1['o_pos']
        it, ip = lift_str(E0['i_txt']), E0['i_pos']
        repl = lift_str(E0['repl'])
        r_len = zint(repl.ln)
        gap = cur - last
        n0 = zint(op0.ln)
        empty = And(zint(op1.ln) == n0, zint(ot1.ln) == zint(ot0.ln),
                    zint(E1['last']) == last)
        nonempty = And(
            zint(op1.ln) == n0 + gap + r_len,
            zint(ot1.ln) == zint(ot0.ln) + gap + r_len,
            zint(E1['last']) == end,
            forall(0, n0, lambda k: And(op1.at(k) == op0.at(k),
                                        ot1.at(k) == ot0.at(k))),
            forall(0, gap, lambda k: And(
                op1.at(n0 + k) == ip.at(last + k),
                ot1.at(n0 + k) == it.at(last + k))),
            forall(0, r_len, lambda k: And(
                ot1.at(n0 + gap + k) == repl.at(k),
                op1.at(n0 + gap + k) == ip.at(
                    cur + z3.If(k < m_len - 1, k, m_len - 1)))))
        return z3.If(m_len == 0, zbool(empty), zbool(nonempty))
    lp.body_post.append(('per-match', sub_body))

    def sub_candidates(conc):
        # the regular expression is abstracted away in the contract (only
        # the assumed finditer contract is used); for the replay we try the
        # literal substrings of the model's text as expressions
        import re
        txt = conc['i_txt']
        seen = set()
        for a in range(len(txt)):
            for b in range(a + 1, len(txt) + 1):
                e = re.escape(txt[a:b])
                if e not in seen:
                    seen.add(e)
                    d = dict(conc)
                    d['expr'] = e
                    yield d
    c.replay_candidates = sub_candidates

    def sub_sampler(rng):
        import re
        n = rng.randint(0, 7)
        txt = ''.join(rng.choice('ab ') for _ in range(n))
        pos = [rng.randint(0, 30) for _ in range(n)]
        if n and rng.random() < 0.9:
            a = rng.randrange(n)
            b = rng.randint(a + 1, n)
            expr = re.escape(txt[a:b])
        else:
            expr = rng.choice(['a*', 'b?', 'x'])
        repl = ''.join(rng.choice('XY') for _ in range(rng.randint(0, 5)))
        return {'i_txt': txt, 'i_pos': pos, 'expr': expr, 'repl': repl}
    c.sampler = sub_sampler

    def sub_native(a, result):
        # the per-match body contract, unrolled over the real matches
        import re
        txt, pos, expr, repl = a['i_txt'], a['i_pos'], a['expr'], a['repl']
        et, ep, last = '', [], 0
        for m in re.finditer(expr, txt):
            if m.end() == m.start():
                continue
            cur, ml = m.start(), m.end() - m.start()
            et += txt[last:cur] + repl
            ep += pos[last:cur] + [pos[cur + min(k, ml - 1)]
                                   for k in range(len(repl))]
            last = m.end()
        et += txt[last:]
        ep += pos[last:]
        if (et, ep) != tuple(result):
            return 'expected %r, got %r' % ((et, ep), result)
        return None
    c.native_post = sub_native
    T.empty_hints[(U + 'substitute', 'o_pos')] = 'ilist'


    # ----------------------------------------------------- filter_set_toks
    from pyvc.contracts import OptS
    from pyvc.engine import OptVal, TypeOf, ClassRef

    def typ_tag(ex, v):
        if v is None:
            return None
        if isinstance(v, OptVal):
            return v
        if isinstance(v, ClassRef):
            return ex.tag(v.qual)
        if isinstance(v, TypeOf):
            return v.tag
        raise sym.EngineError('tok_typ %r' % (v,))

    def fst_ghost(ex, st, mode, vals):
        # ghost: are all input tokens language tokens?  (then so are the
        # results, whatever tok_typ is)
        if mode == 'proof':
            return {'only_lang': sym.fresh_bool('only_lang')}
        toks = vals['toks']
        ok = True
        if isinstance(toks, TokList):
            for sg in toks.segs:
                g = st.clone()
                e = sg.obj if isinstance(sg, Single) else sg.mk(g)
                if not ex.implied(g, tm.cls_is(ex, e, D + 'LanguageToken')):
                    ok = False
        return {'only_lang': ok}

    def fst_result(A):
        ex = A['$ex']
        tt = typ_tag(ex, A['tok_typ'])

        def pred(ex_, t):
            parts = [tm.cls_inv(ex_, t),
                     Implies(A['only_lang'],
                             tm.cls_is(ex_, t, D + 'LanguageToken')),
                     zint(t.fields['pos']) == zint(A['pos'])]
            if tt is None:
                pass
            elif isinstance(tt, OptVal):
                parts.append(Implies(Not(tt.isnone), zint(ex_.cls_of(t)) ==
                                     zint(tt.val.tag)))
            else:
                parts.append(zint(ex_.cls_of(t)) == zint(tt))
            return And(*parts)
        return ListS(tm.TokS(pred, name='fs'), None, 'filtered', fresh=True)

    c = T.add(FContract(
        U + 'filter_set_toks', ghosts=fst_ghost,
        params=lambda G: {
            'toks': ListS(tm.TokS(lambda ex, t: And(
                tm.cls_inv(ex, t),
                Implies(G['only_lang'],
                        tm.cls_is(ex, t, D + 'LanguageToken')))),
                None, 'toks'),
            'pos': IntS(name='pos'), 'tok_typ': OptS(tm.ClassS())},
        result=fst_result, pure=True))
    return T
