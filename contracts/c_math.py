"""Contracts for yalafi/mathparser.py."""
import z3
from pyvc import sym
from pyvc.sym import (SSeq, Obj, Opt, Opaque, TokList, Single, Many, And, Or,
                      Not, Implies, Ite, zint, zbool, fresh_int, fresh_bool,
                      fresh_seq, forall, lift_str, seq_len, Unsupported)
from pyvc.contracts import (FContract, Spec, IntS, BoolS, StrS, IListS, ObjS,
                            TupleS, ListS, AnyS, ConstS, OptS)
from . import tokmodel as tm
from . import common as cm
from . import pmodel as pm
from .tokmodel import D, M

MP = 'yalafi.mathparser.MathParser.'
MPT = 'yalafi.mathparser.MathPartToken'


HULL = {}      # ghost interval of the formula, set per contract instance


def in_hull(t, G):
    if G is None or 'lo' not in G:
        return True
    return And(zint(G['lo']) <= zint(t.fields['pos']),
               zint(t.fields['pos']) <= zint(G['hi']))


def math_tok(src, G=None):
    """token of a maths class inside a formula"""
    return tm.TokS(lambda ex, t: And(tm.ok(ex, t, src), in_hull(t, G)),
                   [D + 'MathElemToken', D + 'MathOperToken',
                    D + 'MathSpaceToken'], name='mt')


def section_tok(src):
    """element of the list returned by expand_math_section: a maths token,
    or a text token that is passed through to the output (\\text{..}, error
    marks, paragraph tokens of environments)"""
    return tm.TokS(lambda ex, t: And(
        tm.ok(ex, t, src),
        Or(tm.cls_is(ex, t, D + 'MathElemToken', D + 'MathOperToken',
                     D + 'MathSpaceToken'),
           tm.pre_out(ex, t, src))), name='st')


class PartS(Spec):
    """MathPartToken: non-empty list of maths tokens, pos/txt of the first"""
    def __init__(self, src, G=None):
        self.src = src
        self.G = G

    def make(self, ex, st):
        toks = ListS(math_tok(self.src, self.G), lambda n: zint(n) >= 1,
                     'part').make(ex, st)
        first = ex.list_get(toks, 0, st, 0, check=False)
        o = Obj(MPT, {'pos': first.fields['pos'],
                      'txt': first.fields['txt'], 'pos_fix': False,
                      'toks': toks})
        o.meta['token'] = True
        return o

    def check(self, ex, st, v, label, line=0):
        ListS(math_tok(self.src, self.G), lambda n: zint(n) >= 1).check(
            ex, st, v.fields['toks'], label + '.toks', line)
        ex.prove(st, label + ':pos-in-range', And(tm.in_text_strict(
            v, lift_str(self.src).ln), in_hull(v, self.G)), line)


class PartOrTextS(Spec):
    """element of the list handed to replace_section"""
    def __init__(self, src, G=None):
        self.src = src
        self.G = G

    def make(self, ex, st):
        # a part or a text token (two kinds of elements: modelled as a
        # symbolic choice; class-dependent fields exist on both)
        part = PartS(self.src, self.G).make(ex, st)
        txt = tm.TokS(lambda ex_, t: And(tm.pre_out(ex_, t, self.src),
                                         in_hull(t, self.G))).make(ex, st)
        b = fresh_bool('is_part')
        from pyvc.engine import merge_values
        o = merge_values(ex, [(b, part), (Not(b), txt)], st)
        o.fields['toks'] = part.fields['toks']
        o.meta['token'] = True
        return o

    def check(self, ex, st, v, label, line=0):
        if isinstance(v, Opt):
            ex.prove(st, label + ':not-none', Not(v.isnone), line)
            v = v.obj
        if isinstance(v.cls, str):
            if v.cls == MPT:
                PartS(self.src, self.G).check(ex, st, v, label, line)
            else:
                tm.TokS(lambda ex_, t: And(
                    tm.pre_out(ex_, t, self.src),
                    in_hull(t, self.G))).check(ex, st, v, label, line)
            return
        ispart = tm.cls_is(ex, v, MPT)
        ex.prove(st, label + ':text', Implies(Not(ispart), And(tm.pre_out(
            ex, v, self.src), in_hull(v, self.G))), line)
        ex.prove(st, label + ':part-pos', Implies(ispart, And(
            tm.in_text_strict(v, lift_str(self.src).ln),
            in_hull(v, self.G))), line)
        if 'toks' in v.fields:
            g = st.clone()
            g.assume(ispart)
            ListS(math_tok(self.src, self.G), lambda n: zint(n) >= 1).check(
                ex, g, v.fields['toks'], label + '.toks', line)
        else:
            ex.prove(st, label + ':part-has-toks', Not(ispart), line)


def mp_ghost(ex, st, mode, vals):
    if mode == 'proof':
        return {'src': fresh_seq('str', 'src', st.assume)}
    return {'src': lift_str(vals['self'].fields['parser'].fields['latex'])}


class ErrMarkPost(Spec):
    """MathParser.error_mark after expand_math_section"""
    def __init__(self, src):
        self.src = src

    def check(self, ex, st, v, label, line=0):
        tm.PreOutList(self.src).check(ex, st, v.fields['error_mark'],
                                      label + '.error_mark', line)

    def remake(self, ex, st, cur):
        cur.fields['error_mark'] = tm.PreOutList(self.src).make(ex, st)
        st.writes.append((cur.oid, 'error_mark'))


def register(T, repo):
    MathParserS = T.mathparser_spec
    from pyvc.engine import FuncRef

    def sym_method(ex, st, o, attr):
        # method of a token whose class is symbolic: MathPartToken methods
        # when the path condition fixes the class
        m = repo.find_method(MPT, attr)
        if m is not None and ex.implied(st, tm.cls_is(ex, o, MPT)):
            return FuncRef(m.qual, bound=o)
        return NotImplemented
    T.sym_method = sym_method
    for n in ('start_space', 'end_space', 'only_space', 'has_elem',
              'leading_op', 'last_char'):
        T.inline_ok.add(MPT + '.' + n)
    T.inline_ok.add(MPT + '.__init__')

    def post_p(A):
        return MathParserS(A['src'])

    def post_buf(A):
        return pm.BufPostS(A['src'])

    def post_p_keep_mark(A):
        # replace_section runs no maths section: the error mark of the last
        # section is still the one expand_math_section left (proved: the
        # function and what it inlines do not store to the attribute --
        # a store would be logged and rejected by the frame of its loop)
        inner = MathParserS(A['src'])

        class _K(Spec):
            def make(self, ex, st):
                return inner.make(ex, st)

            def check(self, ex, st, v, label, line=0):
                inner.check(ex, st, v, label, line)

            def remake(self, ex, st, cur):
                keep = cur.fields.get('error_mark')
                inner.remake(ex, st, cur)
                if keep is not None:
                    cur.fields['error_mark'] = keep
        return _K()

    # -------------------------------------------------- expand_math_section
    c = T.add(FContract(
        MP + 'expand_math_section', ghosts=mp_ghost,
        params=lambda G: {'self': MathParserS(G['src']),
                          'buf': cm.BufS(G['src']),
                          'start': IntS(name='start'),
                          'toks_stop': ListS(StrS(name='stop'), None,
                                             'toks_stop'),
                          'env_stop': OptS(StrS(name='env_stop'))},
        requires=[('start-in-range', pm.in_range)],
        result=lambda A: TupleS(
            ListS(section_tok(A['src']), None, 'section'),
            tm.OptTokS(tm.DocTok(A['src']))),
        post_objs=[('buffer', lambda A: A['buf'], post_buf),
                   ('parser', lambda A: A['self'], post_p),
                   # C08: the error mark of this section (empty, or the
                   # pieces of the mark that latex_error returned) is fit
                   # for the output of the current text
                   ('error-mark', lambda A: A['self'],
                    lambda A: ErrMarkPost(A['src']))]))
    lp = c.loop(0)
    pm.loop_parser_shapes(lp, parser='parser', buf='buf')
    # (calls inside the loop may leave any mark in self.error_mark: nested
    # maths; the attribute is assigned once after the loop)
    lp.shapes['self.error_mark'] = lambda E: ListS(AnyS(), None,
                                                   'error_mark')
    lp.shapes['mark'] = lambda E: tm.PreOutList(E['src'])
    lp.shapes['out'] = lambda E: ListS(tm.DocTok(E['src']), None, 'mout')
    lp.shapes['tok'] = lambda E: tm.OptTokS(tm.DocTok(E['src']))
    lp.shapes['out'] = lambda E: ListS(tm.TokS(lambda ex, t: And(
        tm.ok(ex, t, E['src']),
        Or(tm.cls_is(ex, t, D + 'MathElemToken', D + 'MathOperToken',
                     D + 'MathSpaceToken', D + 'ActionToken',
                     D + 'VoidToken'),
           tm.pre_out(ex, t, E['src']))), name='mo'), None, 'mout')

    # --------------------------------------------------- detect_math_parts
    c = T.add(FContract(
        MP + 'detect_math_parts', ghosts=mp_ghost,
        params=lambda G: {'self': AnyS(),
                          'toks': ListS(section_tok(G['src']), None,
                                        'section')},
        result=lambda A: ListS(PartOrTextS(A['src']), None, 'parts'),
        pure=True))
    lp = c.loop(0)
    lp.shapes['toks'] = lambda E: ListS(section_tok(E['src']), None, 'rest')
    lp.shapes['out'] = lambda E: ListS(PartOrTextS(E['src']), None, 'parts')
    # termination: the list gets shorter in every iteration
    lp.variant = lambda E: zint(E['toks'].length())

    # ----------------------------------------------------- replace_section
    def hull_out(src, G):
        # C10/C11: every token of the rendered section maps into the hull of
        # the formula tokens it was made from
        return ListS(tm.TokS(lambda ex, t: And(tm.pre_out(ex, t, src),
                                               in_hull(t, G)), name='ro'),
                     None, 'rendered')

    def rs_ghost(ex, st, mode, vals):
        g = mp_ghost(ex, st, mode, vals)
        if mode == 'proof':
            g['lo'] = fresh_int('lo')
            g['hi'] = fresh_int('hi')
        else:
            g['lo'] = 0
            g['hi'] = zint(g['src'].ln) - 1
        return g

    def rs_result(A):
        return TupleS(hull_out(A['src'], A), BoolS('next_repl'))

    # C10 rotation: strings of the placeholder collection carry the ghost
    # tag 'placeholder'; appending a token whose text is such a string is a
    # placeholder emission (ghost counter `$ph`).  Body contract of the
    # loop for inline formulas: the number of stores to `repls` in one
    # iteration equals the number of placeholders emitted in it, at most
    # one -- with the evaluation lemma 'every store to repls in
    # replace_section is a rotation by one' (props/C10.py): each inline
    # placeholder is preceded by exactly one rotation.
    class ReplStrS(StrS):
        def make(self, ex, st):
            v = StrS.make(self, ex, st)
            v.tag = 'placeholder'
            return v

    def ph_append_hook(ex, st, lst, v, line, prev=T.list_append_hook):
        if isinstance(v, Obj) and getattr(v.fields.get('txt'), 'tag',
                                          None) == 'placeholder':
            st.ghost['$ph'] = st.ghost.get('$ph', 0) + 1
        if prev:
            prev(ex, st, lst, v, line)
    T.list_append_hook = ph_append_hook

    def rot_per_placeholder(E0, E1):
        s0, s1 = E0['$st'], E1['$st']
        repls = E1['repls']
        rot = len(s1.writes_of(repls)) - len(s0.writes_of(repls))
        ph = s1.ghost.get('$ph', 0) - s0.ghost.get('$ph', 0)
        return Implies(E1['inline'], bool(rot == ph and ph <= 1))

    c = T.add(FContract(
        MP + 'replace_section', ghosts=rs_ghost,
        params=lambda G: {'self': MathParserS(G['src']),
                          'inline': BoolS('inline'),
                          'tokens': ListS(PartOrTextS(G['src'], G), None,
                                          'parts'),
                          'first_section': BoolS('first_section'),
                          'next_repl': BoolS('next_repl'),
                          'repls': ListS(ReplStrS(name='repl'),
                                         lambda n: zint(n) >= 1, 'repls')},
        result=rs_result,
        # the placeholder collection keeps its length (rotation)
        ensures=[('repls-length', lambda A, r: zint(A['repls'].length()) ==
                  zint(A['old']['n']))],
        olds=lambda A: {'n': A['repls'].length()},
        post_objs=[('parser', lambda A: A['self'], post_p_keep_mark)]))
    lp = c.loop(0)
    lp.shapes['out'] = lambda E: hull_out(E['src'], E)
    lp.shapes['repls'] = lambda E: ListS(ReplStrS(name='repl'), None,
                                         'repls')
    lp.body_post.append(('inline-one-rotation-per-placeholder',
                         rot_per_placeholder))
    lp.invs.append(('repls-length', lambda E: zint(E['repls'].length()) ==
                    zint(E['$args']['old']['n'])))
    pm.loop_parser_shapes(lp, parser='self.parser', buf=None)

    def add_grow_mp(cc):
        prevo = cc.olds
        cc.olds = (lambda A, prevo=prevo: dict(
            (prevo(A) if prevo else {}),
            nflows0=A['self'].fields['parser'].fields['extracted'].length()))
        cc.ensures.append(('flows-only-grow', lambda A, r: zint(
            A['self'].fields['parser'].fields['extracted'].length()) >=
            zint(A['old']['nflows0'])))
    add_grow_mp(T.get(MP + 'expand_math_section'))
    add_grow_mp(T.get(MP + 'replace_section'))

    # -------------------------------------------------- expand_inline_math
    c = T.get(MP + 'expand_inline_math')
    c.result = lambda A: tm.PreOutList(A['src'], lambda n: zint(n) >= 2)
    c2 = T.get(MP + 'expand_display_math')
    lp = c2.loop(0)
    pm.loop_parser_shapes(lp, parser='self.parser', buf='buf')
    # (nothing is known about the left-over mark at the loop head; the loop
    # ends by `break` right after a call of expand_math_section)
    lp.shapes['self.error_mark'] = lambda E: ListS(AnyS(), None,
                                                   'error_mark')
    lp.shapes['out'] = lambda E: tm.PreOutList(E['src'],
                                               lambda n: zint(n) >= 1)
    lp.invs.append(('start-in-range', lambda E: And(
        0 <= zint(E['start']), zint(E['start']) < zint(E['src'].ln))))
    return T
