"""Contracts for the multi-language splitting (utils.get_txt_pos_ml,
ml_append_placeholder, ml_check_lang_section) -- C12 lemmas."""
import z3
from pyvc import sym
from pyvc.sym import (SSeq, Obj, Opt, Opaque, TokList, Single, Many, And, Or,
                      Not, Implies, Ite, zint, zbool, fresh_int, fresh_bool,
                      fresh_seq, forall, lift_str, seq_len, Unsupported,
                      EngineError)
from pyvc.contracts import (FContract, Spec, IntS, BoolS, StrS, IListS, ObjS,
                            TupleS, ListS, AnyS, ConstS, OptS, DictS)
from pyvc.engine import PyDict
from . import tokmodel as tm
from . import common as cm
from .tokmodel import D

U = 'yalafi.utils.'
SEC = U + 'LanguageSection'


def in_rng(l, lo, hi):
    return forall(0, l.ln, lambda k: And(zint(lo) <= l.at(k),
                                         l.at(k) <= zint(hi)))


def sec_ok(o, G):
    """a section: text and map of equal length, positions inside the text"""
    txt, pos = lift_str(o.fields['txt']), o.fields['pos']
    return And(zint(txt.ln) == zint(pos.ln), in_rng(pos, G['lo'], G['hi']))


class SecS(Spec):
    def __init__(self, G, nonempty=False):
        self.G = G
        self.nonempty = nonempty

    def make(self, ex, st):
        o = Obj(SEC, {'lang': fresh_seq('str', 'lang', st.assume),
                      'back': fresh_bool('back'), 'brk': fresh_bool('brk'),
                      'txt': fresh_seq('str', 'stxt', st.assume),
                      'pos': fresh_seq('ilist', 'spos', st.assume)})
        st.assume(sec_ok(o, self.G))
        if self.nonempty:
            st.assume(zint(seq_len(o.fields['txt'])) >= 1)
        return o

    def check(self, ex, st, v, label, line=0):
        if not isinstance(v, Obj):
            raise EngineError('%s: expected section, got %r' % (label, v))
        ex.prove(st, label + ':len-eq-and-range', sec_ok(v, self.G), line)
        if self.nonempty:
            ex.prove(st, label + ':nonempty',
                     zint(seq_len(v.fields['txt'])) >= 1, line)


def ml_ghost(ex, st, mode, vals):
    if mode == 'proof':
        return {'lo': fresh_int('lo'), 'hi': fresh_int('hi'),
                'src': fresh_seq('str', 'src', st.assume)}
    g = {'lo': st.ghost.get('lo', 0), 'hi': st.ghost.get('hi', 0)}
    g['src'] = st.ghost.get('src')
    return g


class PartS(Spec):
    """[txt, pos] pair of the result"""
    def __init__(self, G):
        self.G = G

    def make(self, ex, st):
        txt = fresh_seq('str', 'ptxt', st.assume)
        pos = fresh_seq('ilist', 'ppos', st.assume)
        st.assume(And(zint(txt.ln) == zint(pos.ln),
                      in_rng(pos, self.G['lo'], self.G['hi'])))
        return TokList([Single(txt), Single(pos)])

    def check(self, ex, st, v, label, line=0):
        if not isinstance(v, TokList) or len(v.segs) != 2:
            raise EngineError('%s: expected [txt, pos]' % label)
        txt, pos = lift_str(v.segs[0].obj), v.segs[1].obj
        ex.prove(st, label + ':len-eq-and-range', And(
            zint(txt.ln) == zint(pos.ln),
            in_rng(pos, self.G['lo'], self.G['hi'])), line)


def MLParmsS():
    lang = ObjS('yalafi.parameters.ParserLanguageSettings', {
        'lang_change_repl': ListS(StrS(name='repl'),
                                  lambda n: zint(n) >= 1, 'lang_repl')})
    return ObjS('yalafi.parameters.Parameters', {
        'parser_lang_settings': DictS(lang, 'lang_settings', total=True),
        'ml_continue_thresh': IntS(name='thresh')})


def register(T, repo):
    T.inline_ok.add(U + 'ml_check_lang_section')
    T.inline_ok.add(SEC + '.__init__')
    T.add(FContract('yalafi.parameters.Parameters.check_parser_lang',
                    params={'self': AnyS(), 'lang': StrS(name='lang')},
                    result=lambda A: StrS(name='key'), pure=True))

    # ----------------------------------------------- ml_append_placeholder
    def map_grows_like_text(A, r):
        sec = A['sec']
        return And(sec_ok(sec, A),
                   zint(seq_len(sec.fields['txt'])) >=
                   zint(A['old']['n']))
    T.add(FContract(
        U + 'ml_append_placeholder', ghosts=ml_ghost,
        params=lambda G: {'sec': SecS(G), 'incl': SecS(G),
                          'parms': MLParmsS()},
        ensures=[('section-stays-consistent', map_grows_like_text)],
        olds=lambda A: {'n': seq_len(A['sec'].fields['txt'])},
        effects=lambda ex, st, A: _havoc_sec(ex, st, A['sec'], A)))

    # ------------------------------------------------------ get_txt_pos_ml
    def gml_result(A):
        # (a list may be empty for a moment: `d.setdefault(k, []).append(p)`;
        # the property speaks about the parts, not about their number)
        return DictS(ListS(PartS(A), lambda n: zint(n) >= 0, 'parts'), 'ml')

    def gml_ghost(ex, st, mode, vals):
        if mode == 'proof':
            src = fresh_seq('str', 'src', st.assume)
            return {'src': src, 'lo': 0, 'hi': zint(src.ln) - 1}
        src = st.ghost['src']
        return {'src': src, 'lo': 0, 'hi': zint(src.ln) - 1}
    c = T.add(FContract(
        U + 'get_txt_pos_ml', ghosts=gml_ghost,
        params=lambda G: {'toks': tm.OutList(G['src']),
                          'main_lang': StrS(name='main_lang'),
                          'parms': MLParmsS()},
        result=gml_result))
    # loop 0: for t in toks
    lp = c.loop(0)
    lp.shapes['sections'] = lambda E: ListS(SecS(E, True), None, 'sections')
    lp.shapes['cur_sec'] = lambda E: tm.OutList(E['src'])
    lp.shapes['lang_stack'] = lambda E: ListS(
        StrS(name='lang'), lambda n: zint(n) >= 1, 'lang_stack')

    def stack_discipline(E0, E1):
        # C12 (nesting): the splitter's stack follows the language tokens
        # like the parser's own stack (Parameters.change_parser_lang): a soft
        # switch pushes -- also when the language does not change, because
        # its closing token will pop --, a closing token pops (never the
        # main language), a hard switch keeps the depth
        ex = E0['$ex']
        t = E1['t']
        o = t.obj if isinstance(t, Opt) else t
        if not isinstance(o, Obj):
            return True
        islang = tm.cls_is(ex, o, D + 'LanguageToken')
        n0 = zint(E0['lang_stack'].length())
        n1 = zint(E1['lang_stack'].length())
        back = zbool(tm.tfield(o, 'back', False))
        hard = zbool(tm.tfield(o, 'hard', False))
        return And(
            Implies(Not(islang), n1 == n0),
            Implies(And(islang, back), n1 == z3.If(n0 > 1, n0 - 1, n0)),
            Implies(And(islang, Not(back), hard), n1 == n0),
            Implies(And(islang, Not(back), Not(hard)), n1 == n0 + 1))
    lp.body_post.append(('language-stack-follows-the-tokens',
                         stack_discipline))
    # loop 1: while sections
    lp = c.loop(1)
    lp.shapes['sections'] = lambda E: ListS(SecS(E, True), None, 'sections')
    lp.shapes['out'] = lambda E: ListS(SecS(E, True), None, 'out')
    lp.shapes['incl'] = lambda E: AnyS()
    lp.variant = lambda E: zint(E['sections'].length())
    # loop 2: for sec in out
    lp = c.loop(2)
    lp.shapes['ret'] = lambda E: gml_result(E)

    # C12 label preservation (assertion at the real statement): wherever
    # the splitter glues the text of one language section to another one
    # (`A.txt += B.txt`), both sections carry the same language -- the words
    # of B stay in a part labelled with the language in force at them
    import ast as _ast

    def ml_stmt_hook(ex, stmt, st, fi):
        if not (isinstance(stmt, _ast.AugAssign) and
                isinstance(stmt.op, _ast.Add) and
                isinstance(stmt.target, _ast.Attribute) and
                stmt.target.attr == 'txt' and
                isinstance(stmt.value, _ast.Attribute) and
                stmt.value.attr == 'txt'):
            return
        probe = st.clone()
        ra = list(ex.ev(stmt.target.value, probe, fi))
        if len(ra) != 1:
            raise Unsupported('merge target forks at %d' % stmt.lineno)
        rb = list(ex.ev(stmt.value.value, ra[0][0], fi))
        if len(rb) != 1:
            raise Unsupported('merge source forks at %d' % stmt.lineno)
        p2, b = rb[0]
        a = ra[0][1]
        if not (isinstance(a, Obj) and isinstance(b, Obj) and
                'lang' in a.fields and 'lang' in b.fields):
            return
        ex.prove(p2, 'ml:merge-keeps-language@%d' % stmt.lineno,
                 sym.seq_eq(lift_str(a.fields['lang']),
                            lift_str(b.fields['lang'])), stmt.lineno)
    T.stmt_hooks[U + 'get_txt_pos_ml'] = ml_stmt_hook

    # ---------------------- multi-language tail of tex2txt.tex2txt (C01/C12)
    # mechanically lifted (front.lift_ml_tail): phrase replacement in the
    # parts of the main language, then conversion of every part to 1-based
    # positions.  Ghost `$mlrange`: the position range that EVERY part of
    # EVERY list of the dictionary `ml` satisfies (with len(text) ==
    # len(map)); it is changed only on the exit of a loop whose body
    # contract has been proved for the generic key / part.
    from pyvc import front as _front
    fi_tail = _front.lift_ml_tail(repo)
    if fi_tail is not None:
        TT = 'yalafi.tex2txt.'

        def tail_ghost(ex, st, mode, vals):
            src = fresh_seq('str', 'src', st.assume)
            return {'src': src, 'lo': 0, 'hi': zint(src.ln) - 1}

        class MLResultS(Spec):
            def __init__(self, G):
                self.G = G

            def check(self, ex, st, v, label, line=0):
                rng = st.ghost.get('$mlrange')
                if not isinstance(v, PyDict) or rng is None:
                    ex.prove(st, label + ':ml-result-shape', False, line)
                    return
                ex.prove(st, label + ':parts-one-based-in-file', And(
                    zint(rng[0]) == zint(self.G['lo']) + 1,
                    zint(rng[1]) == zint(self.G['hi']) + 1), line)

        def opts_spec():
            return ObjS(TT + 'Options', {
                'lang': OptS(StrS(name='lang')),
                'repl': OptS(ListS(StrS(name='line'), None, 'repl'))})
        from pyvc.contracts import OptS
        c = T.add(FContract(
            TT + 'tex2txt.<ml_tail>', ghosts=tail_ghost,
            params=lambda G: {'toks': tm.OutList(G['src']),
                              'opts': opts_spec(), 'parms': MLParmsS()},
            result=lambda A: MLResultS(A)))

        def part_ok(part, lo, hi):
            if not (isinstance(part, TokList) and len(part.segs) == 2 and
                    all(isinstance(sg, Single) for sg in part.segs)):
                return False
            txt, pos = part.segs[0].obj, part.segs[1].obj
            if not (sym.is_str(txt) and isinstance(pos, SSeq)):
                return False
            return And(zint(seq_len(txt)) == zint(pos.ln),
                       in_rng(pos, lo, hi))
        # loop 0: for part in ml[main_lang] -- range unchanged
        lp = c.loop(0)
        lp.invs.append(('true', lambda E: True))
        lp.body_post.append(('part-stays-consistent', lambda E0, E1: part_ok(
            E1['part'], E1['lo'], E1['hi'])))
        # loop 1: for lang in ml;  loop 2: for part in ml[lang]
        lp2 = c.loop(2)
        lp2.invs.append(('true', lambda E: True))
        lp2.body_post.append(('part-becomes-one-based', lambda E0, E1: part_ok(
            E1['part'], zint(E1['lo']) + 1, zint(E1['hi']) + 1)))

        def inner_exit(E, st):
            st.ghost['$inner_done'] = st.ghost.get('$inner_done', 0) + 1
        lp2.on_exit = inner_exit
        lp1 = c.loop(1)
        lp1.invs.append(('true', lambda E: True))
        # every key's list went through the inner loop exactly once
        lp1.body_post.append(('inner-loop-ran-for-this-key', lambda E0, E1:
                              bool(E1['$st'].ghost.get('$inner_done', 0) ==
                                   E0['$st'].ghost.get('$inner_done', 0)
                                   + 1)))

        def outer_exit(E, st):
            st.ghost['$mlrange'] = (zint(E['lo']) + 1, zint(E['hi']) + 1)
        lp1.on_exit = outer_exit

        # get_txt_pos_ml as seen from the tail: its result establishes the
        # ghost range (lo, hi)
        gc = T.get(U + 'get_txt_pos_ml')
        prev_eff = gc.effects

        def gml_effects(ex, st, A, prev_eff=prev_eff):
            if prev_eff:
                prev_eff(ex, st, A)
            st.ghost['$mlrange'] = (A['lo'], A['hi'])
        gc.effects = gml_effects

        prev_di = T.dict_iter

        def dict_iter(ex, st, d, prev_di=prev_di):
            if d.tag == 'ml':
                def mk(ex_, st_):
                    k = fresh_seq('str', 'lang', st_.assume)
                    st_.assume(d.has(ex_, st_, k))
                    return k
                return mk
            return prev_di(ex, st, d) if prev_di else NotImplemented
        T.dict_iter = dict_iter

    def dict_store_hook(ex, st, d, k, v, line, prev=T.dict_store_hook):
        if d.tag in ('ml', 'literal'):
            # ret[lang] = [[txt, pos]]: the stored parts keep the invariant
            G = {'lo': st.ghost['lo'], 'hi': st.ghost['hi']}
            ListS(PartS(G), lambda n: zint(n) >= 0).check(
                ex, st, v, 'store:ml-part@%d' % line, line)
            return
        if prev:
            return prev(ex, st, d, k, v, line)
        raise Unsupported('dict store %s' % d.tag)
    T.dict_store_hook = dict_store_hook

    def list_append_hook(ex, st, lst, v, line, prev=T.list_append_hook):
        if any(isinstance(sg, Many) and sg.label == 'parts'
               for sg in lst.segs):
            G = {'lo': st.ghost['lo'], 'hi': st.ghost['hi']}
            PartS(G).check(ex, st, v, 'append:ml-part@%d' % line, line)
        if prev:
            prev(ex, st, lst, v, line)
    T.list_append_hook = list_append_hook
    return T


def _havoc_sec(ex, st, sec, G):
    sec.fields['txt'] = fresh_seq('str', 'stxt', st.assume)
    sec.fields['pos'] = fresh_seq('ilist', 'spos', st.assume)
    for f in ('txt', 'pos'):
        st.writes.append((sec.oid, f))
