"""C17 -- results do not depend on what was processed before (frame check)."""
from props import common as cm
ID = 'C17'
MODS = []
FUNCS = []
LEMMAS_ARE_OBSERVATIONS = False   # a failed frame obligation names the store, no input is replayed


def lemmas():
    from pyvc import frames
    obs, info, reach = frames.check()
    global INFO
    INFO = info
    for o in obs:
        yield o


TRUSTED = ['pyvc/frames.py: syntactic effect analysis (stores, in-place mutators, global declarations, aliases of module-level '
           'objects by simple assignment) and over-approximated call graph (any method of that name; all handlers and module '
           'init functions are callees of the expander)']
ASSUMPTIONS = [
    'the import cache (sys.modules) and what module-level code does at import time',
    'only modules shipped in yalafi/packages and yalafi/documentclasses are loaded; user modules are outside',
    'proofreader I/O (run_languagetool, start_local_lt_server, run_textgears) is excluded: its only state is the flag that the '
    'local LanguageTool server has been started',
    'aliasing of module-level objects other than by direct assignment of a module-level name to a local (e.g. stored into an '
    'object field and mutated later) is not tracked',
    'babel.modify_language_map and shell/addpacks write module-level tables; they are reachable only from the start-up code '
    'of the shell (option parsing), not from the entry points',
]
LEVEL_TEXT = ('Modular frame check over the real AST: every function reachable from tex2txt.tex2txt, '
    'proofreader.run_proofreader_options and server.Handler.create_message (call graph over-approximated, handlers and '
    'package modules included) has the frame "stores to nothing that outlives the call": one obligation per assignment, '
    'augmented assignment, deletion and in-place mutator call; it is discharged when the access path is rooted at a local '
    'object and fails when it is rooted at a module-level name, a global declaration, a mutable default argument, a local '
    'alias of one of those, or an attribute that may hold a default argument object (escape analysis: X.attr = parameter with a mutable literal default; not flagged when the object was built in the same function with that parameter passed explicitly; interprocedural: a local bound to the result of a function that may return such an attribute value -- fixed point, calls resolved by name -- must not be mutated in place). Function values (nested functions passed as arguments) count as call edges. All objects the filter works on (Parameters, Parser, tokens, settings, glossary) are allocated '
    'after entry, so definitions, glossary entries, packages, language settings, placeholder rotation and item counters '
    'cannot leak into the next call.')
LEVEL_NOTE = 'A syntactic effect system, not an SMT proof; aliasing through object fields is not tracked (assumption listed).'
TECHNIQUE = 'contract-based verification of frame conditions: modular effect (modifies-clause) check over the AST of every reachable function'
