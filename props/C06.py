"""C06 -- plain prose is a fixed point; specials follow the table (lemmas)."""
from props import common as cm
ID = 'C06'
MODS = cm.MODS_CORE + ['contracts.c_math']
FOCUS = 'all'
FUNCS = cm.SCANNER + [cm.P + 'expand_sequence', cm.P + 'remove_pure_action_lines', 'yalafi.utils.get_txt_pos']


def SELECT(name):
    return not cm.is_safety(name)

def lemmas():
    from contracts import tokmodel as tm
    p = tm.real_parms()
    V = p.special_tokens
    doc = {'--': '\u2013', '---': '\u2014', '``': '\u201c', "''": '\u201d',
           '~': '\xa0', '\\,': '\u202f', '\\%': '%', '\\&': '&', '\\$': '$',
           '\\#': '#', '\\_': '_', '\\{': '{', '\\}': '}', '\\\\': ' ',
           '&': ' '}
    for k, v in doc.items():
        yield 'table:%r' % k, V.get(k) == v, 'special_tokens[%r] == %r' % (
            k, V.get(k))
    # "every other character is copied unchanged": a table key outside the
    # documented list must start with a LaTeX-active character, otherwise
    # plain prose (no active character) would be rewritten
    active = set('\\{}$&#^_~%')
    extra = sorted(k for k in V if k not in doc and
                   (not k or k[0] not in active))
    shown = ''
    if extra:
        # failing inputs on the real code: prose around the offending key
        import importlib
        t2t = importlib.import_module('yalafi.tex2txt')
        for k in extra[:3]:
            src = 'A' + k + 'B'
            try:
                plain, _ = t2t.tex2txt(src, t2t.Options())
            except Exception as e:      # noqa
                plain = 'exception %r' % (e,)
            shown += '; tex2txt(%r) -> %r' % (src, plain)
    yield ('table:undocumented-keys-start-with-active-char', not extra,
           'keys rewriting plain prose: %r%s' % (extra, shown))
    yield ('table:len(value)<=len(key)',
           all(len(v) <= len(k) for k, v in V.items()), '')
    yield ('table:long-values-equal-key',
           all(v == k for k, v in V.items() if len(v) > 1), '')
    srt = p.scanner.special_tokens_sorted
    yield ('sorted:non-increasing-length',
           all(len(a) >= len(b) for a, b in zip(srt, srt[1:])), '')
    yield 'sorted:permutation-of-keys', sorted(srt) == sorted(V), ''
    ls = p.parser_lang_settings
    yield ('table:active-chars-single-not-percent',
           all(len(c) == 1 and c != '%' for s in ls.values()
               for c in s.active_chars), '')


TRUSTED = cm.TRUSTED_CORE
ASSUMPTIONS = cm.ASSUME_CORE + ['list.sort contract assumed']
LEVEL_TEXT = 'Proves: every scanner token other than an error mark or verbatim material is the source slice at its own offset and the tokens tile the source (so plain prose is tokenised into its own characters); a Special token carries a key of the table that is a prefix of the remaining source; expand_sequence replaces a Special token by a Text token at the same offset whose text is the table value (table lemma by evaluation of the real Parameters object: documented values, len(value) <= len(key), every key outside the documented list starts with a LaTeX-active character so that prose is never rewritten); the default branch appends the token itself; get_txt_pos maps the k-th character of a non-fixed token to pos+k. NOT proved: longest match (needs an index-aware invariant over the sorted key list; the sort order itself is checked by evaluation).'
LEVEL_NOTE = 'Longest-match is covered only by the evaluation lemma "keys sorted by non-increasing length" plus the first-match structure of the loop; identity of remove_pure_action_lines on lists without action tokens is not proved.'
TECHNIQUE = 'contract-based deductive verification: per-function postconditions and loop invariants over the real AST, z3; end-to-end sentence of the property not decided'
