"""C06 -- plain prose is a fixed point; specials follow the table (lemmas)."""
from props import common as cm
ID = 'C06'
MODS = cm.MODS_CORE + ['contracts.c_math']
FOCUS = 'all'
FUNCS = cm.SCANNER + [cm.P + 'expand_sequence', cm.P + 'remove_pure_action_lines', 'yalafi.utils.get_txt_pos']


def SELECT(name):
    return not cm.is_safety(name)

def lemmas():
    from contracts import tokmodel as tm
    p = tm.real_parms()
    V = p.special_tokens
    doc = {'--': '\u2013', '---': '\u2014', '``': '\u201c', "''": '\u201d',
           '~': '\xa0', '\\,': '\u202f', '\\%': '%', '\\&': '&', '\\$': '$',
           '\\#': '#', '\\_': '_', '\\{': '{', '\\}': '}', '\\\\': ' ',
           '&': ' '}
    for k, v in doc.items():
        yield 'table:%r' % k, V.get(k) == v, 'special_tokens[%r] == %r' % (
            k, V.get(k))
    # "every other character is copied unchanged": a table key outside the
    # documented list must start with a LaTeX-active character, otherwise
    # plain prose (no active character) would be rewritten
    active = set('\\{}$&#^_~%')
    extra = sorted(k for k in V if k not in doc and
                   (not k or k[0] not in active))
    shown = ''
    if extra:
        # failing inputs on the real code: prose around the offending key
        import importlib
        t2t = importlib.import_module('yalafi.tex2txt')
        for k in extra[:3]:
            src = 'A' + k + 'B'
            try:
                plain, _ = t2t.tex2txt(src, t2t.Options())
            except Exception as e:      # noqa
                plain = 'exception %r' % (e,)
            shown += '; tex2txt(%r) -> %r' % (src, plain)
    yield ('table:undocumented-keys-start-with-active-char', not extra,
           'keys rewriting plain prose: %r%s' % (extra, shown))
    yield ('table:len(value)<=len(key)',
           all(len(v) <= len(k) for k, v in V.items()), '')
    yield ('table:long-values-equal-key',
           all(v == k for k, v in V.items() if len(v) > 1), '')
    srt = p.scanner.special_tokens_sorted
    yield ('sorted:non-increasing-length',
           all(len(a) >= len(b) for a, b in zip(srt, srt[1:])), '')
    yield 'sorted:permutation-of-keys', sorted(srt) == sorted(V), ''
    ls = p.parser_lang_settings
    yield ('table:active-chars-single-not-percent',
           all(len(c) == 1 and c != '%' for s in ls.values()
               for c in s.active_chars), '')


def longest_match_bounded(seed):
    """the sentence of the property on enumerated short inputs: tex2txt
    against a reference translator (documented table, longest match at each
    offset, every other character copied, 1-based identity positions)"""
    import itertools
    from pyvc import replay as _r
    t2t = _r.real_module('yalafi.tex2txt')
    doc = {'--': '\u2013', '---': '\u2014', '``': '\u201c', "''": '\u201d',
           '~': '\xa0', '\\,': '\u202f', '\\%': '%', '\\&': '&',
           '\\$': '$', '\\#': '#', '\\_': '_', '\\{': '{', '\\}': '}',
           '\\\\': ' ', '&': ' '}
    keys = sorted(doc, key=lambda k: -len(k))

    def ref(src):
        out, pos, i = '', [], 0
        while i < len(src):
            for k in keys:
                if src.startswith(k, i):
                    out += doc[k]
                    pos += [i + 1] * len(doc[k])
                    i += len(k)
                    break
            else:
                out += src[i]
                pos.append(i + 1)
                i += 1
        return out, pos
    spaces = [('a-', 9), ("a`'", 6), ('a-~&', 5), (['a', '\\,', '\\%', '\\&',
                                                    '-'], 4),
              # a double backslash next to blanks and line breaks
              (['a', '\\\\', ' ', '\n'], 5),
              # a special sequence in a line, blanks after the last line break
              (['a', '~', ' ', '\n'], 6)]
    n, fails = 0, []
    for alpha, mx in spaces:
        for ln in range(0, mx + 1):
            for t in itertools.product(alpha, repeat=ln):
                src = ''.join(t)
                n += 1
                want = ref(src)
                def bare(line):
                    for k in keys:
                        line = line.replace(k, '')
                    return line
                if any(l.strip() and not bare(l).strip()
                       for l in src.split('\n')):
                    # a special sequence on an otherwise blank line: that
                    # case belongs to C05, the property excludes it
                    continue
                got = t2t.tex2txt(src, t2t.Options())
                if (got[0], list(got[1])) != want:
                    fails.append({'input': src, 'got': got[0],
                                  'expected': want[0]})
                    if len(fails) >= 3:
                        return {'name': 'longest-match-on-short-inputs',
                                'bounded': True, 'bound': 'see evidence',
                                'evaluations': n, 'failures': fails}
    return {'name': 'longest-match-on-short-inputs', 'bounded': True,
            'bound': 'all strings over {a,-} up to length 9, {a,`,\'} up '
                     'to 6, {a,-,~,&} up to 5, {a,\\,,\\%,\\&,-} up to 4, '
                     '{a,\\\\,blank,newline} up to 5, {a,~,blank,newline} up to 6 '
                     'pieces (inputs with a special sequence on an otherwise '
                     'blank line are skipped: C05)',
            'evaluations': n, 'failures': fails}


QUICK_BOUNDED = [longest_match_bounded]

TRUSTED = cm.TRUSTED_CORE
ASSUMPTIONS = cm.ASSUME_CORE + ['list.sort contract assumed']
LEVEL_TEXT = 'Proves: every scanner token other than an error mark or verbatim material is the source slice at its own offset and the tokens tile the source (so plain prose is tokenised into its own characters); a Special token carries a key of the table that is a prefix of the remaining source; expand_sequence replaces a Special token by a Text token at the same offset whose text is the table value (table lemma by evaluation of the real Parameters object: documented values, len(value) <= len(key), every key outside the documented list starts with a LaTeX-active character so that prose is never rewritten); the default branch appends the token itself; get_txt_pos maps the k-th character of a non-fixed token to pos+k. NOT proved: longest match (needs an index-aware invariant over the sorted key list; the sort order itself is checked by evaluation).'
LEVEL_NOTE = 'A bounded stand-in (real tex2txt against a reference longest-match translator on all short inputs over four small alphabets, reported as bounded, not counted as proved) runs in the quick tier. Deductively, longest-match is covered only by the evaluation lemma "keys sorted by non-increasing length" plus the first-match structure of the loop; identity of remove_pure_action_lines on lists without action tokens is not proved.'
TECHNIQUE = 'contract-based deductive verification: per-function postconditions and loop invariants over the real AST, z3; end-to-end sentence of the property not decided'
