"""C12 -- multi-language mode (lemmas on the section splitter)."""
ID = 'C12'
MODS = ['contracts.c_externs', 'contracts.c_utils', 'contracts.c_ml']
FUNCS = ['yalafi.utils.get_txt_pos_ml', 'yalafi.utils.ml_append_placeholder',
         'yalafi.utils.get_txt_pos']
# the parser's own language stack (placeholders, shorthands, and the hard
# language token that heads every detached flow)
MORE = [(['yalafi.parameters.Parameters.change_parser_lang',
          'yalafi.parameters.Parameters.lang_context_lang'],
         ['contracts.c_externs', 'contracts.c_lang'])]


def lemmas():
    from contracts import tokmodel as tm
    p = tm.real_parms()
    yield ("table:'en'-is-a-parser-language", 'en' in p.parser_lang_settings,
           '')
    yield ('table:initial-language-stack-has-one-entry',
           len(p.parser_lang_stack) == 1 and
           p.parser_lang_stack[-1][0] is p.lang_context, '')
TRUSTED = ['assumed: Parameters.check_parser_lang returns a key of parser_lang_settings; every language setting has a non-empty '
           'lang_change_repl collection (table read by evaluation in C06)']
ASSUMPTIONS = [
    'NOT decided: that every surviving word lies in exactly one part, that the part carries the language in force, and that the '
    'parts together contain the words of the single-language run (summarised lists carry no order / partition information; '
    'the relational statement compares two runs)',
    'the final loops of tex2txt (phrase replacement per part, conversion to 1-based positions) are not under contract: the '
    'composition lemma of C01 is proved for multi_language=False only',
]
LEVEL_TEXT = ('Deductive proof for the section splitter: every section and every returned [text, map] part has len(text) == '
    'len(map) and map entries inside the source (range preserved through merging of sections and through the placeholder of a '
    'short foreign insertion, whose characters take positions of the insertion itself); the language stack never becomes empty '
    '(so the label of a section always exists); the merge loop terminates (variant: number of remaining sections); wherever the text of one section is glued to another (A.txt += B.txt in get_txt_pos_ml) both carry the same language, so the words of B stay in a part of their language; the '
    'placeholder collection keeps its length under rotation; Parameters.change_parser_lang keeps the parser language stack non-empty, a closing switch pops (never the initial entry), a hard switch replaces exactly the top entry, a soft switch pushes, afterwards the top entry carries the language of the token and lang_context is the settings object of the top entry; lang_context_lang returns the language of the top entry; all subscripts (sections[1], sections[2], incl.pos[start], '
    'incl.txt[-1], repl[0]) are safe.')
LEVEL_NOTE = 'Lemma level only; the end-to-end sentence of C12 is not decided by this technique.'
TECHNIQUE = 'contract-based deductive verification: object invariant on language sections, loop invariants and variant, z3'
