"""C12 -- multi-language mode (lemmas on the section splitter)."""
ID = 'C12'
MODS = ['contracts.c_externs', 'contracts.c_utils', 'contracts.c_ml']
FUNCS = ['yalafi.utils.get_txt_pos_ml', 'yalafi.utils.ml_append_placeholder',
         'yalafi.utils.get_txt_pos']
# the parser's own language stack (placeholders, shorthands, and the hard
# language token that heads every detached flow)
MORE = [(['yalafi.parameters.Parameters.change_parser_lang',
          'yalafi.parameters.Parameters.lang_context_lang'],
         ['contracts.c_externs', 'contracts.c_lang']),
        # the multi-language tail of tex2txt.tex2txt, lifted mechanically
        (['yalafi.tex2txt.tex2txt.<ml_tail>'],
         ['contracts.c_externs', 'contracts.c_utils', 'contracts.c_tex2txt',
          'contracts.c_ml'])]


def words_and_labels_bounded(seed):
    """the sentence of the property on enumerated small documents: up to 4
    pieces from a catalogue (words, short and long \\foreignlanguage,
    \\selectlanguage, otherlanguage environments incl. two switches on one
    line, a footnote, a paragraph break); every word of the document must
    appear in exactly one returned part, and that part must carry the
    language in force at the word according to a stack semantics computed
    independently"""
    import itertools
    import re
    from pyvc import replay as _r
    t2t = _r.real_module('yalafi.tex2txt')
    babel = _r.real_module('yalafi.packages.babel')
    code = {k: babel.language_map[k] for k in ('english', 'german',
                                               'french')}
    counter = [0]

    def w():
        counter[0] += 1
        return 'w' + 'abcdefghij'[counter[0] // 10 % 10] + \
            'abcdefghij'[counter[0] % 10] + 'x'

    def piece(kind, stack, out):
        """-> source text; appends (word, language) to out"""
        def words(k, lang):
            ws = [w() for _ in range(k)]
            out.extend((x, lang) for x in ws)
            return ' '.join(ws)
        if kind == 'W':
            return words(1, stack[-1]) + ' '
        if kind == 'Fs':
            return '\\foreignlanguage{german}{%s} ' % words(2, 'german')
        if kind == 'Fl':
            return '\\foreignlanguage{french}{%s} ' % words(5, 'french')
        if kind == 'Fm':
            # a long insertion that ends with a known macro without
            # arguments: the closing switch follows the macro directly
            return '\\foreignlanguage{french}{%s \\LaTeX} ' % words(
                5, 'french')
        if kind == 'FO':
            # an otherlanguage environment as the last thing inside a long
            # insertion: two closing switches follow each other
            return ('\\foreignlanguage{french}{%s\n'
                    '\\begin{otherlanguage}{german}\n%s\n'
                    '\\end{otherlanguage}\n} ' % (words(5, 'french'),
                                                  words(5, 'german')))
        if kind == 'Sde':
            stack[-1] = 'german'
            return '\n\\selectlanguage{german}\n'
        if kind == 'Sen':
            stack[-1] = 'english'
            return '\n\\selectlanguage{english}\n'
        if kind == 'O':
            return ('\n\\begin{otherlanguage}{french}\n%s\n'
                    '\\end{otherlanguage}\n' % words(2, 'french'))
        if kind == 'OO':
            return ('\n\\begin{otherlanguage}{german}\n%s\n'
                    '\\end{otherlanguage}\\begin{otherlanguage}{french}\n'
                    '%s\n\\end{otherlanguage}\n' % (
                        words(2, 'german'), words(2, 'french')))
        if kind == 'On':
            return ('\n\\begin{otherlanguage}{german}\n%s '
                    '\\foreignlanguage{german}{%s} %s\n'
                    '\\end{otherlanguage}\n' % (
                        words(2, 'german'), words(1, 'german'),
                        words(3, 'german')))
        if kind == 'FN':
            return '%s\\footnote{%s} ' % (words(1, stack[-1]),
                                           words(2, stack[-1]))
        if kind == 'P':
            return '\n\n'
    kinds = ['W', 'Fs', 'Fl', 'Sde', 'Sen', 'O', 'OO', 'On', 'FN', 'P', 'Fm',
             'FO']
    n, fails = 0, []
    for ln in range(1, 5):
        for combo in itertools.product(kinds, repeat=ln):
            h = sum((i + 1) * (kinds.index(k) + 3) for i, k in
                    enumerate(combo)) + seed
            if ln == 3 and h % 4:
                continue
            if ln == 4 and h % 60:
                continue
            counter[0] = 0
            # three ways of fixing the main language: the last babel
            # option; a package option after a class option (the package
            # option wins); the same with the roles exchanged
            pre, main = [
                ('\\usepackage[german,french,english]{babel}\n', 'english'),
                ('\\documentclass[german]{article}\n'
                 '\\usepackage[french,english]{babel}\n', 'english'),
                ('\\documentclass[english]{article}\n'
                 '\\usepackage[french,german]{babel}\n', 'german'),
            ][h % 3]
            stack, exp = [main], []
            body = 'wstartx '
            exp.append(('wstartx', main))
            for k in combo:
                body += piece(k, stack, exp)
            src = pre + body + ' ' + 'wendx\n'
            exp.append(('wendx', stack[-1]))
            n += 1
            try:
                ml = t2t.tex2txt(src, t2t.Options(lang='en-GB',
                                                  pack='babel'),
                                 multi_language=True)
            except Exception as e:      # noqa
                fails.append({'input': src, 'why': repr(e)})
                continue
            why = None
            for word, lang in exp:
                hits = [c for c, parts in ml.items() for p in parts
                        if re.search(r'\b%s\b' % word, p[0])]
                if len(hits) != 1:
                    why = 'word %s appears in %d parts' % (word, len(hits))
                    break
                if hits[0] != code[lang]:
                    why = 'word %s (language in force %s) is in a part ' \
                        'labelled %s' % (word, code[lang], hits[0])
                    break
            if why:
                fails.append({'input': src, 'why': why})
                if len(fails) >= 3:
                    break
        if len(fails) >= 3:
            break
    return {'name': 'every-word-in-one-part-of-its-language',
            'bounded': True,
            'bound': 'all documents of 1-2 pieces, a 4th of those with 3 '
                     'and a 60th of those with 4 pieces over 12 piece kinds',
            'evaluations': n, 'failures': fails}


QUICK_BOUNDED = [words_and_labels_bounded]


def lemmas():
    from contracts import tokmodel as tm
    p = tm.real_parms()
    yield ("table:'en'-is-a-parser-language", 'en' in p.parser_lang_settings,
           '')
    yield ('table:initial-language-stack-has-one-entry',
           len(p.parser_lang_stack) == 1 and
           p.parser_lang_stack[-1][0] is p.lang_context, '')
TRUSTED = ['assumed: Parameters.check_parser_lang returns a key of parser_lang_settings; every language setting has a non-empty '
           'lang_change_repl collection (table read by evaluation in C06)']
ASSUMPTIONS = [
    'NOT decided: that every surviving word lies in exactly one part, that the part carries the language in force, and that the '
    'parts together contain the words of the single-language run (summarised lists carry no order / partition information; '
    'the relational statement compares two runs)',
    'the final loops of tex2txt (phrase replacement in the parts of the main language, conversion to 1-based positions) are '
    'proved on the mechanically lifted tail of tex2txt.tex2txt (front.lift_ml_tail); the ghost "every part of every list of '
    'the dictionary lies in range R" changes only at loop exits whose body contract is proved for the generic key / part',
]
LEVEL_TEXT = ('The tail of tex2txt.tex2txt for multi_language=True returns only parts with len(text) == len(map) and 1-based positions inside the source (phrase replacement keeps a part consistent, every list of every language goes through the +1 conversion exactly once). Deductive proof for the section splitter: every section and every returned [text, map] part has len(text) == '
    'len(map) and map entries inside the source (range preserved through merging of sections and through the placeholder of a '
    'short foreign insertion, whose characters take positions of the insertion itself); the language stack never becomes empty '
    '(so the label of a section always exists); the merge loop terminates (variant: number of remaining sections); wherever the text of one section is glued to another (A.txt += B.txt in get_txt_pos_ml) both carry the same language, so the words of B stay in a part of their language; the '
    'placeholder collection keeps its length under rotation; Parameters.change_parser_lang keeps the parser language stack non-empty, a closing switch pops (never the initial entry), a hard switch replaces exactly the top entry, a soft switch pushes, afterwards the top entry carries the language of the token and lang_context is the settings object of the top entry; lang_context_lang returns the language of the top entry; all subscripts (sections[1], sections[2], incl.pos[start], '
    'incl.txt[-1], repl[0]) are safe.')
LEVEL_NOTE = 'Lemma level only; the end-to-end sentence of C12 is not decided by this technique.'
TECHNIQUE = 'contract-based deductive verification: object invariant on language sections, loop invariants and variant, z3'
