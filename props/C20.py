"""C20 -- the shell's own checks mark the offending characters (arithmetic
part)."""
ID = 'C20'
MODS = ['contracts.c_externs', 'contracts.c_utils', 'contracts.c_shell']
FUNCS = ['yalafi.shell.checks.create_context',
         'yalafi.shell.checks.create_message',
         'yalafi.shell.checks.create_single_letter_matches.<locals>.f',
         # the shell's own messages are shifted like those of the
         # proofreader when the text was split into parts
         'yalafi.shell.proofreader.run_proofreader_options']


def SELECT(name):
    if 'run_proofreader_options' in name:
        return 'offset-shift' in name or 'offset-shifted' in name
    return True

def accept_list_bounded(seed):
    """the start-up statements of shell.py that expand a trailing `||` of
    --single-letters into the placeholder collections (module level, lifted
    mechanically: from `lc = parameters.Parameters(...)` to the `if
    cmdline.single_letters ...` statement, compiled as they are): for every
    shipped language x multi-language on/off x a few option values the
    alternatives of the resulting pattern are exactly the user's
    alternatives plus every placeholder of the collections in force"""
    import ast
    import types
    from pyvc import front
    from pyvc import replay as _r
    repo = front.repo()
    mi = repo.modules['yalafi.shell.shell']
    body = mi.tree.body

    def is_lc(n):
        return isinstance(n, ast.Assign) and \
            ast.unparse(n.targets[0]) == 'lc'

    def is_sl(n):
        return isinstance(n, ast.If) and 'single_letters' in \
            ast.unparse(n.test)
    i0 = next(i for i, n in enumerate(body) if is_lc(n))
    i1 = next(i for i, n in enumerate(body) if i > i0 and is_sl(n))
    code = compile(ast.Module(body=body[i0:i1 + 1], type_ignores=[]),
                   mi.path, 'exec')
    parameters = _r.real_module('yalafi.parameters')
    langs = sorted(parameters.Parameters().parser_lang_settings)
    n, fails = 0, []
    for lang in langs:
        for ml in (False, True):
            for sl in ('||', 'A|a||', 'i.\\,e.|e.\\,g.||', 'A|a', None):
                n += 1
                cmd = types.SimpleNamespace(language=lang, multi_language=ml,
                                            single_letters=sl)
                g = {'cmdline': cmd, 'parameters': parameters}
                try:
                    exec(code, g)
                except Exception as e:      # noqa
                    fails.append({'language': lang, 'multi_language': ml,
                                  'single_letters': sl,
                                  'why': 'exception %r' % (e,)})
                    continue
                got = cmd.single_letters
                if sl is None or not sl.endswith('||'):
                    ok = got == sl
                    want = sl
                else:
                    lc = parameters.Parameters(lang).lang_context
                    ph = (lc.math_repl_display + lc.math_repl_display_vowel +
                          lc.math_repl_inline + lc.math_repl_inline_vowel)
                    if ml:
                        ph = ph + lc.lang_change_repl + \
                            lc.lang_change_repl_vowel
                    want = set(x for x in sl.split('|') if x) | set(ph)
                    ok = set(x for x in got.split('|') if x) == want
                    want = sorted(want)
                if not ok:
                    fails.append({'language': lang, 'multi_language': ml,
                                  'single_letters': sl, 'result': got,
                                  'expected_alternatives': want})
    return {'name': 'accept-list-expansion-of-trailing-bars',
            'bounded': True,
            'bound': '%d shipped languages x multi-language on/off x 5 '
                     'option values (the placeholder tables are finite and '
                     'real; the option value is sampled)' % len(langs),
            'evaluations': n, 'failures': fails[:3]}


def _single_letters(seed):
    from props import bounded
    return bounded.c20_single_letters(seed)


def _equation_punct(seed):
    from props import bounded
    return bounded.c20_equation_punct(seed)


def context_excerpt_bounded(seed):
    """create_context (proved above for the code as it stood; a rewrite with
    str.translate / module-level tables is outside the generator): the
    excerpt is part of the text (tab and line break shown as blanks) between
    two ellipses, and offset / length mark, inside the excerpt, the first
    characters of the flagged span -- texts of length 0..130 with tabs and
    line breaks, every 7th offset, six lengths"""
    from pyvc import replay as _r
    ch = _r.real_module('yalafi.shell.checks')
    base = ('ab c\td e\nfg hij klm nop qrs tuv wxy z01 234 567 89A BCD EFG '
            'HIJ KLM NOP QRS TUV WXY Zab cde fgh ijk lmn opq rst uvw xyz 012 '
            '345 678 9')
    n, fails = 0, []
    for tl in (0, 1, 5, 44, 45, 46, 89, 90, 91, 130):
        txt = base[:tl]
        for off in range(0, max(tl, 1), 7):
            for ln in (0, 1, 10, 44, 46, 75):
                if off + ln > tl:
                    continue
                n += 1
                try:
                    c = ch.create_context(txt, off, ln)
                    t, o, l_ = c['text'], c['offset'], c['length']
                    inner = t[3:len(t) - 3]
                    norm = txt.replace('\t', ' ').replace('\n', ' ')
                    why = None
                    if not (t.startswith('...') and t.endswith('...')):
                        why = 'no ellipses'
                    elif inner not in norm:
                        why = 'excerpt is not part of the text'
                    elif not (3 <= o and o + l_ <= len(t) - 3 and l_ <= ln):
                        why = 'marks [%d, %d) outside the excerpt [3, %d)' \
                            % (o, o + l_, len(t) - 3)
                    elif t[o:o + l_] != norm[off:off + l_]:
                        why = 'marked %r, flagged %r' % (
                            t[o:o + l_], norm[off:off + l_])
                    elif ln > 0 and l_ == 0 and off < tl:
                        why = 'nothing marked'
                except Exception as e:      # noqa
                    why = 'exception %r' % (e,)
                if why:
                    fails.append({'text_length': tl, 'offset': off,
                                  'length': ln, 'why': why})
                    if len(fails) >= 3:
                        break
            if len(fails) >= 3:
                break
        if len(fails) >= 3:
            break
    return {'name': 'context-excerpt-marks-the-flagged-characters',
            'bounded': True,
            'bound': '10 text lengths <= 130, every 7th offset, 6 lengths',
            'evaluations': n, 'failures': fails}


QUICK_BOUNDED = [accept_list_bounded, _single_letters, _equation_punct,
                 context_excerpt_bounded]

TRUSTED = ['assumed contract of re.Match: 0 <= start <= end <= len(string), group(0) == string[start:end]',
           'str.replace of one character by one character is a character-wise map (pyvc/builtins.py)']
ASSUMPTIONS = ['the expansion of a trailing || of --single-letters (module-level start-up code of shell.py) is covered by a bounded stand-in only (real statements, real tables, sampled option values)',
               'which letters / placeholders the two regular expressions of checks.py select (and the accept-pattern filter) is '
               'regex semantics and not decided by a contract']
LEVEL_TEXT = ('Deductive proof of the offset/length/context arithmetic: create_message reports offset == start and length == '
    'len(match); create_context returns an excerpt in which text[offset\':offset\'+length\'] are exactly the flagged characters '
    '(TAB/NL blanked) and the marker never runs past the excerpt, for all texts, offsets and lengths; the cover test of --single-letters (inner function f) returns True exactly when the start of the letter lies in [beg, end) of some hit (loop invariant over the hit list as ghost arrays). in run_proofreader_options every message collected for a part, the shell\'s own ones included, goes through the loop that shifts its offset by the text before the part. Which characters the '
    'regular expressions select is NOT decided.')
LEVEL_NOTE = 'Regex meaning (isolated letters, accepted patterns, equation placeholders) outside the proof.'
TECHNIQUE = 'contract-based deductive verification: array-encoded strings, VCs from the real AST, z3'
