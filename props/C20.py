"""C20 -- the shell's own checks mark the offending characters (arithmetic
part)."""
ID = 'C20'
MODS = ['contracts.c_externs', 'contracts.c_utils', 'contracts.c_shell']
FUNCS = ['yalafi.shell.checks.create_context',
         'yalafi.shell.checks.create_message',
         'yalafi.shell.checks.create_single_letter_matches.<locals>.f']
TRUSTED = ['assumed contract of re.Match: 0 <= start <= end <= len(string), group(0) == string[start:end]',
           'str.replace of one character by one character is a character-wise map (pyvc/builtins.py)']
ASSUMPTIONS = ['which letters / placeholders the two regular expressions of checks.py select (and the accept-pattern filter) is '
               'regex semantics and not decided by a contract']
LEVEL_TEXT = ('Deductive proof of the offset/length/context arithmetic: create_message reports offset == start and length == '
    'len(match); create_context returns an excerpt in which text[offset\':offset\'+length\'] are exactly the flagged characters '
    '(TAB/NL blanked) and the marker never runs past the excerpt, for all texts, offsets and lengths; the cover test of --single-letters (inner function f) returns True exactly when the start of the letter lies in [beg, end) of some hit (loop invariant over the hit list as ghost arrays). Which characters the '
    'regular expressions select is NOT decided.')
LEVEL_NOTE = 'Regex meaning (isolated letters, accepted patterns, equation placeholders) outside the proof.'
TECHNIQUE = 'contract-based deductive verification: array-encoded strings, VCs from the real AST, z3'
