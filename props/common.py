"""Function sets and shared texts of the property checks."""
MODS_CORE = ['contracts.c_externs', 'contracts.c_utils', 'contracts.c_scanner',
             'contracts.c_parser', 'contracts.c_tex2txt']
S = 'yalafi.scanner.Scanner.'
B = 'yalafi.scanner.Buffer.'
P = 'yalafi.parser.Parser.'
U = 'yalafi.utils.'
SCANNER = [S + n for n in ('scan', 'next_token', 'scan_comment', 'scan_space',
                           'scan_macro', 'scan_arg_token', 'scan_verb',
                           'scan_verbatim')]
BUFFER = [B + n for n in ('cur', 'next', 'back', 'skip_space', 'look_ahead')]
PARSER = [P + n for n in (
    'parser_work', 'parse', 'expand_sequence', 'arg_buffer', 'expand_macro',
    'expand_arguments', 'generate_replacements', 'expand_accent',
    'begin_environment', 'end_environment', 'get_environment_name',
    'expand_verb_env_token', 'parse_newline_option', 'get_text_expanded',
    'remove_pure_action_lines', 'expand_item', 'expand_short_macro',
    'parse_def_macro')] + [
    P + 'remove_pure_action_lines.<locals>.eval',
    'yalafi.defs.Expandable.__init__.<locals>.check']
UTILS = [U + n for n in ('get_txt_pos', 'latex_error', 'filter_set_toks',
                         'replace_phrases', 'substitute')]
TEX2TXT = ['yalafi.tex2txt.tex2txt']

TRUSTED_CORE = [
    'Python semantics as encoded by pyvc: mathematical integers; str and '
    'list[int] as (Array Int Int, length); heap objects with python-side '
    'identity; summarised token lists (every element satisfies the list '
    'predicate)',
    'assumed contracts of standard-library functions: copy.copy (shallow, '
    'new object), re.finditer (ordered non-overlapping matches), re.escape, '
    'unicodedata.lookup (one character or raises), sys.stderr.write, '
    'str.strip/split/isspace/isalpha/isdecimal/count/find/rfind axioms of '
    'pyvc/builtins.py',
    'table lemmas are decided by evaluating the real Parameters() object of '
    'the tree under check (special_tokens)',
]
ASSUME_CORE = [
    'partial correctness only: termination of the expander is not proved '
    '(scanner loop has a proved variant)',
    'Parser and Parameters constructors, tex2txt.get_packages, module '
    'loading (utils.get_module_handler, Parser.init_package) are assumed to '
    'establish ParserInv / MacInv; user extension modules are outside',
    'multi-language mode (get_txt_pos_ml) is covered by separate lemmas, '
    'the composition lemma of tex2txt is proved for multi_language=False',
    'a token attribute environ read on a MathBeginToken is an EquEnv object '
    'satisfying MacInv',
]


def is_safety(name):
    return (':safe:' in name or ':call:fatal' in name or
            ':variant-decreases' in name or 'does-not-return' in name or
            ':engine:' in name)


def documented_fatal(name):
    # C07 excludes the documented fatal-error exit (redefinition of the
    # default equation environment, parser.py expand_sequence)
    return 'Parser.expand_sequence:call:fatal' in name
