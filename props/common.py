"""Function sets and shared texts of the property checks."""
MODS_CORE = ['contracts.c_externs', 'contracts.c_utils', 'contracts.c_scanner',
             'contracts.c_parser', 'contracts.c_tex2txt',
             'contracts.c_handlers']
S = 'yalafi.scanner.Scanner.'
B = 'yalafi.scanner.Buffer.'
P = 'yalafi.parser.Parser.'
U = 'yalafi.utils.'
SCANNER = [S + n for n in ('scan', 'next_token', 'error_token', 'scan_comment', 'scan_space',
                           'scan_macro', 'scan_arg_token', 'scan_verb',
                           'scan_verbatim')]
BUFFER = [B + n for n in ('cur', 'next', 'back', 'skip_space', 'look_ahead')]
PARSER = [P + n for n in (
    'parser_work', 'parse', 'expand_sequence', 'arg_buffer', 'expand_macro',
    'expand_arguments', 'generate_replacements', 'expand_accent',
    'begin_environment', 'end_environment', 'get_environment_name',
    'expand_verb_env_token', 'parse_newline_option', 'get_text_expanded',
    'remove_pure_action_lines', 'expand_item', 'expand_short_macro',
    'parse_def_macro')] + [
    P + 'remove_pure_action_lines.<locals>.eval',
    'yalafi.defs.Expandable.__init__.<locals>.check']
UTILS = [U + n for n in ('get_txt_pos', 'latex_error', 'filter_set_toks',
                         'replace_phrases', 'substitute')]
TEX2TXT = ['yalafi.tex2txt.tex2txt']

TRUSTED_CORE = [
    'Python semantics as encoded by pyvc: mathematical integers; str and '
    'list[int] as (Array Int Int, length); heap objects with python-side '
    'identity; summarised token lists (every element satisfies the list '
    'predicate)',
    'assumed contracts of standard-library functions: copy.copy (shallow, '
    'new object), re.finditer (ordered non-overlapping matches), re.escape, '
    'unicodedata.lookup (one character or raises), sys.stderr.write, '
    'str.strip/split/isspace/isalpha/isdecimal/count/find/rfind axioms of '
    'pyvc/builtins.py',
    'table lemmas are decided by evaluating the real Parameters() object of '
    'the tree under check (special_tokens)',
]
ASSUME_CORE = [
    'partial correctness only: termination of the expander is not proved '
    '(scanner loop has a proved variant)',
    'Parser and Parameters constructors, tex2txt.get_packages, module '
    'loading (utils.get_module_handler, Parser.init_package) are assumed to '
    'establish ParserInv / MacInv; user extension modules are outside',
    'multi-language mode: get_txt_pos_ml and the lifted tail of tex2txt are '
    'proved in C01 / C12 (separate contract modules)',
    'a token attribute environ read on a MathBeginToken is an EquEnv object '
    'satisfying MacInv',
]


def is_safety(name):
    return (':safe:' in name or ':call:fatal' in name or
            ':variant-decreases' in name or 'does-not-return' in name or
            ':engine:' in name)


def documented_fatal(name):
    # C07 excludes the documented fatal-error exit (redefinition of the
    # default equation environment, parser.py expand_sequence)
    return ('Parser.expand_sequence:call:fatal' in name or
            # recursive \\LTinput: clean fatal exit (C07 excludes recursion)
            'handlers.h_load_defs:call:fatal' in name or
            # the run-time guard of macro definitions ("illegal argument
            # reference"): a clean fatal exit by design
            'Expandable.__init__.<locals>.check:call:fatal' in name)


H = 'yalafi.handlers.'
PK = 'yalafi.packages.'
HANDLERS = [
    H + 'h_newcommand', H + 'h_theorem.<locals>.handler', H + 'h_newtheorem',
    H + 'h_heading', H + 'h_phantom', H + 'h_hspace', H + 'h_cite',
    H + 'h_load_defs', H + 'h_load_module.<locals>.f',
    PK + 'babel.h_foreignlanguage', PK + 'babel.h_selectlanguage',
    PK + 'babel.h_begin_otherlang', PK + 'babel.h_end_otherlang',
    PK + 'babel.h_end_otherlang_star', PK + 'biblatex.h_cite',
    PK + 'biblatex.h_footcite', PK + 'amsthm.h_proof',
    PK + 'xspace.h_xspace', PK + 'cleveref.h_make_cref.<locals>.f',
    PK + 'cleveref.h_make_crefrange.<locals>.f',
    PK + 'cleveref.h_cref_warning', PK + 'glossaries.h_gls.<locals>.f',
    PK + 'glossaries.h_parse_glsdefs', PK + 'glossaries.get_tokens',
    PK + 'glossaries.cap_all', PK + 'glossaries.cap_all.<locals>.f',
    PK + 'glossaries.modify_description', PK + 'glossaries.h_newacronym',
    PK + 'glossaries.h_newglossaryentry',
]
# handlers stored in repl=/end_func= slots that are NOT under contract
# (represented by the generic contract H only): reported in the evidence
HANDLERS_ASSUMED = [
    PK + 'amsmath.h_substack (generator iter_token_levels)',
    PK + 'cleveref.h_read_sed (regex driven sed parser)',
    'yalafi.shell.addpacks.init_module.<locals>.add',
]


def decl_lemmas():
    """`decl:` obligations (by evaluation): every Macro/Environ/EquEnv
    declaration in the sources whose repl/end_func is a handler under
    contract satisfies that handler's CodeReq on its literal args string"""
    import ast
    from pyvc import front
    from contracts.c_handlers import CODEREQ, codereq_concrete
    repo = front.repo()
    out = []
    seen_unknown = set()
    for mi in repo.modules.values():
        for node in ast.walk(mi.tree):
            if not (isinstance(node, ast.Call) and (
                    (isinstance(node.func, ast.Name) and node.func.id in
                     ('Macro', 'Environ', 'EquEnv')) or
                    (isinstance(node.func, ast.Attribute) and
                     node.func.attr in ('Macro', 'Environ', 'EquEnv')))):
                continue
            kw = {k.arg: k.value for k in node.keywords}
            code = ''
            if 'args' in kw:
                if not isinstance(kw['args'], ast.Constant):
                    continue        # computed code string (checked by MacInv)
                code = kw['args'].value
            for slot in ('repl', 'end_func'):
                v = kw.get(slot)
                if v is None or isinstance(v, ast.Constant):
                    continue
                q = _handler_qual(repo, mi, v)
                if q is None:
                    continue
                name = '%s:%d:%s=%s' % (mi.name, node.lineno, slot, q)
                if q not in CODEREQ:
                    seen_unknown.add(q)
                    continue
                if slot == 'end_func':
                    ok = True
                else:
                    ok = codereq_concrete(CODEREQ[q], code)
                out.append(('decl:' + name, ok,
                            'args=%r requires %r' % (code, CODEREQ[q])))
    return out, sorted(seen_unknown)


def _handler_qual(repo, mi, v):
    import ast
    call = isinstance(v, ast.Call)
    f = v.func if call else v
    r = None
    if isinstance(f, ast.Name):
        r = repo.resolve_name(mi, f.id)
    elif isinstance(f, ast.Attribute) and isinstance(f.value, ast.Name):
        r = repo.resolve_module_attr(mi, f.value.id, f.attr)
    if not r or r[0] != 'func':
        return None
    q = r[1]
    if call:
        inner = [k for k in repo.funcs if k.startswith(q + '.<locals>.')]
        return inner[0] if inner else None
    return q

MATH = ['yalafi.mathparser.MathParser.' + n for n in (
    'expand_inline_math', 'expand_display_math', 'expand_math_section',
    'replace_section')]
