"""C05 -- text flow (layout lemmas only)."""
from props import common as cm
ID = 'C05'
MODS = cm.MODS_CORE + ['contracts.c_math']
FOCUS = 'range'
FUNCS = cm.SCANNER + cm.BUFFER + [cm.P + 'remove_pure_action_lines', cm.P + 'expand_macro', cm.P + 'arg_buffer']


def SELECT(name):
    return not cm.is_safety(name)

TRUSTED = cm.TRUSTED_CORE
ASSUMPTIONS = cm.ASSUME_CORE + ['paragraph structure of whole documents is not decided']
LEVEL_TEXT = 'Proves layout lemmas: scan_space returns a Paragraph token iff the maximal white-space run contains at least two line breaks (else a Space token) and covers exactly that run; scan_comment swallows at most one line break and only white space after it, so a blank line after a comment survives; Buffer.skip_space / look_ahead consume only tokens of the space classes (Space, Comment, Action, Void, Language) -- a Paragraph token is returned, never skipped; look_ahead leaves the buffer length unchanged; remove_pure_action_lines only shortens the first/last token of a removed line and keeps every token inside the text. NOT decided: preservation of the number of paragraph breaks between two words for all layouts.'
LEVEL_NOTE = 'The only specification of the blank-line removal short of restating the algorithm is the algorithm; its deletion-only / needs-an-action-token clauses are not proved yet.'
TECHNIQUE = 'contract-based deductive verification: per-function postconditions and loop invariants over the real AST, z3; end-to-end sentence of the property not decided'
