"""C05 -- text flow (layout lemmas only)."""
from props import common as cm
ID = 'C05'
MODS = cm.MODS_CORE + ['contracts.c_math']
FOCUS = 'range'
FUNCS = cm.SCANNER + cm.BUFFER + [cm.P + 'remove_pure_action_lines', cm.P + 'expand_macro', cm.P + 'arg_buffer']


def SELECT(name):
    return not cm.is_safety(name)

def paragraphs_small_layouts(seed):
    """the sentence of the property on enumerated layouts: two words with up
    to four separating pieces between them (blanks, line breaks, blank
    lines with and without blanks in them, comments, vanishing macros,
    \\par); expected: a paragraph break in the output iff the source has a
    blank line or \\par between the words, otherwise the words stay
    separated by white space without a blank line"""
    import itertools
    import re
    from pyvc import replay as _r
    t2t = _r.real_module('yalafi.tex2txt')
    pieces = [' ', '\n', '\n\n', '\n \n', '%c\n', '\\label{x}',
              '\\index{y}', '\\unknownmacro ', '  ', '\\par ',
              '\n\t\n', '%\n',
              # a known macro whose argument is copied, closing brace on a
              # line of its own (the brace vanishes, the line must not
              # become a paragraph break)
              '\\framebox{wq\n}\n', '\\LTadd{wq\n  }\n  ']
    n, fails = 0, []
    for ln in range(0, 5):
        for combo in itertools.product(range(len(pieces)), repeat=ln):
            if ln == 3 and (sum(combo) + seed) % 4:
                continue
            if ln == 4 and (sum(combo) * 7 + seed) % 61:
                continue
            sep = ''.join(pieces[i] for i in combo)
            src = 'Aaa ' + sep + 'Bbb\n'
            n += 1
            try:
                got = t2t.tex2txt(src, t2t.Options())[0]
            except Exception as e:      # noqa
                fails.append({'input': src, 'why': repr(e)})
                continue
            m = re.fullmatch(r'Aaa((?:.|\n)*)Bbb\n', got)
            # a blank line is a line of white space only (a comment line is
            # not blank)
            want_break = bool(re.search(r'\n[ \t]*\n', src)) or \
                '\\par' in sep
            why = None
            if not m:
                why = 'words lost or text added: %r' % got
            else:
                mid = m.group(1)
                has_break = bool(re.search(r'\n[ \t]*\n', mid))
                if mid.replace('wq', '').strip():
                    why = 'text between the words: %r' % mid
                elif not mid:
                    why = 'words glued'
                elif has_break != want_break:
                    why = 'paragraph break %s, expected %s (output %r)' % (
                        has_break, want_break, got)
            if why:
                fails.append({'input': src, 'why': why})
                if len(fails) >= 5:
                    break
        if len(fails) >= 5:
            break
    # the same inside detached text flows (footnote, caption): separators
    # of <= 3 pieces between two words of the argument
    for mac in ('\\footnote', '\\caption'):
        for ln in range(0, 4):
            if len(fails) >= 5:
                break
            for combo in itertools.product(range(len(pieces)), repeat=ln):
                if ln == 3 and (sum(combo) + seed) % 2:
                    continue
                sep = ''.join(pieces[i] for i in combo)
                if 'LTadd' in sep or 'framebox' in sep:
                    continue
                src = 'Main' + mac + '{Ccc ' + sep + 'Ddd} text.\n'
                n += 1
                try:
                    got = t2t.tex2txt(src, t2t.Options())[0]
                except Exception as e:      # noqa
                    fails.append({'input': src, 'why': repr(e)})
                    continue
                m = re.search(r'Ccc((?:.|\n)*)Ddd', got)
                want_break = bool(re.search(r'\n[ \t]*\n', sep)) or \
                    '\\par' in sep
                why = None
                if not m:
                    why = 'words of the flow lost: %r' % got
                else:
                    mid = m.group(1)
                    has_break = bool(re.search(r'\n[ \t]*\n', mid))
                    if mid.strip():
                        why = 'text between the words: %r' % mid
                    elif not mid:
                        why = 'words glued'
                    elif has_break != want_break:
                        why = 'paragraph break %s in the detached flow, ' \
                            'expected %s (output %r)' % (has_break,
                                                         want_break, got)
                if why:
                    fails.append({'input': src, 'why': why})
                    if len(fails) >= 5:
                        break
    return {'name': 'paragraph-structure-on-small-layouts', 'bounded': True,
            'bound': 'all separators of <= 2 pieces, a 4th of those with 3 '
                     'and a 61st of those with 4 pieces over 14 pieces; '
                     'inside footnote / caption arguments all of <= 2 pieces, half of '
                     'those with 3',
            'evaluations': n, 'failures': fails}


QUICK_BOUNDED = [paragraphs_small_layouts]

TRUSTED = cm.TRUSTED_CORE
ASSUMPTIONS = cm.ASSUME_CORE + ['paragraph structure of whole documents is not decided']
LEVEL_TEXT = 'Proves layout lemmas: scan_space returns a Paragraph token iff the maximal white-space run contains at least two line breaks (else a Space token) and covers exactly that run; scan_comment swallows at most one line break and only white space after it, so a blank line after a comment survives; Buffer.skip_space / look_ahead consume only tokens of the space classes (Space, Comment, Action, Void, Language) -- a Paragraph token is returned, never skipped; look_ahead leaves the buffer length unchanged; remove_pure_action_lines only shortens the first/last token of a removed line and keeps every token inside the text. NOT decided: preservation of the number of paragraph breaks between two words for all layouts.'
LEVEL_NOTE = 'The only specification of the blank-line removal short of restating the algorithm is the algorithm; its deletion-only / needs-an-action-token clauses are not proved yet.'
TECHNIQUE = 'contract-based deductive verification: per-function postconditions and loop invariants over the real AST, z3; end-to-end sentence of the property not decided'
