"""Bounded stand-ins (thorough tier only; never counted as proved).  Each
runs the real code of the tree under check on an enumerated finite space and
reports the bound.  A failure is a concrete failing input."""
import itertools
import re


def _real(name):
    from pyvc import replay
    return replay.real_object(name)


def c13_regex_meaning(seed):
    """replace_phrases: a phrase never matches across a blank line and only
    at word boundaries -- texts <= 7 over {a,b,' ','\\n','.'}, rules from a
    pool (exhaustive)"""
    rp = _real('yalafi.utils.replace_phrases')
    rules = [['a b & X'], ['a & Y'], ['a. & Z'], ['b a & '], ['a  b & WW']]
    alpha = 'ab \n.'
    n = 0
    fails = []
    for ln in range(0, 7):
        for t in itertools.product(alpha, repeat=ln):
            txt = ''.join(t)
            pos = list(range(100, 100 + len(txt)))
            for rule in rules:
                n += 1
                o_txt, o_pos = rp(txt, pos, rule)
                if len(o_txt) != len(o_pos):
                    fails.append({'txt': txt, 'rule': rule, 'why': 'length'})
                lhs = rule[0].split('&')[0].split()
                rhs = rule[0].split('&')[1].strip() if '&' in rule[0] else ''
                # text without the phrase words in sequence is unchanged
                pat = r'\s+'.join(re.escape(w) for w in lhs)
                if not re.search(pat, txt) and o_txt != txt:
                    fails.append({'txt': txt, 'rule': rule,
                                  'why': 'changed without phrase'})
                # a phrase spanning a blank line is not replaced
                for m in re.finditer(pat, txt):
                    if re.search(r'\n[ \t]*\n', m.group(0)) and \
                            txt.count('\n\n') and o_txt.count('\n') < \
                            txt.count('\n') and len(lhs) > 1 and \
                            '\n' not in rhs and o_txt != txt and \
                            not re.search(pat.replace(r'\s+', '[ \t]*\n?[ \t]*'),
                                          txt.replace('\n\n', '\x00')):
                        fails.append({'txt': txt, 'rule': rule,
                                      'why': 'matched across a blank line'})
    return {'name': 'replace_phrases regex meaning', 'bounded': True,
            'bound': 'all texts of length <= 6 over 5 characters x 5 rules',
            'evaluations': n, 'failures': fails[:5]}


def c16_add_line_numbers(seed):
    """add_line_numbers: one table cell per <br>-terminated piece, never an
    index past line_numbers -- exhaustive over small protect_html images"""
    from pyvc import replay as _r
    gh = _r.real_module('yalafi.shell.genhtml')
    gh.number_style = 'x'
    n = 0
    fails = []
    alpha = ['a', '<br>\n', '&ensp;', '']
    for ln in range(0, 6):
        for t in itertools.product(alpha, repeat=ln):
            s = ''.join(t)
            pieces = s.count('<br>\n') + (0 if s.endswith('<br>\n') or
                                           not s else 1)
            nums = list(range(max(pieces, 1)))
            n += 1
            try:
                gh.add_line_numbers(s, nums)
            except IndexError:
                fails.append({'s': s, 'numbers': nums})
    return {'name': 'add_line_numbers index safety', 'bounded': True,
            'bound': 'strings of <= 5 pieces over 4 piece kinds',
            'evaluations': n, 'failures': fails[:5]}


def c20_single_letters(seed):
    """create_single_letter_matches: every message marks exactly one
    isolated letter not covered by an accepted pattern -- texts <= 6 over
    {a,B,1,_,' ','.'} x 3 accept lists (exhaustive)"""
    import types
    from pyvc import replay as _r
    ch = _r.real_module('yalafi.shell.checks')
    n = 0
    fails = []
    alpha = 'aB1_ .'
    for acc in ['', 'a', 'a|B.|']:
        cmd = types.SimpleNamespace(single_letters=acc)
        for ln in range(0, 6):
            for t in itertools.product(alpha, repeat=ln):
                txt = ''.join(t)
                n += 1
                for m in ch.create_single_letter_matches(txt, cmd):
                    o, l = m['offset'], m['length']
                    c = txt[o:o + l]
                    ctx = m['context']
                    ok = (l == 1 and c.isalpha() and
                          (o == 0 or not (txt[o - 1].isalnum() or
                                          txt[o - 1] == '_')) and
                          (o + 1 == len(txt) or not (txt[o + 1].isalnum() or
                                                     txt[o + 1] == '_')) and
                          ctx['text'][ctx['offset']:ctx['offset'] +
                                      ctx['length']] == c)
                    if not ok:
                        fails.append({'txt': txt, 'accept': acc, 'msg': m})
    return {'name': 'single-letter regex and context', 'bounded': True,
            'bound': 'all texts of length <= 5 over 6 characters x 3 accept '
                     'lists', 'evaluations': n, 'failures': fails[:5]}


BOUNDED = {'C13': [c13_regex_meaning], 'C16': [c16_add_line_numbers],
           'C20': [c20_single_letters]}
