"""Bounded stand-ins (never counted as proved).  Each
runs the real code of the tree under check on an enumerated finite space and
reports the bound.  A failure is a concrete failing input."""
import itertools
import re


def _real(name):
    from pyvc import replay
    return replay.real_object(name)


def c13_regex_meaning(seed):
    """replace_phrases against an independent reference (no regular
    expressions): a phrase matches at a position iff its words follow each
    other separated by white space that has at most one line break, it
    starts / ends at a word boundary where its first / last character is a
    letter; leftmost matches, non-overlapping, replaced by the right-hand
    side; text and position list stay of equal length.  Texts <= 6 over
    {a,b,' ','\n','.'} x 7 rules (exhaustive)"""
    rp = _real('yalafi.utils.replace_phrases')
    rules = [['a b & X'], ['a & Y'], ['a. & Z'], ['b a & '], ['a  b & WW'],
             ['a.b & V  # comment'], ['.a & U']]
    alpha = 'ab \n.'

    def wordch(c):
        return c.isalnum() or c == '_'

    def match_at(txt, i, words):
        """end index of a match of the phrase at i, or None"""
        j = i
        for k, w in enumerate(words):
            if k:
                # white space with at most one line break, at least one char
                st = j
                nl = 0
                while j < len(txt) and txt[j] in ' \t\n':
                    if txt[j] == '\n':
                        nl += 1
                        if nl > 1:
                            break
                    j += 1
                if nl > 1:
                    # regex semantics: backtrack to before the 2nd newline
                    # is not a match of the separator followed by a word
                    return None
                if j == st:
                    return None
            if not txt.startswith(w, j):
                return None
            j += len(w)
        first, last = words[0][0], words[-1][-1]
        if first.isalpha() and i > 0 and wordch(txt[i - 1]):
            return None
        if last.isalpha() and j < len(txt) and wordch(txt[j]):
            return None
        return j

    def ref(txt, rule):
        lin = rule.split('#')[0].split()
        if '&' in lin:
            k = lin.index('&')
            words, rhs = lin[:k], ' '.join(lin[k + 1:])
        else:
            words, rhs = lin, ''
        if not words:
            return txt
        out, i = '', 0
        while i < len(txt):
            e = match_at(txt, i, words)
            if e is not None and e > i:
                out += rhs
                i = e
            else:
                out += txt[i]
                i += 1
        return out
    n = 0
    fails = []
    # the separator of a rule is the WORD `&`: an ampersand inside a word
    # belongs to the phrase (R&D, AT&T)
    rules_amp = [['a&b & X'], ['a &b & Y y'], ['a&b'], ['b & a&b']]
    for ln in range(0, 6):
        for t in itertools.product('ab& ', repeat=ln):
            txt = ''.join(t)
            pos = list(range(100, 100 + len(txt)))
            for rule in rules_amp:
                n += 1
                o_txt, o_pos = rp(txt, pos, rule)
                want = ref(txt, rule[0])
                if o_txt != want or len(o_txt) != len(o_pos):
                    fails.append({'txt': txt, 'rule': rule, 'got': o_txt,
                                  'expected': want})
                if len(fails) >= 5:
                    break
            if len(fails) >= 5:
                break
        if len(fails) >= 5:
            break
    for ln in range(0, 7):
        if len(fails) >= 5:
            break
        for t in itertools.product(alpha, repeat=ln):
            txt = ''.join(t)
            pos = list(range(100, 100 + len(txt)))
            for rule in rules:
                n += 1
                o_txt, o_pos = rp(txt, pos, rule)
                if len(o_txt) != len(o_pos):
                    fails.append({'txt': txt, 'rule': rule, 'why': 'length'})
                want = ref(txt, rule[0])
                if o_txt != want:
                    fails.append({'txt': txt, 'rule': rule, 'got': o_txt,
                                  'expected': want})
                if len(fails) >= 5:
                    break
            if len(fails) >= 5:
                break
        if len(fails) >= 5:
            break
    return {'name': 'replace_phrases-against-reference', 'bounded': True,
            'bound': 'all texts of length <= 6 over 5 characters x 7 rules; length <= 5 over {a,b,&,blank} x 4 rules with an ampersand inside a word',
            'evaluations': n, 'failures': fails[:5]}


def c16_add_line_numbers(seed):
    """add_line_numbers: one table cell per <br>-terminated piece, never an
    index past line_numbers -- exhaustive over small protect_html images"""
    from pyvc import replay as _r
    gh = _r.real_module('yalafi.shell.genhtml')
    from props import shellenv
    if shellenv.init_report_module(gh, ['--output', 'html', 'f']) is None:
        gh.number_style = 'x'
    n = 0
    fails = []
    alpha = ['a', '<br>\n', '&ensp;', '']
    for ln in range(0, 6):
        for t in itertools.product(alpha, repeat=ln):
            s = ''.join(t)
            pieces = s.count('<br>\n') + (0 if s.endswith('<br>\n') or
                                           not s else 1)
            nums = list(range(max(pieces, 1)))
            n += 1
            try:
                gh.add_line_numbers(s, nums)
            except IndexError:
                fails.append({'s': s, 'numbers': nums})
    return {'name': 'add_line_numbers index safety', 'bounded': True,
            'bound': 'strings of <= 5 pieces over 4 piece kinds',
            'evaluations': n, 'failures': fails[:5]}


def c20_single_letters(seed):
    """create_single_letter_matches: every message marks exactly one
    isolated letter not covered by an accepted pattern -- texts <= 6 over
    {a,B,1,_,' ','.'} x 3 accept lists (exhaustive)"""
    import types
    from pyvc import replay as _r
    ch = _r.real_module('yalafi.shell.checks')
    n = 0
    fails = []
    alpha = 'aB1_ .'
    for acc in ['', 'a', 'a|B.|']:
        cmd = types.SimpleNamespace(single_letters=acc)
        for ln in range(0, 6):
            for t in itertools.product(alpha, repeat=ln):
                txt = ''.join(t)
                n += 1
                for m in ch.create_single_letter_matches(txt, cmd):
                    o, l = m['offset'], m['length']
                    c = txt[o:o + l]
                    ctx = m['context']
                    ok = (l == 1 and c.isalpha() and
                          (o == 0 or not (txt[o - 1].isalnum() or
                                          txt[o - 1] == '_')) and
                          (o + 1 == len(txt) or not (txt[o + 1].isalnum() or
                                                     txt[o + 1] == '_')) and
                          ctx['text'][ctx['offset']:ctx['offset'] +
                                      ctx['length']] == c)
                    if not ok:
                        fails.append({'txt': txt, 'accept': acc, 'msg': m})
                if ln == 4 and n % 7 == 0:
                    # the same text again: the caller owns the messages (the
                    # shell shifts their offsets in place), a second check of
                    # the same text must not hand out the same objects
                    import copy as _copy
                    first = ch.create_single_letter_matches(txt, cmd)
                    snap = _copy.deepcopy(first)
                    for m in first:
                        m['offset'] += 1000
                        m['context']['offset'] += 1000
                    again = ch.create_single_letter_matches(txt, cmd)
                    if again != snap or any(a is b for a in again
                                            for b in first):
                        fails.append({'txt': txt, 'accept': acc,
                                      'why': 'second check of the same text '
                                      'gives %r, the first gave %r' % (
                                          again, snap)})
    return {'name': 'single-letter regex and context', 'bounded': True,
            'bound': 'all texts of length <= 5 over 6 characters x 3 accept '
                     'lists', 'evaluations': n, 'failures': fails[:5]}


def c20_equation_punct(seed):
    """create_equation_punct_messages against a regex-free reference: a
    placeholder is flagged unless it is followed (after optional white
    space) by a full stop, or -- optionally after one of , ; : -- by another
    placeholder or by a word whose FIRST letter is lower case.  All texts
    of <= 4 pieces over 11 pieces, modes displayed / all"""
    import types
    from pyvc import replay as _r
    ch = _r.real_module('yalafi.shell.checks')
    ch.cmdline = types.SimpleNamespace(context=20)
    phs = ['U-U-U', 'V-V-V']
    pieces = phs + [' ', '\n', ',', '.', ';', 'abc', 'Abc', 'kHz', '1']

    def ref(txt):
        out = []
        i = 0
        while i < len(txt):
            hit = next((p for p in phs if txt.startswith(p, i)), None)
            wb = hit and (i == 0 or not (txt[i - 1].isalnum() or
                                         txt[i - 1] == '_'))
            if hit and wb:
                e = i + len(hit)
                if e < len(txt) and (txt[e].isalnum() or txt[e] == '_'):
                    i += 1
                    continue
                j = e
                while j < len(txt) and txt[j].isspace():
                    j += 1
                ok = False
                if j < len(txt) and txt[j] == '.':
                    ok = True
                else:
                    k = j
                    if k < len(txt) and txt[k] in ',;:':
                        k += 1
                    while k < len(txt) and txt[k].isspace():
                        k += 1
                    nxt = next((p for p in phs if txt.startswith(p, k)),
                               None)
                    if nxt and not (k + len(nxt) < len(txt) and (
                            txt[k + len(nxt)].isalnum() or
                            txt[k + len(nxt)] == '_')):
                        ok = True
                    elif k < len(txt) and txt[k].isalpha():
                        ok = txt[k].islower()
                if not ok:
                    out.append(i)
                i = e
            else:
                i += 1
        return out
    n, fails = 0, []
    for ln in range(0, 5):
        for t in itertools.product(pieces, repeat=ln):
            txt = ''.join(t)
            for mode in ('displayed', 'all'):
                n += 1
                cmd = types.SimpleNamespace(equation_punctuation=mode)
                ms = ch.create_equation_punct_messages(
                    txt, cmd, 'U-U-U|V-V-V', 'W-W-W', 'U-U-U|V-V-V|W-W-W')
                got = sorted(m['offset'] for m in ms)
                want = ref(txt)
                if got != want:
                    fails.append({'txt': txt, 'mode': mode, 'flagged': got,
                                  'expected': want})
                    if len(fails) >= 3:
                        break
            if len(fails) >= 3:
                break
        if len(fails) >= 3:
            break
    return {'name': 'equation-punctuation-against-reference',
            'bounded': True,
            'bound': 'all texts of <= 4 pieces over 11 pieces x 2 modes',
            'evaluations': n, 'failures': fails[:3]}


# all three are fast enough for the quick tier: they are referenced from the
# QUICK_BOUNDED lists of props/C13.py, C16.py, C20.py
BOUNDED = {}
