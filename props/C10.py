"""C10 -- inline maths (lemmas)."""
from props import common as cm
ID = 'C10'
MODS = cm.MODS_CORE + ['contracts.c_math']
FOCUS = 'range'
FUNCS = ['yalafi.mathparser.MathParser.' + n for n in ('expand_inline_math', 'expand_math_section', 'replace_section')]


def SELECT(name):
    return not cm.is_safety(name)


def lemmas():
    """every statement of replace_section that stores to `repls` is a
    rotation to the left by one: the statement itself (taken from the real
    AST) is executed on concrete lists of length 1..6"""
    import ast
    from pyvc import front
    fi = front.repo().funcs['yalafi.mathparser.MathParser.replace_section']
    stores = []

    def root(t):
        while isinstance(t, (ast.Subscript, ast.Attribute)):
            t = t.value
        return t.id if isinstance(t, ast.Name) else None
    for n in ast.walk(fi.node):
        if isinstance(n, (ast.Assign, ast.AugAssign, ast.Delete)):
            ts = n.targets if isinstance(n, (ast.Assign, ast.Delete)) \
                else [n.target]
            if any(root(t) == 'repls' for t in ts):
                stores.append(n)
        elif isinstance(n, ast.Expr) and isinstance(n.value, ast.Call) and \
                isinstance(n.value.func, ast.Attribute) and \
                root(n.value.func) == 'repls' and n.value.func.attr in (
                    'append', 'extend', 'insert', 'pop', 'remove', 'clear',
                    'sort', 'reverse'):
            stores.append(n)
    yield ('rotation:store-to-repls-found', len(stores) >= 1,
           '%d statements' % len(stores), False)
    for n in stores:
        ok, shown = True, ''
        code = compile(ast.Module(body=[n], type_ignores=[]), '<stmt>',
                       'exec')
        for k in range(1, 7):
            lst = list(range(k))
            env = {'repls': lst}
            try:
                exec(code, {}, env)
            except Exception as e:      # noqa
                ok, shown = False, 'raises %r' % (e,)
                break
            if env['repls'] is not lst or lst != list(range(1, k)) + [0]:
                ok, shown = False, '%r -> %r' % (list(range(k)),
                                                 env['repls'])
                break
        yield ('rotation:store-rotates-left-by-one@%d' % n.lineno, ok,
               '`%s`: %s' % (ast.unparse(n), shown))


TRUSTED = cm.TRUSTED_CORE
ASSUMPTIONS = cm.ASSUME_CORE + ['known finding F15 applies to expand_math_section']
LEVEL_TEXT = 'Proves for replace_section / expand_inline_math: every emitted token is a fresh fixed Text/Space token or a pass-through text token, Ok for the source, positioned inside the ghost interval spanned by the tokens of the formula (never at an unrelated offset); the placeholder collection keeps its length under the rotation (repls[0] always exists); the result of expand_inline_math starts and ends with an Action token; the maths section loop emits only maths-class tokens, text tokens from \\\\text-like macros, error marks, or results of environment ends. for inline formulas every loop iteration performs exactly as many stores to the placeholder collection as it emits placeholder tokens (0 or 1; ghost counters, loop body contract), and every store to the collection in replace_section is a rotation to the left by one in place (the statement from the real AST evaluated on lists of length 1..6) -- so each inline placeholder is preceded by exactly one rotation. NOT proved: that the emitted token reads index 0 after the rotation as a content equation (summarised lists carry no order), detect_math_parts (assumed contract), rotation state across a document.'
LEVEL_NOTE = 'detect_math_parts is represented by an assumed contract (parts are non-empty lists of maths tokens; other tokens are text tokens).'
TECHNIQUE = 'contract-based deductive verification: per-function postconditions and loop invariants over the real AST, z3; end-to-end sentence of the property not decided'
