"""C10 -- inline maths (lemmas)."""
from props import common as cm
ID = 'C10'
MODS = cm.MODS_CORE + ['contracts.c_math']
FOCUS = 'range'
FUNCS = ['yalafi.mathparser.MathParser.' + n for n in ('expand_inline_math', 'expand_math_section', 'replace_section')]


def SELECT(name):
    return not cm.is_safety(name)


def lemmas():
    """every statement of replace_section that stores to `repls` is a
    rotation to the left by one: the statement itself (taken from the real
    AST) is executed on concrete lists of length 1..6"""
    import ast
    from pyvc import front
    fi = front.repo().funcs['yalafi.mathparser.MathParser.replace_section']
    stores = []

    def root(t):
        while isinstance(t, (ast.Subscript, ast.Attribute)):
            t = t.value
        return t.id if isinstance(t, ast.Name) else None
    for n in ast.walk(fi.node):
        if isinstance(n, (ast.Assign, ast.AugAssign, ast.Delete)):
            ts = n.targets if isinstance(n, (ast.Assign, ast.Delete)) \
                else [n.target]
            if any(root(t) == 'repls' for t in ts):
                stores.append(n)
        elif isinstance(n, ast.Expr) and isinstance(n.value, ast.Call) and \
                isinstance(n.value.func, ast.Attribute) and \
                root(n.value.func) == 'repls' and n.value.func.attr in (
                    'append', 'extend', 'insert', 'pop', 'remove', 'clear',
                    'sort', 'reverse'):
            stores.append(n)
    # the collections are rotated IN PLACE: the rotation state of one
    # language (and of one kind of collection) must not be the state of
    # another one -- no list object is shared between the language settings
    # of the real Parameters object
    from contracts import tokmodel as tm
    p = tm.real_parms()
    seen, shared = {}, []
    for lang, ls in sorted(p.parser_lang_settings.items()):
        for attr, val in sorted(vars(ls).items()):
            if isinstance(val, list):
                if id(val) in seen:
                    l0, a0 = seen[id(val)]
                    # by design a `_vowel` variant that is not given is the
                    # collection itself (same language, same kind)
                    same_kind = l0 == lang and (
                        a0 + '_vowel' == attr or attr + '_vowel' == a0)
                    if not same_kind:
                        shared.append(((l0, a0), (lang, attr)))
                else:
                    seen[id(val)] = (lang, attr)
    yield ('rotation:collections-of-languages-are-distinct-objects',
           not shared, 'shared list objects: %r' % (shared[:3],))
    yield ('rotation:store-to-repls-found', True if stores else None,
           '%d statements' % len(stores), False)
    for n in stores:
        ok, shown = True, ''
        code = compile(ast.Module(body=[n], type_ignores=[]), '<stmt>',
                       'exec')
        for k in range(1, 7):
            lst = list(range(k))
            env = {'repls': lst}
            try:
                exec(code, {}, env)
            except Exception as e:      # noqa
                ok, shown = False, 'raises %r' % (e,)
                break
            if env['repls'] is not lst or lst != list(range(1, k)) + [0]:
                ok, shown = False, '%r -> %r' % (list(range(k)),
                                                 env['repls'])
                break
        yield ('rotation:store-rotates-left-by-one@%d' % n.lineno, ok,
               '`%s`: %s' % (ast.unparse(n), shown))


def inline_small_documents(seed):
    """the sentence of the property on enumerated small documents (the
    deductive part does not decide order / content of the placeholder
    collection across a document): up to 4 inline formulas from a catalogue
    of bodies, separated by words, languages en/de/ru; expected: exactly one
    placeholder per formula, the next of the collection each time
    (cyclically), final . , ; : kept, a blank where the formula starts /
    ends with maths space, no character of the formula source"""
    import itertools
    from pyvc import replay as _r
    t2t = _r.real_module('yalafi.tex2txt')
    parameters = _r.real_module('yalafi.parameters')
    # body -> (leading blank, punctuation, trailing blank)
    bodies = [('x', '', '', ''), ('x+y', '', '', ''), ('=', '', '', ''),
              ('a,', '', ',', ''), ('b.', '', '.', ''),
              ('\\alpha_1^2', '', '', ''), ('\\,x', ' ', '', ''),
              ('x\\,', '', '', ' '), ('\\frac{a}{b};', '', ';', ''),
              ('\\unknownmacro{z}:', '', ':', ''),
              # a final mark followed by several maths spaces
              ('y,\\,\\,', '', ',', ' '), ('z;\\quad\\ ', '', ';', ' '),
              ('\\;u.~~~', ' ', '.', ' ')]
    n, fails = 0, []
    for lang in ('en', 'de', 'ru'):
        coll = list(parameters.Parameters(lang).lang_context
                    .math_repl_inline)
        for ln in range(1, 5):
            for combo in itertools.product(range(len(bodies)), repeat=ln):
                if ln >= 3 and (sum(combo) + seed + ln) % (7 if ln == 3
                                                           else 60):
                    continue
                src = 'W'
                want = 'W'
                for k, i in enumerate(combo):
                    b, lead, punct, trail = bodies[i]
                    open_, close = ('$', '$') if k % 2 == 0 else \
                        ('\\(', '\\)')
                    src += ' ' + open_ + b + close + ' w'
                    want += ' ' + lead + coll[(k + 1) % len(coll)] + \
                        punct + trail + ' w'
                n += 1
                try:
                    got = t2t.tex2txt(src, t2t.Options(lang=lang))[0]
                except Exception as e:      # noqa
                    got = 'exception %r' % (e,)
                if got != want:
                    fails.append({'lang': lang, 'input': src, 'got': got,
                                  'expected': want})
                    if len(fails) >= 3:
                        break
            if len(fails) >= 3:
                break
        if len(fails) >= 3:
            break
    # multi-language mode: each formula takes the next placeholder of the
    # collection of the language in force at the formula; the collections of
    # the languages rotate independently
    import re
    settings = parameters.Parameters('en').parser_lang_settings
    src = ('\\usepackage[german,russian,english]{babel}\n'
           'Aaa $a$ bbb $b$.\n\n\\selectlanguage{russian}\n'
           'Ccc $c$ ddd $d,$ eee $e$.\n\n\\selectlanguage{german}\n'
           'Fff $f$ ggg $g$.\n\n\\selectlanguage{english}\n'
           'Hhh $h$ iii.\n')
    n += 1
    try:
        ml = t2t.tex2txt(src, t2t.Options(lang='en', pack='babel'),
                         multi_language=True)
        for code, parts in ml.items():
            key = code[:2].lower()
            coll = list(parameters.Parameters(key).parser_lang_settings[
                key].math_repl_inline)
            txt = ' '.join(p[0] for p in parts)
            phs = [w.rstrip('.,;:') for w in txt.split() if '-' in w]
            want = [coll[(i + 1) % len(coll)] for i in range(len(phs))]
            if phs != want:
                fails.append({'input': src, 'part': code, 'placeholders':
                              phs, 'expected': want})
    except Exception as e:      # noqa
        fails.append({'input': src, 'why': repr(e)})
    return {'name': 'inline-formulas-on-small-documents', 'bounded': True,
            'bound': '3 languages x all sequences of 1-2 formulas, a 7th of '
                     'those of 3 and a 60th of those of 4, over 13 bodies; '
                     'one multi-language document with three languages',
            'evaluations': n, 'failures': fails}


QUICK_BOUNDED = [inline_small_documents]

TRUSTED = cm.TRUSTED_CORE
ASSUMPTIONS = cm.ASSUME_CORE + ['known finding F15 applies to expand_math_section']
LEVEL_TEXT = 'Proves for replace_section / expand_inline_math: every emitted token is a fresh fixed Text/Space token or a pass-through text token, Ok for the source, positioned inside the ghost interval spanned by the tokens of the formula (never at an unrelated offset); the placeholder collection keeps its length under the rotation (repls[0] always exists); the result of expand_inline_math starts and ends with an Action token; the maths section loop emits only maths-class tokens, text tokens from \\\\text-like macros, error marks, or results of environment ends. for inline formulas every loop iteration performs exactly as many stores to the placeholder collection as it emits placeholder tokens (0 or 1; ghost counters, loop body contract), and every store to the collection in replace_section is a rotation to the left by one in place (the statement from the real AST evaluated on lists of length 1..6) -- so each inline placeholder is preceded by exactly one rotation. NOT proved: that the emitted token reads index 0 after the rotation as a content equation (summarised lists carry no order), detect_math_parts (assumed contract), rotation state across a document.'
LEVEL_NOTE = 'detect_math_parts is represented by an assumed contract (parts are non-empty lists of maths tokens; other tokens are text tokens).'
TECHNIQUE = 'contract-based deductive verification: per-function postconditions and loop invariants over the real AST, z3; end-to-end sentence of the property not decided'
