"""C10 -- inline maths (lemmas)."""
from props import common as cm
ID = 'C10'
MODS = cm.MODS_CORE + ['contracts.c_math']
FOCUS = 'range'
FUNCS = ['yalafi.mathparser.MathParser.' + n for n in ('expand_inline_math', 'expand_math_section', 'replace_section')]


def SELECT(name):
    return not cm.is_safety(name)

TRUSTED = cm.TRUSTED_CORE
ASSUMPTIONS = cm.ASSUME_CORE + ['known finding F15 applies to expand_math_section']
LEVEL_TEXT = 'Proves for replace_section / expand_inline_math: every emitted token is a fresh fixed Text/Space token or a pass-through text token, Ok for the source, positioned inside the ghost interval spanned by the tokens of the formula (never at an unrelated offset); the placeholder collection keeps its length under the rotation (repls[0] always exists); the result of expand_inline_math starts and ends with an Action token; the maths section loop emits only maths-class tokens, text tokens from \\\\text-like macros, error marks, or results of environment ends. NOT proved: exactly-one-placeholder and rotate-by-one (order/content of summarised lists), detect_math_parts (assumed contract), rotation across a document.'
LEVEL_NOTE = 'detect_math_parts is represented by an assumed contract (parts are non-empty lists of maths tokens; other tokens are text tokens).'
TECHNIQUE = 'contract-based deductive verification: per-function postconditions and loop invariants over the real AST, z3; end-to-end sentence of the property not decided'
