"""C09 -- user macro definitions (functional lemmas)."""
from props import common as cm
ID = 'C09'
MODS = cm.MODS_CORE + ['contracts.c_math']
FOCUS = 'range'
FUNCS = [cm.P + n for n in ('expand_sequence', 'generate_replacements', 'expand_arguments', 'expand_macro', 'begin_environment', 'parse_def_macro', 'parse', 'parser_work')] + ['yalafi.handlers.h_newcommand', 'yalafi.handlers.h_load_defs', 'yalafi.defs.Expandable.__init__.<locals>.check', 'yalafi.utils.filter_set_toks']


def SELECT(name):
    return not cm.is_safety(name)

TRUSTED = cm.TRUSTED_CORE
ASSUMPTIONS = cm.ASSUME_CORE + ['multiplicity of #k substitution (each occurrence replaced once, in order) is not proved: summarised lists do not carry order']
LEVEL_TEXT = 'Proves: h_newcommand and parse_def_macro register a macro that satisfies MacInv (argument code over {*,A,O}, every #k of the body within 1..n -- established by the checking loop of h_newcommand, proved as loop body contract), and leave no text (result [] / one Action token); expand_arguments collects exactly one argument list per code letter, mandatory ones non-empty, defaults as stamped fresh copies; generate_replacements indexes arguments[k-1] safely and emits only argument tokens or stamped fresh copies of body tokens inside the hull of call position and arguments; definition texts (--defs, \\\\LTinput) go through the same parser_work and contribute only language tokens and no flows. expand_macro expands a name that is declared at the call exactly once, with the current entry of the_macros, and never expands an undeclared one (postcondition over the ghost history of expand_arguments calls) -- so a use before the definition is unknown and a redefinition affects later uses only. NOT decided: equality of three complete runs up to a shift, program order of definitions.'
LEVEL_NOTE = ('Relational cross-run statement not expressible as a contract of one call.'
    + ' A bounded stand-in in the quick tier (definition blocks in place, read by LTinput and given by --defs must give the same text, all sequences of <= 4 pieces) states the cross-run sentence on the real code; reported as bounded, not counted as proved.')
TECHNIQUE = 'contract-based deductive verification: per-function postconditions and loop invariants over the real AST, z3; end-to-end sentence of the property not decided'


def definitions_in_order_bounded(seed):
    """"the same lines in the document, in a file read by \\LTinput or given
    with --defs give the same text": documents of <= 4 pieces out of
    {use, definitions block A, redefinitions block B, use with option},
    each definitions block once written in place and once read with
    \\LTinput from a file (scratch directory, removed) -- the texts must be
    equal, for every sequence; block A given with --defs equals block A in
    front of the document"""
    import contextlib
    import io
    import itertools
    import os
    import shutil
    import tempfile
    from pyvc import replay as _r
    t2t = _r.real_module('yalafi.tex2txt')
    blocks = {
        'A': '\\newcommand{\\name}{Alice}\n'
             '\\newcommand{\\greet}[2][Hello]{#1, #2!}\n',
        'B': '\\renewcommand{\\name}{Bob}\n'
             '\\renewcommand{\\greet}[2][Bye]{#2: #1.}\n'}
    uses = {'U': 'One \\greet{\\name} two.\n',
            'V': 'Three \\greet[Hi]{\\name} four.\n'}
    tmp = tempfile.mkdtemp(prefix='c09_defs_')
    n, fails = 0, []
    try:
        files = {}
        for k, txt in blocks.items():
            files[k] = os.path.join(tmp, 'defs%s.tex' % k)
            with open(files[k], 'w') as f:
                f.write(txt)

        def run(src, **kw):
            with contextlib.redirect_stderr(io.StringIO()):
                return t2t.tex2txt(src, t2t.Options(**kw))[0]
        kinds = ['U', 'A', 'B', 'V']
        for ln in (1, 2, 3, 4):
            for seq in itertools.product(kinds, repeat=ln):
                if not any(k in uses for k in seq):
                    continue
                inline = ''.join(blocks.get(k) or uses[k] for k in seq)
                viafile = ''.join(
                    ('\\LTinput{%s}\n' % files[k]) if k in blocks
                    else uses[k] for k in seq)
                n += 1
                try:
                    a, b = run(inline), run(viafile)
                except BaseException as e:      # noqa
                    fails.append({'document': viafile,
                                  'why': 'exception %r' % (e,)})
                    continue
                if a.split() != b.split():
                    fails.append({'document': viafile, 'text': b,
                                  'with the lines in place': a})
                    if len(fails) >= 3:
                        break
            if len(fails) >= 3:
                break
        for u in uses.values():
            n += 1
            a = run(blocks['A'] + u)
            b = run(u, defs=blocks['A'])
            if a.split() != b.split():
                fails.append({'document': u, 'defs': blocks['A'],
                              'text': b, 'with the lines in place': a})
    finally:
        shutil.rmtree(tmp, ignore_errors=True)
    return {'name': 'definitions-in-place-by-LTinput-and-by-defs-agree',
            'bounded': True,
            'bound': 'all sequences of <= 4 pieces over 4 piece kinds',
            'evaluations': n, 'failures': fails}


def substitution_reference_bounded(seed):
    """"every later use expands to the body with each #k replaced by the k-th
    actual argument (the default for an omitted optional one)": macros with
    0-2 parameters, with and without optional default, used with the
    optional argument given / omitted and the mandatory one braced / single
    token, in every context out of {end of input, blank, line end, text,
    inside braces, before a paragraph break}; the text must equal the body
    substituted by hand"""
    import contextlib
    import io
    from pyvc import replay as _r
    t2t = _r.real_module('yalafi.tex2txt')

    def run(src):
        with contextlib.redirect_stderr(io.StringIO()):
            return t2t.tex2txt(src, t2t.Options())[0]
    defs = ('\\newcommand{\\ma}[2][Dflt]{<#1|#2|#1>}\n'
            '\\newcommand{\\mb}[1][Opt]{(#1)}\n'
            '\\newcommand{\\mc}[2]{[#2-#1]}\n'
            '\\newcommand{\\md}{Zero}\n')
    uses = [('\\ma{x}', '<Dflt|x|Dflt>'), ('\\ma[o]{x}', '<o|x|o>'),
            ('\\ma y', '<Dflt|y|Dflt>'), ('\\ma[o]y', '<o|y|o>'),
            ('\\mb', '(Opt)'), ('\\mb[q]', '(q)'), ('\\mb[]', '()'),
            ('\\mc{a}{b}', '[b-a]'), ('\\mc ab', '[b-a]'),
            ('\\mc{\\mb}{\\md}', '[Zero-(Opt)]'),
            ('\\ma[\\md]{\\mb[r]}', '<Zero|(r)|Zero>'),
            ('\\md', 'Zero')]
    ctxs = [('S %s', 'S %s'), ('S %s\n', 'S %s'), ('S %s E', None),
            ('S {%s} E', 'S %s E'), ('S {%s}', 'S %s'),
            ('S %s\n\nE', 'S %s E'), ('S %s.', 'S %s.'),
            ('%s', '%s'), ('S %s{} E', 'S %s E')]
    n, fails = 0, []
    for use, exp in uses:
        for cin, cout in ctxs:
            if cout is None:
                # blank after a control word is skipped as in TeX
                cout = 'S %sE' if re_ends_in_word(use) else 'S %s E'
            doc = defs + cin % use
            want = (cout % exp).split()
            n += 1
            try:
                got = run(doc).split()
            except BaseException as e:      # noqa
                fails.append({'document': doc, 'why': 'exception %r' % (e,)})
                continue
            if got != want:
                fails.append({'document': doc, 'text': ' '.join(got),
                              'expected': ' '.join(want)})
        if len(fails) >= 3:
            break
    return {'name': 'uses-expand-to-the-substituted-body',
            'bounded': True,
            'bound': '%d uses x %d contexts, 4 definitions' % (len(uses), len(ctxs)),
            'evaluations': n, 'failures': fails}


def re_ends_in_word(use):
    import re
    return re.search(r'\\[a-z]+$', use) is not None


QUICK_BOUNDED = [definitions_in_order_bounded, substitution_reference_bounded]
