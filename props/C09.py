"""C09 -- user macro definitions (functional lemmas)."""
from props import common as cm
ID = 'C09'
MODS = cm.MODS_CORE + ['contracts.c_math']
FOCUS = 'range'
FUNCS = [cm.P + n for n in ('expand_sequence', 'generate_replacements', 'expand_arguments', 'expand_macro', 'begin_environment', 'parse_def_macro', 'parse', 'parser_work')] + ['yalafi.handlers.h_newcommand', 'yalafi.handlers.h_load_defs', 'yalafi.defs.Expandable.__init__.<locals>.check', 'yalafi.utils.filter_set_toks']


def SELECT(name):
    return not cm.is_safety(name)

TRUSTED = cm.TRUSTED_CORE
ASSUMPTIONS = cm.ASSUME_CORE + ['multiplicity of #k substitution (each occurrence replaced once, in order) is not proved: summarised lists do not carry order']
LEVEL_TEXT = 'Proves: h_newcommand and parse_def_macro register a macro that satisfies MacInv (argument code over {*,A,O}, every #k of the body within 1..n -- established by the checking loop of h_newcommand, proved as loop body contract), and leave no text (result [] / one Action token); expand_arguments collects exactly one argument list per code letter, mandatory ones non-empty, defaults as stamped fresh copies; generate_replacements indexes arguments[k-1] safely and emits only argument tokens or stamped fresh copies of body tokens inside the hull of call position and arguments; definition texts (--defs, \\\\LTinput) go through the same parser_work and contribute only language tokens and no flows. expand_macro expands a name that is declared at the call exactly once, with the current entry of the_macros, and never expands an undeclared one (postcondition over the ghost history of expand_arguments calls) -- so a use before the definition is unknown and a redefinition affects later uses only. NOT decided: equality of three complete runs up to a shift, program order of definitions.'
LEVEL_NOTE = 'Relational cross-run statement not expressible as a contract of one call.'
TECHNIQUE = 'contract-based deductive verification: per-function postconditions and loop invariants over the real AST, z3; end-to-end sentence of the property not decided'
