"""C16 -- HTML report: content cannot break the markup; index safety
(escaping lemma + taint discipline)."""
ID = 'C16'
MODS = ['contracts.c_externs', 'contracts.c_utils', 'contracts.c_shell',
        'contracts.c_html']
GH = 'yalafi.shell.genhtml.'
FUNCS = [GH + 'begin_match', GH + 'generate_highlight', GH + 'generate_html']


def lemmas():
    """escaping lemma: protect_html is a chain of re.sub(<one literal
    character>, <literal>, s) -- checked on the AST -- hence a
    character-wise map (assumed lemma about re.sub with a single literal
    character as pattern); the image of every character class is computed by
    running the real function and must contain no < > " and no bare &, except
    the deliberate <br> for a line break, and must decode back to the
    character (TAB: eight blanks)"""
    import ast
    import html
    import re
    from pyvc import front, replay
    repo = front.repo()
    fi = repo.funcs[GH + 'protect_html']
    pats = []
    ok_shape = True
    for stmt in fi.node.body:
        if isinstance(stmt, ast.Return):
            continue
        c = stmt.value if isinstance(stmt, ast.Assign) else None
        if not (isinstance(c, ast.Call) and ast.unparse(c.func) == 're.sub'
                and isinstance(c.args[0], ast.Constant)
                and ast.unparse(c.args[2]) == 's'):
            ok_shape = False
            continue
        p = c.args[0].value
        lit = re.fullmatch(r'(\\[tn]|[^\\.^$*+?{}\[\]|()])', p)
        if not lit:
            ok_shape = False
        pats.append(p)
    yield ('escaping:protect_html-is-a-chain-of-single-character-substitutions',
           ok_shape and len(pats) >= 4, 'patterns %r' % (pats,))
    ph = replay.real_object(GH + 'protect_html')
    for ch in ['&', '"', '<', '>', '\t', ' ', '\n', 'a', '\\', "'", 'ä', ';']:
        img = ph(ch)
        body = img.replace('<br>', '') if ch == '\n' else img
        clean = not any(x in body for x in '<>"') and \
            re.sub(r'&[a-z]+;', '', body).count('&') == 0
        want = ' ' * 8 if ch == '\t' else ch
        dec = html.unescape(body).replace(' ', ' ')
        yield ('escaping:image-of-%r' % ch, clean and dec == want,
               'image %r decodes to %r' % (img, dec))
    # homomorphism cross-check on two-character strings
    alpha = ['&', '"', '<', '>', '\t', ' ', '\n', 'a']
    bad = [a + b for a in alpha for b in alpha if ph(a + b) != ph(a) + ph(b)]
    yield ('escaping:character-wise-on-all-pairs', not bad, 'pairs %r' % bad[:5])


def gls_bounded(seed):
    """tex2txt.get_line_starts (assumed contract of generate_html: one
    entry per line, the offset after each line break): compared with the
    definition on all strings of length <= 4 over an alphabet that contains
    every character str.splitlines() treats as a line boundary"""
    import itertools
    from pyvc import replay as _r
    t2t = _r.real_module('yalafi.tex2txt')
    alpha = 'a\n\r\x0b\x0c\x1c\x1d\x1e\x85\u2028\u2029'
    n, fails = 0, []
    for ln in range(0, 5):
        for t in itertools.product(alpha, repeat=ln):
            s = ''.join(t)
            n += 1
            want = [0] + [i + 1 for i, c in enumerate(s) if c == '\n']
            try:
                got = t2t.get_line_starts(s)
            except Exception as e:      # noqa
                got = 'exception %r' % (e,)
            if got != want:
                fails.append({'s': s, 'got': got, 'want': want})
                if len(fails) >= 3:
                    break
        if len(fails) >= 3:
            break
    return {'name': 'get_line_starts-is-offsets-after-each-newline',
            'bounded': True,
            'bound': 'all strings of length <= 4 over 11 characters (a and '
                     'the ten line-boundary characters of str.splitlines)',
            'evaluations': n, 'failures': fails}


QUICK_BOUNDED = [gls_bounded]

TRUSTED = [
    're.sub with a single literal character as pattern and a literal replacement is a character-wise map (checked on all pairs '
    'of the eight character classes by running the real function)',
    're.sub(pattern, callback, s): the callback is applied to matches whose groups are substrings of s; the result contains '
    'only callback results and parts of s',
    'JSON type discipline as in C15; get_line_starts returns one increasing entry per line (assumed regex contract)',
]
ASSUMPTIONS = [
    'NOT proved: "stripped of tags and decoded, the line cells reproduce the source lines" (inverse of a regex pipeline), '
    'each-match-exactly-once, and the index safety of add_line_numbers (one table cell per <br> is regex semantics)',
    'the file name (command line) and rule URLs used as href with --link are not among the texts the property lists; they are '
    'inserted unescaped (observation recorded in DESIGN.md)',
    'cmdline.context >= 0 (shell.py replaces a negative --context right after option parsing)',
]
LEVEL_TEXT = ('Proves (1) the escaping lemma by AST check plus evaluation of the real protect_html on every character class: no '
    'character of the source or of a proofreader text can produce < > " or a bare & in the report, and each image decodes '
    'back to its character; (2) the taint discipline over the real code of begin_match, generate_highlight and generate_html: '
    'every string that comes from the LaTeX source or from the proofreader (message, suggestions, context, rule id) reaches '
    'the returned markup only through protect_html, on every path; (3) index safety and in-file spans of generate_html: every '
    'highlight record has 0 <= beg < end <= len(tex) and line numbers inside the list of line starts, every subscript of tex, '
    'charmap and starts is in range, for all match lists accepted by the typing loop.')
LEVEL_NOTE = 'Faithfulness of the rendered source (inverse direction) and exactly-once highlighting are not decided.'
TECHNIQUE = 'contract-based deductive verification: taint (provenance) obligations on strings + index-safety obligations over the real AST, escaping lemma by evaluation, z3'
