"""C16 -- HTML report: content cannot break the markup; index safety
(escaping lemma + taint discipline)."""
ID = 'C16'
MODS = ['contracts.c_externs', 'contracts.c_utils', 'contracts.c_shell',
        'contracts.c_html']
GH = 'yalafi.shell.genhtml.'
FUNCS = [GH + 'begin_match', GH + 'generate_highlight', GH + 'generate_html']


def lemmas():
    """escaping lemma: protect_html is a chain of re.sub(<one literal
    character>, <literal>, s) -- checked on the AST -- hence a
    character-wise map (assumed lemma about re.sub with a single literal
    character as pattern); the image of every character class is computed by
    running the real function and must contain no < > " and no bare &, except
    the deliberate <br> for a line break, and must decode back to the
    character (TAB: eight blanks)"""
    import ast
    import html
    import re
    from pyvc import front, replay
    repo = front.repo()
    fi = repo.funcs[GH + 'protect_html']
    # shape: the result is obtained from the parameter by a pipeline of
    # character-wise steps -- re.sub(<one literal character>, r, X),
    # X.replace(<one character>, r), X.translate(..), X.expandtabs is NOT one
    # (column dependent) -- through straight-line assignments.  Anything else:
    # the lemma is undecided (the images below are still evaluated).
    args = [a.arg for a in fi.node.args.args]
    env = {args[0]: []} if args else {}
    why = []

    def pipe(e):
        if isinstance(e, ast.Name):
            return env.get(e.id)
        if isinstance(e, ast.Call):
            fn = ast.unparse(e.func)
            if fn == 're.sub' and len(e.args) == 3 and not e.keywords \
                    and isinstance(e.args[0], ast.Constant) \
                    and isinstance(e.args[0].value, str):
                pat = e.args[0].value
                if not re.fullmatch(r'(\\[tn]|[^\\.^$*+?{}\[\]|()])', pat):
                    why.append('pattern %r' % pat)
                    return None
                x = pipe(e.args[2])
                return None if x is None else x + [pat]
            if isinstance(e.func, ast.Attribute) and \
                    e.func.attr == 'replace' and len(e.args) == 2 \
                    and not e.keywords \
                    and isinstance(e.args[0], ast.Constant) \
                    and isinstance(e.args[0].value, str) \
                    and len(e.args[0].value) == 1:
                x = pipe(e.func.value)
                return None if x is None else x + [e.args[0].value]
            if isinstance(e.func, ast.Attribute) and \
                    e.func.attr == 'translate' and len(e.args) == 1:
                x = pipe(e.func.value)
                return None if x is None else x + ['<translate>']
        why.append('expression %s' % ast.unparse(e)[:60])
        return None

    result = None
    ok_shape = True
    for stmt in fi.node.body:
        if isinstance(stmt, ast.Expr) and isinstance(stmt.value, ast.Constant):
            continue        # docstring
        if isinstance(stmt, ast.Return) and stmt.value is not None:
            result = pipe(stmt.value)
            break
        if isinstance(stmt, ast.Assign) and len(stmt.targets) == 1 \
                and isinstance(stmt.targets[0], ast.Name):
            env[stmt.targets[0].id] = pipe(stmt.value)
            continue
        ok_shape = False
        why.append('statement %s' % ast.unparse(stmt)[:60])
        break
    pats = result or []
    decided = ok_shape and result is not None
    yield ('escaping:protect_html-is-a-chain-of-single-character-substitutions',
           True if decided and len(pats) >= 4 else None,
           'steps %r' % (pats,) if decided else
           'shape of protect_html not recognised (%s): character-wise '
           'behaviour not established' % '; '.join(why[:3]))
    ph = replay.real_object(GH + 'protect_html')
    for ch in ['&', '"', '<', '>', '\t', ' ', '\n', 'a', '\\', "'", 'ä', ';']:
        img = ph(ch)
        body = img.replace('<br>', '') if ch == '\n' else img
        clean = not any(x in body for x in '<>"') and \
            re.sub(r'&[a-z]+;', '', body).count('&') == 0
        want = ' ' * 8 if ch == '\t' else ch
        dec = html.unescape(body).replace(' ', ' ')
        yield ('escaping:image-of-%r' % ch, clean and dec == want,
               'image %r decodes to %r' % (img, dec))
    # homomorphism cross-check on two-character strings
    alpha = ['&', '"', '<', '>', '\t', ' ', '\n', 'a']
    bad = [a + b for a in alpha for b in alpha if ph(a + b) != ph(a) + ph(b)]
    yield ('escaping:character-wise-on-all-pairs', not bad, 'pairs %r' % bad[:5])


def gls_bounded(seed):
    """tex2txt.get_line_starts (assumed contract of generate_html: one
    entry per line, the offset after each line break): compared with the
    definition on all strings of length <= 4 over an alphabet that contains
    every character str.splitlines() treats as a line boundary"""
    import itertools
    from pyvc import replay as _r
    t2t = _r.real_module('yalafi.tex2txt')
    alpha = 'a\n\r\x0b\x0c\x1c\x1d\x1e\x85\u2028\u2029'
    n, fails = 0, []
    for ln in range(0, 5):
        for t in itertools.product(alpha, repeat=ln):
            s = ''.join(t)
            n += 1
            want = [0] + [i + 1 for i, c in enumerate(s) if c == '\n']
            try:
                got = t2t.get_line_starts(s)
            except Exception as e:      # noqa
                got = 'exception %r' % (e,)
            if got != want:
                fails.append({'s': s, 'got': got, 'want': want})
                if len(fails) >= 3:
                    break
        if len(fails) >= 3:
            break
    return {'name': 'get_line_starts-is-offsets-after-each-newline',
            'bounded': True,
            'bound': 'all strings of length <= 4 over 11 characters (a and '
                     'the ten line-boundary characters of str.splitlines)',
            'evaluations': n, 'failures': fails}


def html_rendering_bounded(seed):
    """the sentence of the property on enumerated small files: the real
    generate_html on files of 1-4 lines over an alphabet with HTML-special
    characters and empty lines, one or two matches (single characters, a
    span over a line break, overlapping, adjacent), context 0 / 1 / large;
    the numbered cells, stripped of tags and with entities decoded, must be
    the source lines with these numbers, every match highlighted once in
    place or in the overlap list, the highlighted text being its span"""
    import html
    import itertools
    import random
    import re
    import types
    from pyvc import replay as _r
    gh = _r.real_module('yalafi.shell.genhtml')
    ut = _r.real_module('yalafi.shell.utils')

    def jget(dic, item, typ):
        if not isinstance(dic, dict) or item not in dic or \
                not isinstance(dic[item], typ):
            raise SystemExit(1)
        return dic[item]
    # the real init(vars) with the vars of the script's own start-up code
    # (props/shellenv.py); by hand only as a fallback
    from props import shellenv
    v0 = shellenv.init_report_module(gh, ['--output', 'html', 'f'],
                                     json_get=jget)
    # (the two style constants are replaced by short markers the row parser
    # below looks for)
    gh.highlight_style = 'H'
    gh.number_style = 'N'
    if not hasattr(gh, 'highlight_style_unsure'):
        gh.highlight_style_unsure = 'U'     # never set by init (dead code)
    rng = random.Random(seed)
    lines_pool = ['ab <c>', 'x & "y"', '', 'zz', 'a  b', '<br>']
    n, fails = 0, []

    def strip(cell):
        cell = re.sub(r'<span [^>]*>|</span>|<a [^>]*>|</a>', '', cell,
                      flags=re.S)
        cell = cell.replace('&ensp;', ' ')
        return html.unescape(cell)
    # systematic part: one file of five short lines, every set of one to
    # three matches out of twelve spans (single characters, words, spans
    # over one and several line breaks, nested and adjacent ones)
    def run(tex, ms, ctx):
        if v0 is not None:
            cmd = v0.cmdline
            cmd.context, cmd.link = ctx, False
        else:
            cmd = types.SimpleNamespace(context=ctx, link=False)
        for m_ in (gh, ut):
            m_.json_get = jget
            m_.cmdline = cmd
        src_lines = tex.split('\n')[:-1]
        matches = [{
            'offset': a, 'length': b - a, 'message': 'm<&>',
            'rule': {'id': 'R', 'category': {'name': 'c'}},
            'replacements': [{'value': '"v"'}],
            'context': {'text': tex[a:b], 'offset': 0,
                        'length': b - a}} for a, b in ms]
        charmap = list(range(1, len(tex) + 1))
        try:
            r = gh.generate_html(tex, charmap, matches, 'f')
        except Exception as e:      # noqa
            return repr(e)
        page = r[2]
        rows = re.findall(
            r'<tr>\n<td style="N" align="right" valign="top">'
            r'(\d*)&nbsp;&nbsp;</td>\n<td>((?:.|\n)*?)</td>\n'
            r'</tr>\n', page)
        nums = [int(x) for x, _ in rows if x]
        if nums != sorted(set(nums)):
            return 'line numbers not increasing / repeated: %r' % nums
        for num, cell in rows:
            if num and (int(num) > len(src_lines) or strip(cell) !=
                        src_lines[int(num) - 1]):
                return 'row %s shows %r' % (num, strip(cell))
        shown = set(nums)
        for a, b in ms:
            k = tex.count('\n', 0, a) + 1
            if k not in shown:
                return 'line %d of a match is not displayed' % k
        hl = re.findall(r'<span style="H" title="[^"]*">'
                        r'((?:.|\n)*?)</span>', page)
        total = sum(len(strip(h).replace('\n', '')) for h in hl)
        want = sum(len(tex[a:b].replace('\n', '')) for a, b in ms)
        if total != want:
            return 'highlighted %d characters, matches cover %d' % (total,
                                                                    want)
        return None
    tex5 = 'aa bb\ncc dd\nee ff\ngg hh tt\nlast\n'
    spans12 = [(0, 2), (3, 5), (3, 20), (6, 8), (9, 11), (12, 14), (3, 8),
               (18, 20), (21, 23), (24, 26), (0, 26), (27, 31)]
    for k in (1, 2, 3):
        for ms in itertools.combinations(spans12, k):
            if k == 3 and (sum(a + 3 * b for a, b in ms) + seed) % 2:
                continue
            for ctx in (0, 1):
                n += 1
                why = run(tex5, sorted(ms), ctx)
                if why:
                    fails.append({'tex': tex5, 'matches': sorted(ms),
                                  'context': ctx, 'why': why})
                    if len(fails) >= 3:
                        return _hres(n, fails)
    for nl in (1, 2, 3, 4):
        for combo in itertools.product(range(len(lines_pool)), repeat=nl):
            if nl >= 3 and rng.random() > (0.25 if nl == 3 else 0.04):
                continue
            tex = ''.join(lines_pool[i] + '\n' for i in combo)
            src_lines = tex.split('\n')[:-1]
            chars = [i for i, c in enumerate(tex) if c != '\n']
            if not chars:
                continue
            spans = []
            for _ in range(3):
                a = rng.choice(chars)
                b = min(len(tex) - 1, a + rng.choice((1, 1, 2, 5)))
                spans.append((a, max(a + 1, b)))
            for ctx in (0, 1, 10 ** 8):
                cmd = types.SimpleNamespace(context=ctx, link=False)
                for m_ in (gh, ut):
                    m_.json_get = jget
                    m_.cmdline = cmd
                for ms in ([spans[0]], [spans[0], spans[1]],
                           [spans[1], spans[2], spans[0]]):
                    ms = sorted(ms)
                    matches = [{
                        'offset': a, 'length': b - a, 'message': 'm<&>',
                        'rule': {'id': 'R', 'category': {'name': 'c'}},
                        'replacements': [{'value': '"v"'}],
                        'context': {'text': tex[a:b], 'offset': 0,
                                    'length': b - a}} for a, b in ms]
                    charmap = list(range(1, len(tex) + 1))
                    n += 1
                    try:
                        r = gh.generate_html(tex, charmap, matches, 'f')
                    except Exception as e:      # noqa
                        fails.append({'tex': tex, 'matches': ms,
                                      'context': ctx, 'why': repr(e)})
                        if len(fails) >= 3:
                            return _hres(n, fails)
                        continue
                    page = r[2]
                    why = None
                    rows = re.findall(
                        r'<tr>\n<td style="N" align="right" valign="top">'
                        r'(\d*)&nbsp;&nbsp;</td>\n<td>((?:.|\n)*?)</td>\n'
                        r'</tr>\n', page)
                    for num, cell in rows:
                        if not num:
                            continue
                        k = int(num) - 1
                        if k >= len(src_lines) or strip(cell) != \
                                src_lines[k].replace('\t', ' ' * 8):
                            why = 'row %s shows %r, source line is %r' % (
                                num, strip(cell), src_lines[k]
                                if k < len(src_lines) else None)
                            break
                    if why is None and ctx == 10 ** 8:
                        nums = [int(x) for x, _ in rows if x]
                        if nums != list(range(1, len(src_lines) + 1)):
                            why = 'whole file expected, rows %r' % nums
                    if why is None:
                        hl = re.findall(r'<span style="H" title="[^"]*">'
                                        r'((?:.|\n)*?)</span>', page)
                        shown = ''.join(strip(h) for h in hl)
                        want_total = sum(len(tex[a:b].replace('\n', ''))
                                         for a, b in ms)
                        if len(shown.replace('\n', '')) != want_total:
                            why = 'highlighted %r (%d chars), matches ' \
                                'cover %d' % (shown, len(shown), want_total)
                    if why:
                        fails.append({'tex': tex, 'matches': ms,
                                      'context': ctx, 'why': why})
                        if len(fails) >= 3:
                            return _hres(n, fails)
    return _hres(n, fails)


def _hres(n, fails):
    return {'name': 'html-cells-reproduce-the-source', 'bounded': True,
            'bound': 'a five-line file with all sets of 1-2 and half of the '
                     'sets of 3 matches out of 12 spans x context 0/1; files '
                     'of 1-2 lines (all) and 3-4 lines (sampled) over 6 line '
                     'texts x 3 match sets x context 0/1/whole file',
            'evaluations': n, 'failures': fails}


def _add_line_numbers(seed):
    from props import bounded
    return bounded.c16_add_line_numbers(seed)


def macroname_bounded(seed):
    """shell/utils.correct_mark_macroname (used for the highlight of a match
    on a single backslash): the length is extended to the macro name that
    starts AT the offset, and only then -- all texts of length <= 6 over
    {backslash, a, B, %, blank, newline}, all offsets, lengths 1 and 2"""
    import itertools
    import re
    from pyvc import replay as _r
    ut = _r.real_module('yalafi.shell.utils')
    n, fails = 0, []
    for ln in range(0, 7):
        for t in itertools.product('\\aB% \n', repeat=ln):
            tex = ''.join(t)
            for off in range(-1, len(tex) + 1):
                for length in (1, 2):
                    n += 1
                    want = length
                    if length == 1 and 0 <= off < len(tex) - 1 and \
                            tex[off] == '\\':
                        k = off + 1
                        while k < len(tex) and tex[k].isascii() and \
                                tex[k].isalpha():
                            k += 1
                        if k > off + 1:
                            want = k - off
                    try:
                        got = ut.correct_mark_macroname(off, length, tex)
                    except Exception as e:      # noqa
                        got = 'exception %r' % (e,)
                    if got != want:
                        fails.append({'latex': tex, 'offset': off,
                                      'length': length, 'got': got,
                                      'expected': want})
                        if len(fails) >= 3:
                            return _mres(n, fails)
    return _mres(n, fails)


def _mres(n, fails):
    return {'name': 'macro-name-highlight-starts-at-the-offset',
            'bounded': True,
            'bound': 'all texts of length <= 6 over 6 characters x all '
                     'offsets x lengths 1, 2',
            'evaluations': n, 'failures': fails}


QUICK_BOUNDED = [gls_bounded, html_rendering_bounded, _add_line_numbers,
                 macroname_bounded]

TRUSTED = [
    're.sub with a single literal character as pattern and a literal replacement is a character-wise map (checked on all pairs '
    'of the eight character classes by running the real function)',
    're.sub(pattern, callback, s): the callback is applied to matches whose groups are substrings of s; the result contains '
    'only callback results and parts of s',
    'JSON type discipline as in C15; get_line_starts returns one increasing entry per line (assumed regex contract)',
]
ASSUMPTIONS = [
    'NOT proved: "stripped of tags and decoded, the line cells reproduce the source lines" (inverse of a regex pipeline), '
    'each-match-exactly-once, and the index safety of add_line_numbers (one table cell per <br> is regex semantics)',
    'the file name (command line) and rule URLs used as href with --link are not among the texts the property lists; they are '
    'inserted unescaped (observation recorded in DESIGN.md)',
    'cmdline.context >= 0 (shell.py replaces a negative --context right after option parsing)',
]
LEVEL_TEXT = ('Proves (1) the escaping lemma by AST check plus evaluation of the real protect_html on every character class: no '
    'character of the source or of a proofreader text can produce < > " or a bare & in the report, and each image decodes '
    'back to its character; (2) the taint discipline over the real code of begin_match, generate_highlight and generate_html: '
    'every string that comes from the LaTeX source or from the proofreader (message, suggestions, context, rule id) reaches '
    'the returned markup only through protect_html, on every path; (3) index safety and in-file spans of generate_html: every '
    'highlight record has 0 <= beg < end <= len(tex) and line numbers inside the list of line starts, every subscript of tex, '
    'charmap and starts is in range, for all match lists accepted by the typing loop.')
LEVEL_NOTE = 'Faithfulness of the rendered source (inverse direction) and exactly-once highlighting are not decided.'
TECHNIQUE = 'contract-based deductive verification: taint (provenance) obligations on strings + index-safety obligations over the real AST, escaping lemma by evaluation, z3'
