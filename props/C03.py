"""C03 -- prose conserved / hidden text never leaks (mechanism lemmas only)."""
from props import common as cm
ID = 'C03'
MODS = cm.MODS_CORE + ['contracts.c_math']
FOCUS = 'range'
FUNCS = [cm.P + n for n in ('expand_sequence', 'remove_pure_action_lines', 'parser_work', 'parse', 'expand_macro', 'expand_arguments', 'arg_buffer', 'generate_replacements', 'begin_environment', 'end_environment', 'get_text_expanded')] + cm.SCANNER + ['yalafi.mathparser.MathParser.expand_math_section', 'yalafi.mathparser.MathParser.replace_section', 'yalafi.mathparser.MathParser.expand_inline_math', 'yalafi.mathparser.MathParser.expand_display_math']


def SELECT(name):
    return not cm.is_safety(name)



def lemmas():
    """ownership lemma for the list of detached text flows (AST scan):
    `X.extracted` is appended to while an argument is still being expanded
    (expand_arguments evaluates `self.extracted.append(<expansion>)`: the
    list object is looked up BEFORE the expansion runs), so the attribute
    must denote the same list object throughout an expansion.  Allowed
    stores: reset to a fresh `[]`, restore of a value saved from the same
    attribute in the same function, `.append` in expand_arguments,
    `del X.extracted[n:]` in get_text_expanded.  Anything else rebinds or
    mutates the list behind a pending append."""
    import ast
    from pyvc import front
    repo = front.repo()
    found = 0

    def rooted(t):
        while isinstance(t, (ast.Subscript, ast.Starred)):
            t = t.value
        return t if isinstance(t, ast.Attribute) and \
            t.attr == 'extracted' else None
    for q, fi in repo.funcs.items():
        saved = set()
        for n in ast.walk(fi.node):
            if isinstance(n, ast.Assign) and len(n.targets) == 1 and \
                    isinstance(n.targets[0], ast.Name) and \
                    isinstance(n.value, ast.Attribute) and \
                    n.value.attr == 'extracted':
                saved.add(n.targets[0].id)
        for n in ast.walk(fi.node):
            if isinstance(n, (ast.Assign, ast.AugAssign, ast.AnnAssign,
                              ast.Delete)):
                ts = n.targets if isinstance(n, (ast.Assign, ast.Delete)) \
                    else [n.target]
                for t in ts:
                    a = rooted(t)
                    if a is None:
                        continue
                    found += 1
                    if isinstance(n, ast.Assign) and a is t:
                        v = n.value
                        ok = (isinstance(v, ast.List) and not v.elts) or (
                            isinstance(v, ast.Name) and v.id in saved)
                        kind = 'assign'
                    elif isinstance(n, ast.Delete) and \
                            isinstance(t, ast.Subscript):
                        ok = q == 'yalafi.parser.Parser.get_text_expanded'
                        kind = 'delete'
                    else:
                        ok, kind = False, type(n).__name__.lower()
                    yield ('frame:flows-list-identity:%s:%s@%d' % (
                        q, kind, n.lineno), ok, '`%s` in %s' % (
                            ast.unparse(n), q), False)
            elif isinstance(n, ast.Call) and \
                    isinstance(n.func, ast.Attribute) and \
                    isinstance(n.func.value, ast.Attribute) and \
                    n.func.value.attr == 'extracted' and \
                    n.func.attr not in ('copy', 'index', 'count'):
                found += 1
                ok = n.func.attr == 'append' and \
                    q == 'yalafi.parser.Parser.expand_arguments'
                yield ('frame:flows-list-identity:%s:%s@%d' % (
                    q, n.func.attr, n.lineno), ok, '`%s` in %s' % (
                        ast.unparse(n)[:80], q), False)
    yield ('frame:flows-list-store-sites-found', True if found >= 4 else None,
           '%d sites' % found, False)
    # what a package hides or removes is declared by the package AND by the
    # packages it requires: evaluation over the shipped package modules --
    # whatever was loaded before (a requirement with other options), after
    # \\usepackage{P} every macro and environment of every requirement of P
    # is declared
    import os
    from contracts import tokmodel as tm
    tm.real_parms()
    import importlib
    parameters = importlib.import_module('yalafi.parameters')
    parser = importlib.import_module('yalafi.parser')
    utils = importlib.import_module('yalafi.utils')
    pkdir = os.path.join(front.REPO, 'yalafi', 'packages')
    mods = sorted(f[:-3] for f in os.listdir(pkdir)
                  if f.endswith('.py') and f != '__init__.py')

    def declared(src):
        pr = parser.Parser(parameters.Parameters())
        base = (set(pr.the_macros), set(pr.the_environments))
        pr.parse(src)
        return (set(pr.the_macros) - base[0],
                set(pr.the_environments) - base[1])
    bad, npk = [], 0
    pm = parameters.Parameters().package_modules
    for m in mods:
        try:
            requ = utils.get_module_handler(m, pm)[0]
        except BaseException:      # noqa
            continue
        if not requ:
            continue
        npk += 1
        want = [set(), set()]
        for r in requ + [m]:
            d = declared('\\usepackage{%s}\n' % r.replace('_', '-'))
            want[0] |= d[0]
            want[1] |= d[1]
        for r0 in requ:
            for opt in ('', '[draft]'):
                src = '\\usepackage%s{%s}\n\\usepackage{%s}\n' % (
                    opt, r0.replace('_', '-'), m.replace('_', '-'))
                got = declared(src)
                miss = sorted((want[0] - got[0]) | (want[1] - got[1]))
                if miss:
                    bad.append((src, miss[:4]))
    yield ('packages:requirements-are-loaded-whatever-was-loaded-before',
           not bad and npk >= 2, 'document, missing declarations: %r' % (
               bad[:2],))


TRUSTED = cm.TRUSTED_CORE
ASSUMPTIONS = cm.ASSUME_CORE + ['assumption NoMathTokensInTextOutput (see DESIGN)', 'which macros exist and what they expand to (parameters.py, packages) is not judged']
LEVEL_TEXT = 'Proves mechanism lemmas as postconditions of single functions: (closure) expand_sequence without env_stop and parse return no token of a markup class (Comment, Macro, Special, Begin, End, Item, Accent, Verbatim, MathBegin) and no Action/Void token -- no control sequence, brace or $ token survives; (tiling) the scanner tokens tile the source, so no character is lost or duplicated by tokenisation; (issue 23) arg_buffer always returns a non-empty buffer and pushes the collected tokens back at end of text; (skip comments) parser_work removes whole token ranges only; (flows) parse appends exactly the collected flows after the main text; maths: every token of a rendered formula is generated text or a pass-through text token. The catalogue-wide sentence (every typeset word appears once) is NOT decided: it needs a formal semantics of LaTeX expansion as oracle.'
LEVEL_NOTE = ('End-to-end conservation of words is out of reach of per-function contracts; known finding F15 (control sequence of babel leaks from an environment end inside maths) is listed, not hidden.'
    + ' A bounded stand-in in the quick tier (hidden text -- skip comments incl. nested / stray / unclosed ones, comments, LTskip, labels -- on small documents; reported as bounded, not counted as proved) states the leak half of the sentence on the real code.')
TECHNIQUE = 'contract-based deductive verification: per-function postconditions and loop invariants over the real AST, z3; end-to-end sentence of the property not decided'


def hidden_text_small_documents(seed):
    """the second sentence of the property (hidden text never leaks, visible
    words appear once and in order) on documents built from up to 5 pieces
    out of 9: visible words, skip comments (opening, closing -- also stray,
    nested and unclosed ones), a comment line, \\LTskip, a label.  Reference:
    a word is hidden iff it stands between an opening skip comment and the
    next closing one (an unclosed region hides nothing), in a comment or in the argument of
    \\LTskip / \\label."""
    import contextlib
    import io
    import itertools
    import re
    from pyvc import replay as _r
    t2t = _r.real_module('yalafi.tex2txt')
    B, E = '%%% LT-SKIP-BEGIN\n', '%%% LT-SKIP-END\n'
    pieces = ['Vis%d word.\n', 'Hid%d \\textbf{text}.\n', B, E,
              '% Com%d ment\n', '\\LTskip{Arg%d} tail%d.\n',
              '\\label{lab%d}\n', B, E]
    n, fails = 0, []
    for ln in range(1, 6):
        for combo in itertools.product(range(len(pieces)), repeat=ln):
            if ln >= 4 and (sum((k + 1) * (i + 2) for i, k in
                                enumerate(combo)) + seed) % (
                                    4 if ln == 4 else 23):
                continue
            if not any(pieces[k] in (B, E) for k in combo):
                continue
            src, want, hidden = '', [], False
            for i, k in enumerate(combo):
                p = pieces[k].replace('%d', str(i))
                src += p
                if pieces[k] == B:
                    # an opening comment that is never closed hides
                    # nothing (error mark, the text is kept: C08)
                    if any(pieces[k2] == E for k2 in combo[i + 1:]):
                        hidden = True
                elif pieces[k] == E:
                    hidden = False
                elif not hidden:
                    if k in (0, 1):
                        want += re.findall(r'[A-Za-z]+\d*', p.replace(
                            '\\textbf', ''))
                    elif k == 5:
                        want += ['tail%d' % i]
            n += 1
            err = io.StringIO()
            try:
                with contextlib.redirect_stderr(err):
                    txt, pos = t2t.tex2txt(src, t2t.Options())
            except BaseException as e:      # noqa
                fails.append({'source': src, 'why': 'exception %r' % (e,)})
                continue
            got = [w for w in re.findall(r'[A-Za-z]+\d*', txt)
                   if w != 'LATEXXXERROR']
            if got != want:
                fails.append({'source': src, 'words': got,
                              'expected': want})
                if len(fails) >= 3:
                    break
        if len(fails) >= 3:
            break
    return {'name': 'hidden-text-never-leaks-visible-words-once',
            'bounded': True,
            'bound': 'documents of <= 5 pieces out of 9 (all up to 3, '
            'a sample of the longer ones)',
            'evaluations': n, 'failures': fails}


QUICK_BOUNDED = [hidden_text_small_documents]
