"""C03 -- prose conserved / hidden text never leaks (mechanism lemmas only)."""
from props import common as cm
ID = 'C03'
MODS = cm.MODS_CORE + ['contracts.c_math']
FOCUS = 'range'
FUNCS = [cm.P + n for n in ('expand_sequence', 'remove_pure_action_lines', 'parser_work', 'parse', 'expand_macro', 'expand_arguments', 'arg_buffer', 'generate_replacements', 'begin_environment', 'end_environment')] + cm.SCANNER + ['yalafi.mathparser.MathParser.expand_math_section', 'yalafi.mathparser.MathParser.replace_section', 'yalafi.mathparser.MathParser.expand_inline_math', 'yalafi.mathparser.MathParser.expand_display_math']


def SELECT(name):
    return not cm.is_safety(name)

TRUSTED = cm.TRUSTED_CORE
ASSUMPTIONS = cm.ASSUME_CORE + ['assumption NoMathTokensInTextOutput (see DESIGN)', 'which macros exist and what they expand to (parameters.py, packages) is not judged']
LEVEL_TEXT = 'Proves mechanism lemmas as postconditions of single functions: (closure) expand_sequence without env_stop and parse return no token of a markup class (Comment, Macro, Special, Begin, End, Item, Accent, Verbatim, MathBegin) and no Action/Void token -- no control sequence, brace or $ token survives; (tiling) the scanner tokens tile the source, so no character is lost or duplicated by tokenisation; (issue 23) arg_buffer always returns a non-empty buffer and pushes the collected tokens back at end of text; (skip comments) parser_work removes whole token ranges only; (flows) parse appends exactly the collected flows after the main text; maths: every token of a rendered formula is generated text or a pass-through text token. The catalogue-wide sentence (every typeset word appears once) is NOT decided: it needs a formal semantics of LaTeX expansion as oracle.'
LEVEL_NOTE = 'End-to-end conservation of words is out of reach of per-function contracts; known finding F15 (control sequence of babel leaks from an environment end inside maths) is listed, not hidden.'
TECHNIQUE = 'contract-based deductive verification: per-function postconditions and loop invariants over the real AST, z3; end-to-end sentence of the property not decided'
