"""Start-up environment of the proofreading shell for the bounded stand-ins.

yalafi/shell/shell.py is a script: it parses the command line, builds the
object `vars` and hands it to the `init(vars)` functions of the report
modules.  A harness that set the module globals of e.g. genhtml by hand would
misrepresent the code as soon as `init` hands over one more value.  Instead
the start-up part of the script -- its module-level statements up to the
import of the proofreader module, taken from the AST of the tree under check
-- is executed as it is, with a given argument vector; the stand-ins call the
real `init(vars)` with the real `vars`."""
import ast
import contextlib
import io
import sys


def startup(argv):
    """globals of shell.py after its start-up part (cmdline, vars, ...)"""
    from pyvc import front, replay
    replay.real_module('yalafi.tex2txt')        # tree under check on sys.path
    mi = front.repo().modules['yalafi.shell.shell']
    body = []
    for st in mi.tree.body:
        if isinstance(st, ast.ImportFrom) and any(
                a.name == 'proofreader' for a in st.names):
            break
        body.append(st)
    mod = ast.Module(body=body, type_ignores=[])
    ast.fix_missing_locations(mod)
    code = compile(mod, mi.path, 'exec')
    g = {'__name__': 'yalafi_shell_startup', '__file__': mi.path}
    old = sys.argv
    sys.argv = ['yalafi.shell'] + list(argv)
    try:
        with contextlib.redirect_stderr(io.StringIO()):
            exec(code, g)
    finally:
        sys.argv = old
    return g


def init_report_module(mod, argv, json_get=None, **cmdline):
    """mod.init(vars) with the vars of a start-up run; cmdline attributes
    and json_get may be overridden.  Returns vars, or None when the start-up
    part cannot be run this way (the caller falls back to its own set-up)."""
    try:
        g = startup(argv)
        v = g['vars']
        if json_get is not None:
            v.json_get = json_get
        for k, x in cmdline.items():
            setattr(v.cmdline, k, x)
        if hasattr(mod, 'init'):
            mod.init(v)
        return v
    except (Exception, SystemExit):     # noqa
        return None
