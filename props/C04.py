"""C04 -- generated text maps into the source span of its construct (frame
rule + interval hull)."""
from props import common as cm
ID = 'C04'
MODS = cm.MODS_CORE
FOCUS = 'range'
P = cm.P
FUNCS = cm.HANDLERS + [P + 'generate_replacements', P + 'expand_arguments',
                       P + 'expand_item', P + 'begin_environment',
                       P + 'end_environment', P + 'parse',
                       P + 'remove_pure_action_lines', P + 'expand_accent',
                       P + 'expand_verb_env_token', 'yalafi.utils.filter_set_toks']


def SELECT(name):
    if cm.is_safety(name):
        return False
    return True


def lemmas():
    out, unknown = cm.decl_lemmas()
    for name, ok, detail in out:
        yield name, ok, detail


TRUSTED = cm.TRUSTED_CORE
ASSUMPTIONS = cm.ASSUME_CORE + [
    'not proved: that the tokens of the actual arguments lie between the '
    'first and last source character of the construct (history of the '
    'push-back buffer); the hull [lo, hi] is the interval spanned by the call '
    'position and the argument tokens',
    'error marks are placed by latex_error (C08) and exempt from the hull',
    'handlers not under contract (generic H assumed): ' +
    '; '.join(cm.HANDLERS_ASSUMED),
    'a default optional argument is pinned to the position of the token that '
    'follows the macro (design finding F8): inside the hull only when a '
    'further argument follows',
]
LEVEL_TEXT = ('Deductive proof of (1) the frame rule "only fresh tokens are stamped": every store to pos/txt/pos_fix of a token '
    'in the verified functions hits a token allocated (constructor, copy.copy) in the same activation -- the repeated-use '
    'failure of the property is exactly a stamp on a shared token; (2) the hull clause of the generic handler contract H for '
    'every shipped handler under contract and for generate_replacements: every token of the result is Ok and its position '
    'lies in the ghost interval spanned by the call position and the positions of the argument tokens; (3) by evaluation, '
    'that every macro/environment declaration satisfies the argument-code requirement (CodeReq) of its handler.')
LEVEL_NOTE = 'The composition "argument tokens lie inside the construct" is assumed, not proved. ' + cm.TRUSTED_CORE[0]
TECHNIQUE = 'contract-based deductive verification: generic handler contract with ghost interval, freshness obligations at every token field store, z3'
