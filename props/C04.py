"""C04 -- generated text maps into the source span of its construct (frame
rule + interval hull)."""
from props import common as cm
ID = 'C04'
MODS = cm.MODS_CORE
FOCUS = 'range'
P = cm.P
FUNCS = cm.HANDLERS + [P + 'generate_replacements', P + 'expand_arguments',
                       P + 'expand_item', P + 'begin_environment',
                       P + 'end_environment', P + 'parse',
                       P + 'remove_pure_action_lines', P + 'expand_accent',
                       P + 'expand_verb_env_token', 'yalafi.utils.filter_set_toks']


def SELECT(name):
    if cm.is_safety(name):
        return False
    return True


def lemmas():
    out, unknown = cm.decl_lemmas()
    for name, ok, detail in out:
        yield name, ok, detail


TRUSTED = cm.TRUSTED_CORE
ASSUMPTIONS = cm.ASSUME_CORE + [
    'not proved: that the tokens of the actual arguments lie between the '
    'first and last source character of the construct (history of the '
    'push-back buffer); the hull [lo, hi] is the interval spanned by the call '
    'position and the argument tokens',
    'error marks are placed by latex_error (C08) and exempt from the hull',
    'handlers not under contract (generic H assumed): ' +
    '; '.join(cm.HANDLERS_ASSUMED),
    'a default optional argument is pinned to the position of the token that '
    'follows the macro (design finding F8): inside the hull only when a '
    'further argument follows',
]
LEVEL_TEXT = ('Deductive proof of (1) the frame rule "only fresh tokens are stamped": every store to pos/txt/pos_fix of a token '
    'in the verified functions hits a token allocated (constructor, copy.copy) in the same activation -- the repeated-use '
    'failure of the property is exactly a stamp on a shared token; (2) the hull clause of the generic handler contract H for '
    'every shipped handler under contract and for generate_replacements: every token of the result is Ok and its position '
    'lies in the ghost interval spanned by the call position and the positions of the argument tokens; (3) by evaluation, '
    'that every macro/environment declaration satisfies the argument-code requirement (CodeReq) of its handler.')
LEVEL_NOTE = ('The composition "argument tokens lie inside the construct" is assumed, not proved. ' + cm.TRUSTED_CORE[0]
    + ' A bounded stand-in in the quick tier (nine generating constructs, each used three times: every generated character maps into its own use) covers repeated use; reported as bounded, not counted as proved.')
TECHNIQUE = 'contract-based deductive verification: generic handler contract with ghost interval, freshness obligations at every token field store, z3'


def repeated_constructs_bounded(seed):
    """generated text maps into the construct that generated it, also when
    the SAME construct is used again (the deductive part proves the frame
    rule "only fresh tokens are stamped" per handler; cached or shared
    tokens in code outside the handlers under contract escape it).  Documents
    `W0 <use> W1 <use> W2 <use> Wend` for 9 generating constructs (user
    macro with and without default, \\cref / \\crefrange through a poorman
    sed file, \\ref, \\LaTeX, \\item with label, \\gls, heading): every
    output character between two marker words must map between them in the
    source"""
    import contextlib
    import io
    import os
    import re
    import shutil
    import tempfile
    from pyvc import replay as _r
    t2t = _r.real_module('yalafi.tex2txt')
    tmp = tempfile.mkdtemp(prefix='c04_rep_')
    sed = ('s/\\\\cref{sec:a}/section\\\\nobreakspace 1/g\n'
           's/\\\\crefrange{eq:1}{eq:3}/eqs.\\\\nobreakspace '
           '\\\\textup {(\\\\ref {eq:1})} to\\\\nobreakspace '
           '\\\\textup {(\\\\ref {eq:3})}/g\n')
    with open(os.path.join(tmp, 'r.sed'), 'w') as f:
        f.write(sed)
    sedfile = os.path.join(tmp, 'r.sed')
    cases = [
        ('', '\\newcommand{\\mm}[1]{<#1 and more>}\n', '\\mm{xy}'),
        ('', '\\newcommand{\\mo}[2][dflt val]{<#1|#2>}\n', '\\mo{xy}'),
        ('cleveref', '\\usepackage[poorman]{cleveref}\n'
         '\\YYCleverefInput{%s}\n' % sedfile, '\\cref{sec:a}'),
        ('cleveref', '\\usepackage[poorman]{cleveref}\n'
         '\\YYCleverefInput{%s}\n' % sedfile, '\\crefrange{eq:1}{eq:3}'),
        ('', '', '\\ref{lab}'), ('', '', '\\LaTeX{}'),
        ('', '', '\\begin{itemize}\\item[lb] it\\end{itemize}'),
        ('', '', '\\begin{enumerate}\\item it\\end{enumerate}'),
        ('', '', '\\section{Head}'),
    ]
    n, fails = 0, []
    try:
        for pack, pre, use in cases:
            body = ''.join('W%d %s ' % (k, use) for k in range(3)) + 'Wend\n'
            src = pre + body
            n += 1
            try:
                with contextlib.redirect_stderr(io.StringIO()):
                    txt, pos = t2t.tex2txt(src, t2t.Options(
                        pack=pack or None))
            except BaseException as e:      # noqa
                fails.append({'source': src, 'why': 'exception %r' % (e,)})
                continue
            marks = ['W0', 'W1', 'W2', 'Wend']
            at = []
            for m_ in marks:
                i = txt.find(m_)
                j = src.find(m_, len(pre))
                if i < 0 or j < 0:
                    at = None
                    break
                at.append((i, j))
            if at is None:
                fails.append({'source': src, 'text': txt,
                              'why': 'marker word lost'})
                continue
            why = None
            for k in range(3):
                (i0, j0), (i1, j1) = at[k], at[k + 1]
                for c in range(i0 + len(marks[k]), i1):
                    p0 = pos[c] - 1
                    if not (j0 + len(marks[k]) - 1 <= p0 <= j1):
                        why = ('character %r of use %d maps to offset %d, '
                               'the use stands at %d..%d' % (
                                   txt[c], k, p0, j0 + len(marks[k]), j1))
                        break
                if why:
                    break
            if why:
                fails.append({'source': src, 'text': txt, 'why': why})
                if len(fails) >= 3:
                    break
    finally:
        shutil.rmtree(tmp, ignore_errors=True)
    return {'name': 'repeated-constructs-map-into-their-own-use',
            'bounded': True, 'bound': '9 constructs, three uses each',
            'evaluations': n, 'failures': fails}


QUICK_BOUNDED = [repeated_constructs_bounded]
