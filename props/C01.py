"""C01 -- every output character has exactly one source position, inside
the source."""
from props import common as cm
ID = 'C01'
MODS = cm.MODS_CORE + ['contracts.c_math']
FOCUS = 'range'
FUNCS = cm.UTILS + cm.SCANNER + cm.BUFFER + cm.PARSER + cm.TEX2TXT + \
    cm.HANDLERS + cm.MATH
# multi-language mode: the mechanically lifted tail of tex2txt.tex2txt (from
# `main_lang = ...` to `return ml`) and the section splitter it calls
MORE = [(['yalafi.tex2txt.tex2txt.<ml_tail>', 'yalafi.utils.get_txt_pos_ml',
          'yalafi.utils.ml_append_placeholder'],
         ['contracts.c_externs', 'contracts.c_utils', 'contracts.c_tex2txt',
          'contracts.c_ml'])]


def SELECT(name):
    return not cm.is_safety(name)


TRUSTED = cm.TRUSTED_CORE
ASSUMPTIONS = cm.ASSUME_CORE
LEVEL_TEXT = ('Deductive proof, function by function over the real sources, of the token object invariant Ok(t, N) '
    '(0 <= pos < N; pos + len(txt) <= N unless all characters share one position) at every site that creates, copies '
    'or stamps a token in scanner.py, parser.py and utils.py, of the lock-step text/map construction in get_txt_pos, of '
    'the range preservation of substitute/replace_phrases, and of the composition lemma of tex2txt.tex2txt '
    '(len(text) == len(map), 1 <= p <= len(source)) from the callee contracts, for all inputs and iterations, in single-language mode and (lifted tail) for every part returned in multi-language mode.')
LEVEL_NOTE = ('Trusted: the pyvc VC generator and encodings, z3; assumed contracts for the standard library and for '
    'object construction / module loading (Parser(), Parameters(), get_packages); handlers of macros are represented by '
    'the generic handler contract H at their call site (each shipped handler is checked against H in C04/C07); '
    'multi-language mode: the tail of tex2txt.tex2txt is lifted mechanically and proved (every part of every language has len(text) == len(map) and 1-based positions inside the source, given the contract of get_txt_pos_ml, which is proved as well); assumption NoMathTokensInTextOutput.')
TECHNIQUE = 'contract-based deductive verification: VCs generated from the Python AST of the real functions (object invariant + loop invariants + callee contracts), discharged by z3'
