"""C18 -- extraction and inclusion tracking (include work-list loop)."""
ID = 'C18'
MODS = ['contracts.c_externs', 'contracts.c_include']
FUNCS = ['yalafi.shell.shell.<include_loop>']
TRUSTED = [
    'mechanical extraction (pyvc/front.py lift_include_loop): the module-level statements of yalafi/shell/shell.py from '
    '`todo = cmdline.file` to `cmdline.file = done` become the body of a function with parameters cmdline, opts; nothing is '
    'rewritten',
    'file names are abstracted to opaque identities (only ==, .endswith(\'.tex\') and + \'.tex\' are applied to them); the file '
    'system is a ghost map name -> names extracted from that file; tex2txt.tex2txt(.., extraction options) returns exactly '
    'those names (the extraction list semantics itself, Parser.init_extractions, is NOT verified)',
    'list membership is an uninterpreted predicate with the lemmas of pop(0), append, + and the empty list (contracts/c_include.py)',
]
ASSUMPTIONS = [
    'termination needs a finite set of reachable file names (not proved)',
    'first half of the property (an extraction list yields exactly the first mandatory arguments of the listed macros) is not '
    'covered: init_extractions is not under contract',
    'when the solver answers unknown for an obligation, a bounded native search over inclusion graphs with at most 6 names runs '
    'the lifted statements themselves; it can only refute',
]
LEVEL_TEXT = ('Deductive proof, over the lifted real statements, of the work-list invariants of --include: the list of checked '
    'files is duplicate-free (each file once), contains no file matching --skip, and at exit is closed under "includes" (every '
    'name extracted from a checked file, with .tex added where missing, is skipped or checked), for all inclusion graphs, '
    'including cycles and self-inclusion. Discovery order and termination are not proved.')
LEVEL_NOTE = 'Loop lifted mechanically from a script; names abstracted to identities; extraction semantics assumed.'
TECHNIQUE = 'contract-based deductive verification of a mechanically lifted loop: quantified loop invariants over array-encoded lists, uninterpreted membership with operation lemmas, z3'
