"""C18 -- extraction and inclusion tracking (include work-list loop)."""
ID = 'C18'
MODS = ['contracts.c_externs', 'contracts.c_include']
FUNCS = ['yalafi.shell.shell.<include_loop>']
# first half of the property: the extraction list (token-model contracts)
MORE = [(['yalafi.parser.Parser.init_extractions',
          'yalafi.defs.Expandable.__init__.<locals>.check',
          # anchor "main text dropped when extracting": the flows handed out
          # by parse refer to the document, none to the definition text
          'yalafi.parser.Parser.parse',
          # "occurrences in ... skipped regions are not reported", each
          # occurrence once: the skip loop copies no token twice
          'yalafi.parser.Parser.parser_work'],
         ['contracts.c_externs', 'contracts.c_utils', 'contracts.c_scanner',
          'contracts.c_parser', 'contracts.c_tex2txt',
          'contracts.c_handlers'])]


def SELECT(name):
    # utils.fatal in the guard of macro definitions is a clean exit by design
    return 'Expandable.__init__.<locals>.check:call:fatal' not in name


def lemmas():
    """evaluation lemmas on the real scanner / parser of the tree under
    check: the text '#k' scans to exactly one reference to argument k; and
    a cross-check of Parser.init_extractions on the real macro table: a
    listed macro extracts its first mandatory argument, every other macro
    extracts nothing and has an empty body"""
    import importlib
    from contracts import tokmodel as tm
    p = tm.real_parms()
    defs = importlib.import_module('yalafi.defs')
    parser = importlib.import_module('yalafi.parser')
    ok, shown = True, ''
    for k in range(1, 10):
        toks = p.scanner.scan('#%d' % k)
        if not (len(toks) == 1 and type(toks[0]) is defs.ArgumentToken and
                toks[0].arg == k):
            ok, shown = False, "scan('#%d') -> %r" % (k, toks)
            break
    yield ('extract:scan-of-#k-is-reference-to-argument-k', ok, shown)
    yield ('extract:scan-of-empty-text-is-empty', p.scanner.scan('') == [],
           '')
    P = parser.Parser(p)
    names = sorted(P.the_macros)
    listed = [n for i, n in enumerate(names) if i % 3 == 0] + ['\\zzznew']
    codes = {n: P.the_macros[n].args for n in names}
    P.init_extractions(listed)
    bad = []
    for n, m in P.the_macros.items():
        a = codes.get(n, 'A')
        want = []
        if n in listed and 'A' in a:
            want = [a.index('A') + 1]
        got = [t.arg for t in m.extract]
        if got != want or not all(type(t) is defs.ArgumentToken
                                  for t in m.extract) or m.repl != []:
            bad.append((n, a, got))
    yield ('extract:real-table:listed-macros-extract-first-mandatory-'
           'argument-others-nothing', not bad, 'macro, code, extracted: %r'
           % (bad[:3],))
def extraction_small_documents(seed):
    """that the expander emits exactly the first mandatory arguments of the
    listed macros, in order, and nothing from comments, skipped regions and
    verbatim material is not decided deductively: bounded stand-in on all
    documents of <= 4 pieces over a catalogue of 9 pieces"""
    import itertools
    from pyvc import replay as _r
    t2t = _r.real_module('yalafi.tex2txt')
    pieces = [
        ('\\input{a} ', ['a']), ('%\\input{b}\n', []),
        ('\\verb|\\input{c}| ', []),
        ('\\begin{verbatim}\\input{d}\\end{verbatim} ', []),
        ('\n%%% LT-SKIP-BEGIN\n\\input{e}\n%%% LT-SKIP-END\n', []),
        ('word ', []), ('\\include{f} ', ['f']), ('\\other{g} ', []),
        ('\\input xy ', ['x']),
    ]
    n, fails = 0, []
    for ln in range(0, 5):
        for combo in itertools.product(range(len(pieces)), repeat=ln):
            if ln == 4 and (sum(combo) + seed) % 3:
                continue
            src = ''.join(pieces[i][0] for i in combo)
            want = [nm for i in combo for nm in pieces[i][1]]
            n += 1
            try:
                plain, _ = t2t.tex2txt(src, t2t.Options(
                    extr='input,include'))
            except Exception as e:      # noqa
                fails.append({'input': src, 'why': 'exception %r' % (e,)})
                continue
            got = plain.split()
            if got != want:
                fails.append({'input': src, 'extracted': got,
                              'expected': want})
            if len(fails) >= 3:
                break
        if len(fails) >= 3:
            break
    return {'name': 'extraction-on-small-documents', 'bounded': True,
            'bound': 'all documents of <= 3 pieces and a third of those with '
                     '4 pieces over a catalogue of 9 pieces, extraction list '
                     'input,include',
            'evaluations': n, 'failures': fails}


def skip_pattern_bounded(seed):
    """`--skip`: a file is left out iff its WHOLE name matches the regular
    expression (the include loop treats skip_file as an opaque predicate).
    The function skip_file of shell.py (a script: the def is taken from the
    module AST and compiled as it is) against re.fullmatch on all names of
    <= 4 pieces over {a, b, ., /, tex} and six patterns"""
    import ast
    import itertools
    import re
    import types
    from pyvc import front
    repo = front.repo()
    mi = repo.modules['yalafi.shell.shell']
    fdef = next(n for n in mi.tree.body if isinstance(n, ast.FunctionDef)
                and n.name == 'skip_file')
    # module-level statements that bind a name skip_file reads (e.g. a
    # regular expression compiled once at start-up) are taken along, in
    # source order
    bound_in = {a.arg for a in fdef.args.args} | {
        x.id for x in ast.walk(fdef) if isinstance(x, ast.Name)
        and isinstance(x.ctx, ast.Store)}
    free = {x.id for x in ast.walk(fdef) if isinstance(x, ast.Name)
            and isinstance(x.ctx, ast.Load)} - bound_in - {'re', 'cmdline'}
    deps = []
    for st_ in mi.tree.body:
        if st_ is fdef or isinstance(st_, (ast.FunctionDef, ast.ClassDef,
                                           ast.Import, ast.ImportFrom)):
            continue
        if any(isinstance(x, ast.Name) and isinstance(x.ctx, ast.Store)
               and x.id in free for x in ast.walk(st_)):
            deps.append(st_)
    code = compile(ast.Module(body=deps + [fdef], type_ignores=[]), mi.path,
                   'exec')

    class _T2T:
        @staticmethod
        def fatal(msg):
            raise SystemExit(1)
    n, fails = 0, []
    pats = [None, 'a\\.tex', 'a|b', 'b/.*', '.*a', 'a.tex', '(a|b)\\.tex']
    names = set()
    for ln in range(1, 5):
        for t in itertools.product(['a', 'b', '.', '/', 'tex'], repeat=ln):
            names.add(''.join(t))
    for pat in pats:
        g = {'re': re, 'cmdline': types.SimpleNamespace(skip=pat),
             'tex2txt': _T2T, 'sys': __import__('sys')}
        try:
            exec(code, g)
        except NameError as e:
            # the function cannot be isolated from the script any more:
            # the stand-in does not apply (said so, nothing is reported)
            return {'name': 'skip-pattern-matches-whole-file-names',
                    'bounded': True, 'bound': 'not applicable: %s' % e,
                    'evaluations': 0, 'failures': []}
        for fn in sorted(names):
            n += 1
            want = bool(pat) and re.fullmatch(pat, fn) is not None
            try:
                got = bool(g['skip_file'](fn))
            except NameError as e:
                return {'name': 'skip-pattern-matches-whole-file-names',
                        'bounded': True, 'bound': 'not applicable: %s' % e,
                        'evaluations': 0, 'failures': []}
            except Exception as e:      # noqa
                got = 'exception %r' % (e,)
            if got != want:
                fails.append({'skip': pat, 'file': fn, 'skipped': got,
                              'expected': want})
                if len(fails) >= 3:
                    break
        if len(fails) >= 3:
            break
    return {'name': 'skip-pattern-matches-whole-file-names',
            'bounded': True,
            'bound': '7 patterns x all names of <= 4 pieces over 5 pieces',
            'evaluations': n, 'failures': fails}


def include_graphs_bounded(seed):
    """second half of the property on the real start-up code of the script
    (props/shellenv.py: module-level statements of shell.py up to the import
    of the proofreader, i.e. including the --include work list): four files
    in a scratch directory, inclusion graphs from a catalogue (chains, a
    cycle, self-inclusion, a file included twice, a name without .tex),
    every non-empty list of <= 2 root files (also a duplicate), with and
    without --skip; expected: the files reachable from the roots, each once,
    in discovery order, none that matches --skip (roots included)"""
    import itertools
    import os
    import re
    import shutil
    import tempfile
    from props import shellenv
    names = ['m.tex', 'a.tex', 'b.tex', 'f1.tex']
    graphs = [
        {'m.tex': ['a'], 'a.tex': ['b'], 'b.tex': [], 'f1.tex': ['b']},
        {'m.tex': ['a', 'f1'], 'a.tex': ['m'], 'b.tex': [],
         'f1.tex': ['b.tex', 'a']},
        {'m.tex': ['m', 'b', 'b'], 'a.tex': [], 'b.tex': ['f1'],
         'f1.tex': ['a']},
    ]
    roots = [[x] for x in names] + [list(t) for t in itertools.permutations(
        names, 2) if (names.index(t[0]) + 2 * names.index(t[1]) + seed) % 3
        == 0] + [['m.tex', 'm.tex'], ['f1.tex', 'm.tex']]
    n, fails = 0, []
    cwd = os.getcwd()
    tmp = tempfile.mkdtemp(prefix='c18_incl_')
    try:
        os.chdir(tmp)
        for gr in graphs:
            for f, incl in gr.items():
                with open(f, 'w') as fh:
                    fh.write('Text of %s.\n' % f + ''.join(
                        '\\input{%s}\n' % x for x in incl))
            for rt in roots:
                for skip in (None, 'f.*', 'a\\.tex|b'):
                    def skipped(f):
                        return bool(skip) and re.fullmatch(skip, f) is not None
                    todo, want = list(rt), []
                    while todo:
                        f = todo.pop(0)
                        if f in want or skipped(f):
                            continue
                        want.append(f)
                        for x in gr[f]:
                            x = x if x.endswith('.tex') else x + '.tex'
                            if x not in want + todo and not skipped(x):
                                todo.append(x)
                    argv = ['--no-config', '--include'] + (
                        ['--skip', skip] if skip else []) + rt
                    n += 1
                    try:
                        g = shellenv.startup(argv)
                        got = list(g['cmdline'].file)
                    except BaseException as e:      # noqa
                        got = 'exception %r' % (e,)
                    if got != want:
                        fails.append({'files': gr, 'command': argv,
                                      'checked': got, 'expected': want})
                        if len(fails) >= 3:
                            break
                if len(fails) >= 3:
                    break
            if len(fails) >= 3:
                break
    finally:
        os.chdir(cwd)
        shutil.rmtree(tmp, ignore_errors=True)
    return {'name': 'include-work-list-on-small-graphs', 'bounded': True,
            'bound': '3 graphs over 4 files x %d root lists x 3 skip '
            'patterns' % len(roots), 'evaluations': n, 'failures': fails}


QUICK_BOUNDED = [extraction_small_documents, skip_pattern_bounded,
                 include_graphs_bounded]

TRUSTED = [
    'mechanical extraction (pyvc/front.py lift_include_loop): the module-level statements of yalafi/shell/shell.py from '
    '`todo = cmdline.file` to `cmdline.file = done` become the body of a function with parameters cmdline, opts; nothing is '
    'rewritten',
    'file names are abstracted to opaque identities (only ==, .endswith(\'.tex\') and + \'.tex\' are applied to them); the file '
    'system is a ghost map name -> names extracted from that file; tex2txt.tex2txt(.., extraction options) returns exactly '
    'those names (of the extraction semantics only Parser.init_extractions is verified, see below)',
    'list membership is an uninterpreted predicate with the lemmas of pop(0), append, + and the empty list (contracts/c_include.py)',
]
ASSUMPTIONS = [
    'termination needs a finite set of reachable file names (not proved)',
    'first half of the property: proved is that init_extractions gives every listed macro the extraction text #k with k-1 the '
    'index of the FIRST mandatory argument (none: empty), every other macro the empty extraction and an empty body, and '
    'registers unknown listed names with one mandatory argument; that the expander then emits exactly these arguments in '
    'order of appearance, and nothing from comments / skipped regions / verbatim, rests on the C03 lemmas and is not decided here',
    'when the solver answers unknown for an obligation, a bounded native search over inclusion graphs with at most 6 names runs '
    'the lifted statements themselves; it can only refute',
]
LEVEL_TEXT = ('Extraction list: Parser.init_extractions is proved (loop contracts over the abstract macro table) to hand the '
    'scanner, for a listed macro, exactly the text #k where k-1 is the least index of an A in the argument code, else the '
    'empty text; the guard Expandable.check establishes argument references in range or exits; evaluation lemmas on the real '
    'scanner and macro table close the gap to tokens. Parser.parse hands out only tokens and detached flows of the document text (flows collected while parsing the definition text are dropped before the document is parsed). Inclusion tracking: deductive proof, over the lifted real statements, of the work-list invariants of --include: the list of checked '
    'files is duplicate-free (each file once), contains no file matching --skip, and at exit is closed under "includes" (every '
    'name extracted from a checked file, with .tex added where missing, is skipped or checked), for all inclusion graphs, '
    'including cycles and self-inclusion. Discovery order and termination are not proved.')
LEVEL_NOTE = 'Loop lifted mechanically from a script; names abstracted to identities; extraction semantics assumed.'
TECHNIQUE = 'contract-based deductive verification of a mechanically lifted loop: quantified loop invariants over array-encoded lists, uninterpreted membership with operation lemmas, z3'
