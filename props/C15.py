"""C15 -- any proofreader answer gives an in-file report or a clean error,
no traceback (JSON typing discipline + index safety)."""
ID = 'C15'
MODS = ['contracts.c_externs', 'contracts.c_utils', 'contracts.c_shell']
SH = 'yalafi.shell.'
FUNCS = [SH + 'utils.map_match_position', SH + 'utils.correct_mark_macroname',
         SH + 'gentext.output_text_report',
         SH + 'genjson.output_json.<locals>.f',
         SH + 'genxml.output_xml_report',
         SH + 'proofreader.run_proofreader_options',
         SH + 'server.Handler.create_message',
         SH + 'checks.create_context', SH + 'checks.create_message',
         # mechanically lifted: the statements that decode the raw answer
         SH + 'proofreader.run_languagetool.<decode_answer>',
         SH + 'proofreader.run_textgears.<decode_answer>']
TRUSTED = [
    'json_get(dic, item, typ) returns a value of type typ or does not return (six lines, assumed); json_fatal / tex2txt.fatal '
    'write one line and exit with status 1',
    'JSON values are modelled as values of unknown type (pyvc/jsonval.py): every subscript, membership test, iteration, '
    'arithmetic, comparison, concatenation and use as index on such a value is an obligation json-safe:* that must follow from '
    'type facts established on the path',
    'json / subprocess / urllib: assumed that bytes.decode and JSONDecoder.decode may raise (UnicodeDecodeError, JSONDecodeError, '
    'RecursionError); the statements of run_languagetool / run_textgears that decode the raw answer are lifted mechanically '
    '(pyvc/front.py lift_answer_decoding: from the first to the last top-level statement that calls a .decode method) and '
    'proved to run inside a try block with a catch-all handler that ends in the one-line error; the HTTP / subprocess part '
    'before it is outside',
]
ASSUMPTIONS = [
    'HTML mode (generate_html) is not under contract yet',
    'bool is an int in Python: json_get(..., int) accepts true/false; arithmetic on it is harmless',
]
LEVEL_TEXT = ('Deductive proof of the JSON type discipline in the report generators and of the location range: every access to '
    'a value that came from the proofreader goes through json_get or follows from a type fact established before (the typing '
    'loop of run_proofreader_options establishes integer offset and length for every match, the sort key rejects offsets '
    'outside the text with the one-line error); after map_match_position 0 <= offset < len(tex) and offset+length <= len(tex), '
    'so lines and columns are computed from in-file offsets; all subscripts in these functions are index-safe; the conversion of the raw answer (bytes -> text -> JSON) happens inside a try block whose handler catches everything and exits with the one-line diagnostic.')
LEVEL_NOTE = 'Covers text, JSON, XML and server routes; HTML route and the decoding of the raw answer are assumed.'
TECHNIQUE = 'contract-based deductive verification: type-state obligations on JSON values + run-time-error obligations, z3'
