"""C15 -- any proofreader answer gives an in-file report or a clean error,
no traceback (JSON typing discipline + index safety)."""
ID = 'C15'
MODS = ['contracts.c_externs', 'contracts.c_utils', 'contracts.c_shell']
SH = 'yalafi.shell.'
FUNCS = [SH + 'utils.map_match_position', SH + 'utils.correct_mark_macroname',
         SH + 'gentext.output_text_report',
         SH + 'genjson.output_json.<locals>.f',
         SH + 'genxml.output_xml_report',
         SH + 'proofreader.run_proofreader_options',
         SH + 'server.Handler.create_message',
         SH + 'checks.create_context', SH + 'checks.create_message',
         # mechanically lifted: the statements that decode the raw answer
         SH + 'proofreader.run_languagetool.<decode_answer>',
         SH + 'proofreader.run_textgears.<decode_answer>']
def html_hostile_strings(seed):
    """HTML route (generate_html is under contract for index safety and
    spans only; add_line_numbers and the row-splitting regex are not): the
    real generate_html on a two-line file and one match whose string fields
    are drawn from a hostile set (line breaks, the row separator itself,
    quotes, ampersands, empty) -- no exception other than the clean exit"""
    import itertools
    import types
    from pyvc import replay as _r
    gh = _r.real_module('yalafi.shell.genhtml')
    ut = _r.real_module('yalafi.shell.utils')

    def jget(dic, item, typ):
        if not isinstance(dic, dict) or item not in dic or \
                not isinstance(dic[item], typ):
            raise SystemExit(1)
        return dic[item]
    # the real init(vars) with the vars of the script's own start-up code
    # (props/shellenv.py); by hand only as a fallback
    from props import shellenv
    v = shellenv.init_report_module(gh, ['--output', 'html', 'f.tex'],
                                    json_get=jget, context=2, link=True)
    cmd = v.cmdline if v is not None else types.SimpleNamespace(
        context=2, link=True)
    for m_ in (gh, ut):
        m_.json_get = jget
        m_.cmdline = cmd
    if v is None:
        gh.highlight_style = 'h'
        gh.number_style = 'n'
    if not hasattr(gh, 'highlight_style_unsure'):
        gh.highlight_style_unsure = 'u'     # never set by init (dead code)
    tex = 'This isx a test.\nSecond line.\n'
    charmap = list(range(1, len(tex) + 1))
    hostile = ['m', 'a\nb', '<br>\n', '"', '&<>', '']
    n, fails = 0, []
    for msg, ctx, val, rid in itertools.product(hostile, repeat=4):
        for off, ln in ((5, 3), (0, 1), (17, 6)):
            n += 1
            c = ctx + 'xx'
            m = {'offset': off, 'length': ln, 'message': msg,
                 'rule': {'id': rid, 'category': {'name': 'c'},
                          'urls': [{'value': val}]},
                 'replacements': [{'value': val}],
                 'context': {'text': c, 'offset': 0, 'length': len(c)}}
            try:
                gh.generate_html(tex, charmap, [m], 'f.tex')
            except SystemExit:
                pass
            except Exception as e:      # noqa
                fails.append({'match': m, 'why': 'exception %r' % (e,)})
                if len(fails) >= 3:
                    return {'name': 'html-report-for-hostile-strings',
                            'bounded': True, 'bound': 'see evidence',
                            'evaluations': n, 'failures': fails}
    return {'name': 'html-report-for-hostile-strings', 'bounded': True,
            'bound': 'one match at 3 places x 6^4 combinations of hostile '
                     'values for message, context, replacement/url, rule id',
            'evaluations': n, 'failures': fails}


def json_get_contract_bounded(seed):
    """the assumed contract of shell.json_get (six lines of the script; every
    JSON type fact of the deductive part rests on it): for a dictionary that
    has `item` with a value of type `typ` it returns THAT value (the stored
    object: callers read the entry again later), in every other case it
    does not return (json_fatal: one diagnostic line, exit status 1).
    Exhaustive over 5 containers x 11 values x 5 types, on the real function
    taken from the script's start-up code (props/shellenv.py)"""
    import contextlib
    import io
    from props import shellenv
    g = shellenv.startup(['--no-config', 'f.tex'])
    jg = g['json_get']
    vals = [0, 5, 5.0, 5.5, True, None, 'a', '', [], [1], {}]
    types = [int, str, dict, list, bool]
    n, fails = 0, []
    for v in vals:
        for cont in ({'k': v}, {}, None, [v], 'k'):
            for typ in types:
                n += 1
                want = isinstance(cont, dict) and 'k' in cont and \
                    isinstance(cont['k'], typ)
                err = io.StringIO()
                try:
                    with contextlib.redirect_stderr(err):
                        r = jg(cont, 'k', typ)
                    got = 'returned'
                except SystemExit as e:
                    got = 'exit %r' % (e.code,)
                    r = None
                except Exception as e:      # noqa
                    got = 'exception %r' % (e,)
                    r = None
                why = None
                if want and not (got == 'returned' and r is cont['k']):
                    why = 'expected the stored value, %s %r' % (got, r)
                elif not want and got != 'exit 1':
                    why = 'expected the clean exit, %s %r' % (got, r)
                if why:
                    fails.append({'container': repr(cont), 'type':
                                  typ.__name__, 'why': why})
                    if len(fails) >= 3:
                        break
            if len(fails) >= 3:
                break
        if len(fails) >= 3:
            break
    return {'name': 'json_get-returns-the-stored-typed-value-or-exits',
            'bounded': True, 'bound': '11 values x 5 containers x 5 types',
            'evaluations': n, 'failures': fails}


QUICK_BOUNDED = [html_hostile_strings, json_get_contract_bounded]

TRUSTED = [
    'json_get(dic, item, typ) returns a value of type typ or does not return (six lines, assumed); json_fatal / tex2txt.fatal '
    'write one line and exit with status 1',
    'JSON values are modelled as values of unknown type (pyvc/jsonval.py): every subscript, membership test, iteration, '
    'arithmetic, comparison, concatenation and use as index on such a value is an obligation json-safe:* that must follow from '
    'type facts established on the path',
    'json / subprocess / urllib: assumed that bytes.decode and JSONDecoder.decode may raise (UnicodeDecodeError, JSONDecodeError, '
    'RecursionError); the statements of run_languagetool / run_textgears that decode the raw answer are lifted mechanically '
    '(pyvc/front.py lift_answer_decoding: from the first to the last top-level statement that calls a .decode method) and '
    'proved to run inside a try block with a catch-all handler that ends in the one-line error; the HTTP / subprocess part '
    'before it is outside',
]
ASSUMPTIONS = [
    'HTML mode (generate_html) is not under contract yet',
    'bool is an int in Python: json_get(..., int) accepts true/false; arithmetic on it is harmless',
]
LEVEL_TEXT = ('Deductive proof of the JSON type discipline in the report generators and of the location range: every access to '
    'a value that came from the proofreader goes through json_get or follows from a type fact established before (the typing '
    'loop of run_proofreader_options establishes integer offset and length for every match, the sort key rejects offsets '
    'outside the text with the one-line error); after map_match_position 0 <= offset < len(tex) and offset+length <= len(tex), '
    'so lines and columns are computed from in-file offsets; all subscripts in these functions are index-safe; the conversion of the raw answer (bytes -> text -> JSON) happens inside a try block whose handler catches everything and exits with the one-line diagnostic.')
LEVEL_NOTE = 'Covers text, JSON, XML and server routes; HTML route and the decoding of the raw answer are assumed.'
TECHNIQUE = 'contract-based deductive verification: type-state obligations on JSON values + run-time-error obligations, z3'
