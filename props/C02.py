"""C02 -- text copied from the document maps to exactly the offset where it
stands."""
from props import common as cm
ID = 'C02'
MODS = cm.MODS_CORE
FOCUS = 'all'
FUNCS = ['yalafi.utils.get_txt_pos', 'yalafi.utils.latex_error',
         # text behind a replaced phrase keeps its exact offsets
         'yalafi.utils.substitute', 'yalafi.utils.replace_phrases'] + \
    cm.SCANNER + cm.BUFFER + cm.PARSER


def SELECT(name):
    return not cm.is_safety(name)


TRUSTED = cm.TRUSTED_CORE
ASSUMPTIONS = cm.ASSUME_CORE + [
    'which LaTeX constructs count as "copied" is read off the code: '
    'whatever token is left non-fixed; the contract guarantees that such a '
    'token of more than one character is the source slice at its position, '
    'and that the scanner tokens tile the source',
]
LEVEL_TEXT = ('Deductive proof of the Exact part of the token invariant: a non-fixed token of more than one character '
    'is the slice source[pos:pos+len] (scanner: every token is the slice it was cut from and tokens tile the source; '
    'parser: every site that copies, cuts or re-stamps a token keeps this, e.g. line removal, accent macros, verbatim '
    'tokens), together with the exact map of get_txt_pos (k-th character of a non-fixed token gets pos+k, of a fixed '
    'token pos).')
LEVEL_NOTE = cm.TRUSTED_CORE[0] + '; single-character replacement tokens (specials, accents) are only required to sit on the position of the token they replace; assumption NoMathTokensInTextOutput.'
TECHNIQUE = 'contract-based deductive verification: object invariant Exact over the real sources, array-encoded source text, z3'
