"""C02 -- text copied from the document maps to exactly the offset where it
stands."""
from props import common as cm
ID = 'C02'
MODS = cm.MODS_CORE
FOCUS = 'all'
FUNCS = ['yalafi.utils.get_txt_pos', 'yalafi.utils.latex_error',
         # text behind a replaced phrase keeps its exact offsets
         'yalafi.utils.substitute', 'yalafi.utils.replace_phrases'] + \
    cm.SCANNER + cm.BUFFER + cm.PARSER


def SELECT(name):
    return not cm.is_safety(name)


TRUSTED = cm.TRUSTED_CORE
ASSUMPTIONS = cm.ASSUME_CORE + [
    'which LaTeX constructs count as "copied" is read off the code: '
    'whatever token is left non-fixed; the contract guarantees that such a '
    'token of more than one character is the source slice at its position, '
    'and that the scanner tokens tile the source',
]
LEVEL_TEXT = ('Deductive proof of the Exact part of the token invariant: a non-fixed token of more than one character '
    'is the slice source[pos:pos+len] (scanner: every token is the slice it was cut from and tokens tile the source; '
    'parser: every site that copies, cuts or re-stamps a token keeps this, e.g. line removal, accent macros, verbatim '
    'tokens), together with the exact map of get_txt_pos (k-th character of a non-fixed token gets pos+k, of a fixed '
    'token pos).')
LEVEL_NOTE = cm.TRUSTED_CORE[0] + '; single-character replacement tokens (specials, accents) are only required to sit on the position of the token they replace; assumption NoMathTokensInTextOutput.' + ' A bounded stand-in in the quick tier (every letter of the output of 540 small documents of copied constructs in varied layouts sits on its own source character) states the end-to-end sentence on the real code; reported as bounded, not counted as proved.'
TECHNIQUE = 'contract-based deductive verification: object invariant Exact over the real sources, array-encoded source text, z3'


def copied_characters_bounded(seed):
    """"source[p-1] == character" for every letter / digit of the output, on
    documents whose letters are all copies (no generated text): words,
    \\verb, verbatim environments (opening line with and without trailing
    blanks / tabs / a comment), arguments of unknown macros, user macros,
    footnotes, \\text in maths -- each in several layouts of blanks, line
    breaks and comments around it"""
    import contextlib
    import io
    import itertools
    from pyvc import replay as _r
    t2t = _r.real_module('yalafi.tex2txt')

    def run(src):
        with contextlib.redirect_stderr(io.StringIO()):
            return t2t.tex2txt(src, t2t.Options())
    pieces = ['word', '\\verb|xyz|', '\\verb+a b+',
              '\\begin{verbatim}%s\nabc def\n  ghi\n\\end{verbatim}',
              '\\unknownmacro{arg}', '\\footnote{note}',
              '\\newcommand{\\um}[1]{#1}\\um{passed}',
              '\\emph{emphasised}', '\\textbf{\\emph{deep}}',
              '{grouped}']
    trail = ['', ' ', '  ', '\t', ' \t ', ' % c']
    seps = [' ', '\n', ' % comment\n', '\n\n', '  \n  ', '\n% c\n']
    n, fails = 0, []
    docs = []
    for p, (s1, s2) in itertools.product(pieces,
                                         itertools.product(seps, repeat=2)):
        for tr in (trail if '%s' in p else ['']):
            q = p % tr if '%s' in p else p
            docs.append('A' + s1 + q + s2 + 'B\n')
    for doc in docs:
        n += 1
        try:
            plain, pos = run(doc)
        except BaseException as e:      # noqa
            fails.append({'document': doc, 'why': 'exception %r' % (e,)})
            continue
        bad = [(i, c, q) for i, (c, q) in enumerate(zip(plain, pos))
               if c.isalnum() and not (1 <= q <= len(doc)
                                       and doc[q - 1] == c)]
        if bad:
            i, c, q = bad[0]
            fails.append({'document': doc, 'text': plain,
                          'output index': i, 'character': c,
                          'mapped to offset': q,
                          'source character there':
                              doc[q - 1] if 1 <= q <= len(doc) else None})
            if len(fails) >= 3:
                break
    return {'name': 'copied-characters-carry-their-own-offset',
            'bounded': True,
            'bound': '%d documents: %d constructs x %d x %d layouts '
                     '(x %d endings of the verbatim opening line)' % (
                         len(docs), len(pieces), len(seps), len(seps),
                         len(trail)),
            'evaluations': n, 'failures': fails}


QUICK_BOUNDED = [copied_characters_bounded]
