"""C14 -- a proofreader match is reported at the flagged word in the LaTeX
file (position arithmetic lemmas)."""
ID = 'C14'
MODS = ['contracts.c_externs', 'contracts.c_utils', 'contracts.c_shell']
SH = 'yalafi.shell.'
FUNCS = [SH + 'utils.map_match_position', SH + 'utils.correct_mark_macroname',
         SH + 'gentext.output_text_report',
         SH + 'genjson.output_json.<locals>.f',
         SH + 'genxml.output_xml_report',
         SH + 'proofreader.run_proofreader_options',
         SH + 'server.Handler.create_message']


def SELECT(name):
    return 'json-safe' not in name


def formats_agree_bounded(seed):
    """the sentence of the property end to end, in process: the real
    run_proofreader_options (with a stand-in for run_languagetool that flags
    one given word of whatever plain text it receives) and the real text /
    JSON / XML / XML-bytes reports on a few documents with unique words
    (several lines, non-ASCII, a footnote, a comment inside a word group,
    multi-language mode with \\foreignlanguage): every flagged word is
    reported at the 1-based line and column where that word stands in the
    LaTeX text, identically in all formats"""
    import io
    import json as _json
    import re
    import types
    from pyvc import replay as _r
    pr = _r.real_module('yalafi.shell.proofreader')
    gt = _r.real_module('yalafi.shell.gentext')
    gj = _r.real_module('yalafi.shell.genjson')
    gx = _r.real_module('yalafi.shell.genxml')
    ut = _r.real_module('yalafi.shell.utils')
    ch = _r.real_module('yalafi.shell.checks')

    def jget(dic, item, typ):
        if not isinstance(dic, dict) or not isinstance(dic.get(item), typ):
            raise SystemExit(1)
        return dic[item]
    docs = [
        ('alpha beta\ngamma delta.\n', False),
        ('Gr\u00f6\u00dfe alpha\n  beta\\footnote{gamma delta} epsilon.\n', False),
        ('alpha % comment\n   beta \\textbf{gamma}\n\ndelta\n', False),
        # lines of a LaTeX file end at \\n only: a form feed, a vertical tab
        # or U+2028 does not start a new line
        ('alpha beta\n\x0c\ngamma\u2028delta epsilon\x0bzeta.\n', False),
        ('\\usepackage[german,english]{babel}\nalpha beta '
         '\\foreignlanguage{german}{gamma delta epsilon zeta eta} theta.\n'
         '\n\\selectlanguage{german}\niota kappa.\n', True),
    ]
    n, fails = 0, []
    for tex, ml in docs:
        words = sorted(set(re.findall(r'[a-z]{4,}|Gr\u00f6\u00dfe', tex)) -
                       {'usepackage', 'german', 'english', 'babel',
                        'foreignlanguage', 'selectlanguage', 'footnote',
                        'textbf', 'comment'})
        for w in words:
            cmd = types.SimpleNamespace(
                plain_input=False, list_unknown=False, multi_language=ml,
                ml_continue_threshold=3, ml_rule_threshold=2, ml_disable='',
                ml_disablecategories='', textgears=None, replace=None,
                define='', extract=None, simple_equations=False,
                documentclass='', packages='*' if not ml else 'babel',
                no_specials=False, single_letters=None,
                equation_punctuation=None, context=20, server=None)
            for m_ in (pr, gt, gj, gx, ut, ch):
                m_.cmdline = cmd
                m_.json_get = jget
            pr.equation_replacements = pr.equation_replacements_inline = \
                pr.equation_replacements_display = 'X-X-X'
            seen = []

            def fake_lt(plain, lang, *a, w=w):
                seen.append(lang)
                k = plain.find(w)
                if k < 0:
                    return []
                return [{'offset': k, 'length': len(w), 'message': 'm',
                         'rule': {'id': 'R', 'category': {'name': 'c'}},
                         'replacements': [],
                         'context': {'text': w, 'offset': 0,
                                     'length': len(w)}}]
            pr.run_languagetool = fake_lt
            n += 1
            try:
                t, plain, charmap, matches = pr.run_proofreader_options(
                    tex, 'en-GB', '', '', '', '', [])
            except BaseException as e:      # noqa
                fails.append({'tex': tex, 'word': w, 'why': repr(e)})
                continue
            k = tex.find(w)
            want_lin = tex.count('\n', 0, k) + 1
            want_col = k - (tex.rfind('\n', 0, k) + 1) + 1
            why = None
            if len(matches) != 1:
                why = '%d matches for one flagged word' % len(matches)
            else:
                import copy
                o = io.StringIO()
                gt.output_text_report(tex, plain, charmap,
                                      copy.deepcopy(matches), 'f', o)
                mt = re.search(r'Line (\d+), column (\d+)', o.getvalue())
                got_t = (int(mt.group(1)), int(mt.group(2))) if mt else None
                o = io.StringIO()
                gj.output_json(tex, plain, charmap, copy.deepcopy(matches),
                               jget, 'f', o)
                pj = _json.loads(o.getvalue())['matches'][0]['priv']
                got_j = (pj['fromy'] + 1, pj['fromx'] + 1)
                end_j = (pj['toy'] + 1, pj['tox'])
                o = io.StringIO()
                gx.output_xml_report(tex, plain, charmap,
                                     copy.deepcopy(matches), False, 'f', o)
                ax = dict(re.findall(r'(fromy|fromx|toy|tox)="(\d+)"',
                                     o.getvalue()))
                got_x = (int(ax['fromy']) + 1, int(ax['fromx']) + 1)
                o = io.StringIO()
                gx.output_xml_report(tex, plain, charmap,
                                     copy.deepcopy(matches), True, 'f', o)
                ab = dict(re.findall(r'(fromy|fromx|toy|tox)="(\d+)"',
                                     o.getvalue()))
                ls = tex.rfind('\n', 0, k) + 1
                want_b = (want_lin, len(tex[ls:k].encode()) + 1)
                got_b = (int(ab['fromy']) + 1, int(ab['fromx']) + 1)
                want = (want_lin, want_col)
                want_end = (want_lin, want_col + len(w) - 1)
                if got_t != want or got_j != want or got_x != want or \
                        end_j != want_end or got_b != want_b:
                    why = 'word at line/column %r: text %r json %r..%r ' \
                        'xml %r xml-b %r (expected %r)' % (
                            want, got_t, got_j, end_j, got_x, got_b, want_b)
            if why:
                fails.append({'tex': tex, 'word': w, 'why': why})
                if len(fails) >= 3:
                    break
        if len(fails) >= 3:
            break
    return {'name': 'flagged-word-is-reported-in-place-in-all-formats',
            'bounded': True,
            'bound': '4 documents (one in multi-language mode), every word '
                     'of each flagged in turn, formats text / json / xml / '
                     'xml-b',
            'evaluations': n, 'failures': fails[:3]}


def _gls(seed):
    from props import C16
    return C16.gls_bounded(seed)


def _macroname(seed):
    from props import C16
    return C16.macroname_bounded(seed)


# the HTML highlight uses tex2txt.get_line_starts and the macro-name
# correction of shell/utils: their bounded stand-ins (defined for C16)
def server_requests_bounded(seed):
    """request assembly of the server emulation (server.Handler.
    create_message): the options handed to the proofreader are the
    configured --lt-options, where only entries that correspond to a field
    present in THIS request are replaced -- checked against an independent
    reference for every sequence of <= 3 requests over 5 request kinds x 3
    configurations (the configured list must also be left as it was)"""
    import itertools
    import types
    from pyvc import replay as _r
    from props import shellenv
    srv = _r.real_module('yalafi.shell.server')
    g = shellenv.startup(['--no-config', 'f.tex'])
    option_map = g['lt_option_map']
    configs = [[], ['--disable', 'R1', '--level', 'PICKY'],
               ['--enablecategories', 'C1', '--disable', 'R1,R2', '-eo']]
    kinds = [{}, {'disabledRules': ['X1']}, {'enabledRules': ['X2']},
             {'disabledCategories': ['K']},
             {'disabledRules': ['X1'], 'enabledOnly': ['true']}]
    n, fails = 0, []

    def ref(cfg, requ):
        old = list(cfg)
        new = []
        for f, (names, nargs) in option_map.items():
            if f not in requ or f == 'language':
                continue
            new.append(names[0])
            if nargs == 1:
                new.append(requ[f][0])
            k = 0
            while k < len(old):
                if old[k] in names:
                    del old[k:k + 1 + nargs]
                else:
                    k += 1
        return old + new
    for cfg in configs:
        for ln in (1, 2, 3):
            for seq in itertools.product(range(len(kinds)), repeat=ln):
                seen = []

                def proof(latex, language, disable, enable, discat, encat,
                          opts):
                    seen.append(list(opts))
                    return latex, latex, list(range(1, len(latex) + 1)), []
                cur = list(cfg)
                h = srv.Handler.__new__(srv.Handler)
                h.server = types.SimpleNamespace(
                    my_proofreader=proof, my_option_map=option_map,
                    my_lt_options=cur)
                why = None
                for k in seq:
                    requ = dict(kinds[k], language=['en-GB'],
                                text=['A test.\n'])
                    n += 1
                    try:
                        h.create_message(requ)
                    except Exception as e:      # noqa
                        why = 'exception %r' % (e,)
                        break
                    want = ref(cfg, requ)
                    if seen[-1] != want:
                        why = 'request %r after %r: options %r, expected ' \
                            '%r' % (kinds[k], [kinds[j] for j in seq[:len(
                                seen) - 1]], seen[-1], want)
                        break
                    if cur != cfg:
                        why = 'configured options changed to %r' % (cur,)
                        break
                if why:
                    fails.append({'configured': cfg, 'why': why})
                    if len(fails) >= 3:
                        break
            if len(fails) >= 3:
                break
        if len(fails) >= 3:
            break
    return {'name': 'server-requests-use-the-configured-options',
            'bounded': True,
            'bound': 'all sequences of <= 3 requests over 5 kinds x 3 '
            'configurations', 'evaluations': n, 'failures': fails}


QUICK_BOUNDED = [formats_agree_bounded, _gls, _macroname, server_requests_bounded]

TRUSTED = [
    'tex2txt.tex2txt as seen from the shell: text and map of equal length, 1 <= |p| <= len(tex) (proved in C01 for the '
    'single-language mode; multi-language parts by the lemmas of C12 only)',
    'assumed contracts: list.sort(key=f) calls f on every element and permutes the list; re.search with a pattern anchored by '
    '\\A returns None or a match starting at 0; file.write; xml.etree.ElementTree; str.count/rfind axioms',
    'run_languagetool / run_textgears return a list of JSON values of unknown shape (the proofreader answer itself is outside)',
]
ASSUMPTIONS = [
    'the sort ORDER of the messages (by position in the LaTeX file) is the assumed contract of list.sort with the proved key',
    'HTML highlight position (generate_html) is covered in C15/C16 for index safety only',
    'the offset shift per part is proved as invariant len(plain_tot) == len(charmap_tot) together with the typing loop; that '
    'each part is submitted under its own language code is read off the call, not proved as a relation',
]
LEVEL_TEXT = ('Deductive proof of the position arithmetic behind every report format: map_match_position returns offset == '
    '|charmap[clamp(offset)]| - 1 with 0 <= offset < len(tex) and offset + length <= len(tex); the text report prints exactly '
    'the 1-based line (count of line breaks + 1) and column (offset - start of line + 1) of that offset; the JSON and XML '
    'reports store the 0-based line/column of the first and last flagged character computed from the same spec function '
    '(XML byte mode: the same line start), so the formats agree by construction; run_proofreader_options keeps text and map '
    'of the concatenated parts in step and shifts every match offset by exactly the length of the text submitted before its part (loop body contract: new offset == old offset + len(plain_tot) at that moment); the server '
    'answer applies the same map_match_position to every match.')
LEVEL_NOTE = ('Proofreader behaviour, HTTP layer and regex of correct_mark_macroname assumed; excerpt wording not covered.'
    + ' Bounded stand-ins in the quick tier: the three report formats agree on locations, line starts, macro-name highlight, request assembly of the server emulation (sequences of <= 3 requests); reported as bounded, not counted as proved.')
TECHNIQUE = 'contract-based deductive verification: one spec function for line/column, array-encoded texts, loop body contracts, z3'
