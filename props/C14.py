"""C14 -- a proofreader match is reported at the flagged word in the LaTeX
file (position arithmetic lemmas)."""
ID = 'C14'
MODS = ['contracts.c_externs', 'contracts.c_utils', 'contracts.c_shell']
SH = 'yalafi.shell.'
FUNCS = [SH + 'utils.map_match_position', SH + 'utils.correct_mark_macroname',
         SH + 'gentext.output_text_report',
         SH + 'genjson.output_json.<locals>.f',
         SH + 'genxml.output_xml_report',
         SH + 'proofreader.run_proofreader_options',
         SH + 'server.Handler.create_message']


def SELECT(name):
    return 'json-safe' not in name


TRUSTED = [
    'tex2txt.tex2txt as seen from the shell: text and map of equal length, 1 <= |p| <= len(tex) (proved in C01 for the '
    'single-language mode; multi-language parts by the lemmas of C12 only)',
    'assumed contracts: list.sort(key=f) calls f on every element and permutes the list; re.search with a pattern anchored by '
    '\\A returns None or a match starting at 0; file.write; xml.etree.ElementTree; str.count/rfind axioms',
    'run_languagetool / run_textgears return a list of JSON values of unknown shape (the proofreader answer itself is outside)',
]
ASSUMPTIONS = [
    'the sort ORDER of the messages (by position in the LaTeX file) is the assumed contract of list.sort with the proved key',
    'HTML highlight position (generate_html) is covered in C15/C16 for index safety only',
    'the offset shift per part is proved as invariant len(plain_tot) == len(charmap_tot) together with the typing loop; that '
    'each part is submitted under its own language code is read off the call, not proved as a relation',
]
LEVEL_TEXT = ('Deductive proof of the position arithmetic behind every report format: map_match_position returns offset == '
    '|charmap[clamp(offset)]| - 1 with 0 <= offset < len(tex) and offset + length <= len(tex); the text report prints exactly '
    'the 1-based line (count of line breaks + 1) and column (offset - start of line + 1) of that offset; the JSON and XML '
    'reports store the 0-based line/column of the first and last flagged character computed from the same spec function '
    '(XML byte mode: the same line start), so the formats agree by construction; run_proofreader_options keeps text and map '
    'of the concatenated parts in step and shifts every match offset by exactly the length of the text submitted before its part (loop body contract: new offset == old offset + len(plain_tot) at that moment); the server '
    'answer applies the same map_match_position to every match.')
LEVEL_NOTE = 'Proofreader behaviour, HTTP layer and regex of correct_mark_macroname assumed; excerpt wording not covered.'
TECHNIQUE = 'contract-based deductive verification: one spec function for line/column, array-encoded texts, loop body contracts, z3'
