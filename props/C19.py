"""C19 -- the unknowns list (lemmas)."""
from props import common as cm
ID = 'C19'
MODS = cm.MODS_CORE + ['contracts.c_math']
FOCUS = 'range'
FUNCS = [cm.P + 'expand_macro', cm.P + 'begin_environment', cm.P + 'parse',
         'yalafi.mathparser.MathParser.expand_math_section',
         'yalafi.tex2txt.tex2txt']


def SELECT(name):
    return ('unknowns' in name or 'maths-calls-pass-math-true' in name or
            'tex2txt:post:C01' in name or ':safe:' in name)


def lemmas():
    """frame lemma (syntactic, by AST scan): the only stores to an attribute
    `unknowns` in the package are the two resets (Parser.__init__, parse)
    and the two guarded appends (expand_macro, begin_environment)"""
    import ast
    from pyvc import front
    repo = front.repo()
    sites = []
    for q, fi in repo.funcs.items():
        for n in ast.walk(fi.node):
            if isinstance(n, (ast.Assign, ast.AugAssign)):
                ts = n.targets if isinstance(n, ast.Assign) else [n.target]
                for t in ts:
                    if isinstance(t, ast.Attribute) and t.attr == 'unknowns':
                        sites.append((q, 'assign', isinstance(
                            getattr(n, 'value', None), ast.List) and
                            not n.value.elts))
            elif isinstance(n, ast.Call) and isinstance(n.func,
                                                        ast.Attribute) and \
                    isinstance(n.func.value, ast.Attribute) and \
                    n.func.value.attr == 'unknowns' and \
                    n.func.attr != 'copy':
                sites.append((q, n.func.attr, True))
    allowed = {('yalafi.parser.Parser.__init__', 'assign'),
               ('yalafi.parser.Parser.parse', 'assign'),
               ('yalafi.parser.Parser.expand_macro', 'append'),
               ('yalafi.parser.Parser.begin_environment', 'append')}
    for q, kind, ok in sites:
        yield ('frame:unknowns-store:%s:%s' % (q, kind),
               (q, kind) in allowed and ok,
               'store to .unknowns in %s (%s)' % (q, kind))
    yield ('frame:unknowns-store-sites-found', len(sites) >= 4,
           '%d sites' % len(sites))


TRUSTED = cm.TRUSTED_CORE
ASSUMPTIONS = cm.ASSUME_CORE + [
    'NOT decided: completeness (that every textual use of an undeclared name reaches expand_macro / begin_environment), order of '
    'first use, and that names inside comments / skipped regions are not listed (these follow from C03-type lemmas only)',
    'membership `x in unknowns` is a ghost boolean per list state; duplicate-freeness follows from "append only on a path where '
    'that boolean is false"',
]
LEVEL_TEXT = ('Proves the local mechanism of the unknowns list: (1) frame lemma by AST scan: only Parser.__init__ / parse '
    '(reset to []) and expand_macro / begin_environment (append) store to it; (2) in both appending functions the name is '
    'appended only on a path on which `name in self.unknowns` was false for the same list state, the name is not declared, '
    'and math is false -- hence the list stays duplicate-free and never contains declared names or names met in maths; (3) '
    'every call of expand_macro / begin_environment from the maths section loop passes math=True; (4) the --unkn output has '
    'one position per character (composition lemma of tex2txt). Completeness of the list is NOT decided.')
LEVEL_NOTE = 'Lemma level; "no omission" needs a catalogue-wide semantics.'
TECHNIQUE = 'contract-based deductive verification: ghost membership facts at the append sites, call-site preconditions, AST frame scan'
