"""C19 -- the unknowns list (lemmas)."""
from props import common as cm
ID = 'C19'
MODS = cm.MODS_CORE + ['contracts.c_math']
FOCUS = 'range'
FUNCS = [cm.P + 'expand_macro', cm.P + 'begin_environment', cm.P + 'parse',
         'yalafi.mathparser.MathParser.expand_math_section',
         'yalafi.tex2txt.tex2txt']


def SELECT(name):
    return ('unknowns' in name or 'maths-calls-pass-math-true' in name or
            'tex2txt:post:C01' in name or ':safe:' in name)


def lemmas():
    """frame lemma (syntactic, by AST scan): the only stores to an attribute
    `unknowns` in the package -- assignments, augmented assignments,
    deletions and slice/element stores rooted in it, mutating method calls
    on it -- are the two resets (Parser.__init__, parse) and the two guarded
    appends (expand_macro, begin_environment).  Not covered: mutation
    through an alias of the list (listed as assumption)."""
    import ast
    from pyvc import front
    repo = front.repo()
    sites = []
    def root_attr(t):
        # the attribute `unknowns` a store / delete target is rooted in:
        # x.unknowns, x.unknowns[i], x.unknowns[i:j], x.unknowns[i].y ...
        while isinstance(t, (ast.Subscript, ast.Attribute, ast.Starred)):
            if isinstance(t, ast.Attribute) and t.attr == 'unknowns':
                return t
            t = t.value
        return None

    def targets(t):
        if isinstance(t, (ast.Tuple, ast.List)):
            for e in t.elts:
                yield from targets(e)
        else:
            yield t

    for q, fi in repo.funcs.items():
        for n in ast.walk(fi.node):
            if isinstance(n, (ast.Assign, ast.AugAssign, ast.AnnAssign,
                              ast.Delete, ast.For, ast.NamedExpr)):
                ts = n.targets if isinstance(n, (ast.Assign, ast.Delete)) \
                    else [n.target]
                for t0 in ts:
                    for t in targets(t0):
                        a = root_attr(t)
                        if a is None:
                            continue
                        plain = a is t and isinstance(n, ast.Assign)
                        sites.append((q, 'assign' if plain else
                                      type(n).__name__.lower() + '-store',
                                      plain and isinstance(
                            n.value, ast.List) and not n.value.elts))
            elif isinstance(n, ast.Call) and isinstance(n.func,
                                                        ast.Attribute) and \
                    isinstance(n.func.value, ast.Attribute) and \
                    n.func.value.attr == 'unknowns' and \
                    n.func.attr not in ('copy', 'index', 'count'):
                sites.append((q, n.func.attr, True))
    allowed = {('yalafi.parser.Parser.__init__', 'assign'),
               ('yalafi.parser.Parser.parse', 'assign'),
               ('yalafi.parser.Parser.expand_macro', 'append'),
               ('yalafi.parser.Parser.begin_environment', 'append')}
    # an append inside a helper whose real body was executed symbolically as
    # part of a function under contract (inlined) is covered by the
    # deductive obligations at the append (ghost membership) and by the
    # postconditions of expand_macro / begin_environment
    covered = set(FUNCS) | set(globals().get('RUN_INFO', {}).get(
        'inlined', ()))
    ran = bool(globals().get('RUN_INFO', {}).get('verified'))
    for q, kind, ok in sites:
        if kind == 'append' and q in covered:
            allowed.add((q, kind))
        good = (q, kind) in allowed and ok
        if not good and kind == 'append' and not ran:
            # no function was verified in this run (triage mode): whether
            # the helper is covered by inlining is not known
            good = None
        yield ('frame:unknowns-store:%s:%s' % (q, kind), good,
               'store to .unknowns in %s (%s)' % (q, kind), False)
    yield ('frame:unknowns-store-sites-found',
           True if len(sites) >= 3 else None,
           '%d sites' % len(sites), False)


def unknowns_small_documents(seed):
    """completeness and order of the list are outside the deductive part:
    bounded stand-in on all documents of <= 4 pieces over a small catalogue
    (undeclared macros in text, in maths, in a comment, inside the argument
    of a declared macro, an undeclared environment, a declared macro),
    compared with the sentence of the property computed independently"""
    import itertools
    from pyvc import replay as _r
    t2t = _r.real_module('yalafi.tex2txt')
    # piece -> names it uses in text mode, in order
    pieces = [
        ('\\ua ', ['\\ua']), ('\\ub{x} ', ['\\ub']),
        ('$\\ua+\\uc$ ', []), ('%\\ud\n', []),
        ('\\section{\\ua \\ue} ', ['\\ua', '\\ue']),
        ('\\begin{uenv}t\\end{uenv} ', ['uenv']),
        ('\\TeX{} ', []), ('word ', []),
        ('\\footnote{\\uf} ', ['\\uf']),
        # a definition written with comment-terminated lines, then a use
        ('\\newcommand{%c\n\\md% name\n}{x} \\md{} ', []),
    ]
    n, fails = 0, []
    for ln in range(0, 5):
        for combo in itertools.product(range(len(pieces)), repeat=ln):
            if ln == 4 and (sum(combo) + seed) % 3:
                continue        # a third of the longest documents
            src = ''.join(pieces[i][0] for i in combo)
            want = []
            for i in combo:
                for nm in pieces[i][1]:
                    if nm not in want:
                        want.append(nm)
            n += 1
            try:
                plain, _ = t2t.tex2txt(src, t2t.Options(unkn=True))
            except Exception as e:      # noqa
                fails.append({'input': src, 'why': 'exception %r' % (e,)})
                continue
            got = [x for x in plain.split('\n') if x]
            if got != want:
                fails.append({'input': src, 'listed': got,
                              'expected': want})
            elif want and ln <= 2:
                # the list is a list of names, not text: phrase replacement
                # (--repl, always passed by the shell) leaves it alone
                rules = ['%s & zzz qq' % nm.lstrip('\\') for nm in want]
                n += 1
                try:
                    plain2, _ = t2t.tex2txt(src, t2t.Options(unkn=True,
                                                             repl=rules))
                    if plain2 != plain:
                        fails.append({'input': src, 'repl': rules,
                                      'listed': plain2.split('\n'),
                                      'expected': got})
                except Exception as e:      # noqa
                    fails.append({'input': src, 'repl': rules,
                                  'why': 'exception %r' % (e,)})
            if len(fails) >= 3:
                break
        if len(fails) >= 3:
            break
    return {'name': 'unknowns-list-on-small-documents', 'bounded': True,
            'bound': 'all documents of <= 3 pieces and a third of those with '
                     '4 pieces over a catalogue of 10 pieces',
            'evaluations': n, 'failures': fails}


QUICK_BOUNDED = [unknowns_small_documents]

TRUSTED = cm.TRUSTED_CORE
ASSUMPTIONS = cm.ASSUME_CORE + [
    'NOT decided: completeness (that every textual use of an undeclared name reaches expand_macro / begin_environment), order of '
    'first use, and that names inside comments / skipped regions are not listed (these follow from C03-type lemmas only)',
    'frame lemma of `unknowns` is syntactic: mutation through an alias (u = self.unknowns; u.append(..)) is not seen',
    'membership `x in unknowns` is a ghost boolean per list state; duplicate-freeness follows from "append only on a path where '
    'that boolean is false"',
]
LEVEL_TEXT = ('Proves the local mechanism of the unknowns list: (1) frame lemma by AST scan: only Parser.__init__ / parse '
    '(reset to []) and expand_macro / begin_environment (append) store to it (assignments, deletions, slice / element stores, augmented assignments and mutator calls are scanned); (2) in both appending functions the name is '
    'appended only on a path on which `name in self.unknowns` was false for the same list state, the name is not declared, '
    'and math is false -- hence the list stays duplicate-free and never contains declared names or names met in maths; for expand_macro additionally as postcondition: the name is recorded iff it is undeclared, used in text mode and was not recorded before, and a declared name is expanded, never recorded; (3) '
    'every call of expand_macro / begin_environment from the maths section loop passes math=True; (4) the --unkn output has '
    'one position per character (composition lemma of tex2txt). Completeness of the list is NOT decided.')
LEVEL_NOTE = 'Lemma level; "no omission" needs a catalogue-wide semantics.'
TECHNIQUE = 'contract-based deductive verification: ghost membership facts at the append sites, call-site preconditions, AST frame scan'
