"""C08 -- error marks (local lemmas)."""
from props import common as cm
ID = 'C08'
MODS = cm.MODS_CORE + ['contracts.c_math']
FOCUS = 'range'
FUNCS = ['yalafi.utils.latex_error'] + cm.SCANNER + [cm.P + n for n in ('arg_buffer', 'parser_work', 'expand_accent', 'parse_def_macro')] + ['yalafi.mathparser.MathParser.expand_math_section', 'yalafi.handlers.h_newcommand', 'yalafi.handlers.h_load_defs']


def SELECT(name):
    return not cm.is_safety(name)

TRUSTED = cm.TRUSTED_CORE
ASSUMPTIONS = cm.ASSUME_CORE + ['position argument of each call site is the position of the offending token as written in the code (not compared with a LaTeX semantics)']
LEVEL_TEXT = 'Proves the contract of latex_error: the result is one or two fixed Text tokens whose concatenated text is the complete mark " <mark> " (plus the verbose part), the first at pos, all inside the text when pos is; the diagnostic line/column are the 1-based line and column of pos (count/rfind axioms); one diagnostic per call (ghost counter). Call sites: every use of the result keeps both pieces (obligation mark-complete at each subscript of a latex_error result; the scanner joins them in error_token, whose contract says the single token carries the complete mark at the error position). arg_buffer builds its own mark only after calling latex_error. NOT decided: that no text beyond the faulty construct is lost, and that a well-formed document produces neither mark nor diagnostic.'
LEVEL_NOTE = ('Whole-pipeline parts of the sentence (text after the fault preserved, silence on well-formed input) are outside per-function contracts.'
    + ' A bounded stand-in in the quick tier (15 faulty and 6 well-formed sources x 3 option sets: one diagnostic, the mark at the place the diagnostic names, text after the paragraph kept, silence on well-formed input) states the end-to-end sentence on the real code; reported as bounded, not counted as proved.')
TECHNIQUE = 'contract-based deductive verification: per-function postconditions and loop invariants over the real AST, z3; end-to-end sentence of the property not decided'


def faults_small_documents(seed):
    """the sentence of the property on a catalogue of single faults: for each
    of 19 faulty sources (four of them with form feed, U+2028 and other characters that are line boundaries for str.splitlines only; unterminated inline / displayed maths in five
    spellings, open mandatory / optional argument at the end of the text,
    unterminated \\verb / verbatim, unclosed skip comment, accent on a
    non-letter, unreadable \\LTinput file) and each of three option sets
    (default, --seqs, lang=de): exactly one diagnostic, the complete mark in
    the plain text (at least once), the first character of a mark mapped
    to the line / column the diagnostic names; for open maths the words
    after the end of the paragraph survive.  The repaired sources give
    neither mark nor diagnostic."""
    import contextlib
    import io
    import re
    from pyvc import replay as _r
    t2t = _r.real_module('yalafi.tex2txt')
    tail = '\n\nTail gamma.\n'
    faulty = [
        ('A $x = 1 rest' + tail, True), ('A \\(x = 1 rest' + tail, True),
        ('A \\[ x = 1 ' + tail, True),
        ('A \\begin{equation} x = 1. ' + tail, True),
        ('A $$ x = 1 ' + tail, True),
        ('Alpha \\label{beta', False), ('Alpha \\section{beta', False),
        ('Alpha \\section[beta', False),
        ('Alpha \\verb|beta', False),
        ('Alpha\n\\begin{verbatim}\nbeta\n', False),
        ('Alpha\n%%% LT-SKIP-BEGIN\nbeta\n', False),
        ("Alpha \\'{1} beta", False),
        ('Alpha \\LTinput{/nonexistent-dir/x.tex} beta', False),
        # the same fault twice gives two diagnostics and two marks
        ('Alpha \\LTinput{/nonexistent-dir/x.tex} beta\n'
         '\\LTinput{/nonexistent-dir/x.tex} gamma', 2),
        ("Alpha \\'{1} beta \\'{1} gamma", 2),
        # characters that str.splitlines treats as line boundaries, but the
        # documented line / column do not (only \\n ends a line)
        ('Alpha\x0c gamma \\verb|beta', False),
        ('first line\nAl\u2028pha \\section{beta', False),
        ('first\nA\x0bB\x1cC $x = 1 rest' + tail, True),
        ('Al\x85pha\u2029 \\label{beta', False)]
    sound = ['A $x = 1$ rest' + tail, 'A \\[ x = 1 \\]' + tail,
             'A \\begin{equation} x = 1. \\end{equation}' + tail,
             'Alpha \\textbf{beta}', 'Alpha \\verb|beta|',
             "Alpha \\'{a} beta"]
    optsets = [{}, {'seqs': True}, {'lang': 'de'}]
    n, fails = 0, []

    def run(src, kw):
        err = io.StringIO()
        with contextlib.redirect_stderr(err):
            txt, pos = t2t.tex2txt(src, t2t.Options(**kw))
        return txt, pos, err.getvalue()
    mark = 'LATEXXXERROR'
    for kw in optsets:
        for src, maths in faulty:
            n += 1
            try:
                txt, pos, err = run(src, kw)
            except BaseException as e:      # noqa
                fails.append({'source': src, 'options': kw,
                              'why': 'exception %r' % (e,)})
                continue
            diags = re.findall(r'LaTeX error: line (\d+), column (\d+)',
                               err)
            why = None
            if maths == 2:
                if len(diags) != 2 or txt.count(mark) < 2:
                    why = 'two faults: %d diagnostics, %d marks' % (
                        len(diags), txt.count(mark))
            elif len(diags) != 1:
                why = '%d diagnostics' % len(diags)
            elif txt.count(mark) < 1:
                why = 'diagnostic, but no mark in %r' % (txt,)
            else:
                # (an argument left open at the end of the text shows the
                # mark twice by design -- "HACK, see Issue 23" in arg_buffer
                # -- the property asks for the mark at the place of the
                # diagnostic, not for its uniqueness)
                where = []
                for m_ in re.finditer(mark, txt):
                    # the mark is ` LATEXXXERROR `: its first character is
                    # the blank before the word
                    i = m_.start()
                    p0 = pos[i - 1] - 1 if i > 0 else pos[i] - 1
                    lin0 = src.count('\n', 0, p0) + 1
                    col0 = p0 - (src.rfind('\n', 0, p0) + 1) + 1
                    where.append((str(lin0), str(col0)))
                if diags[0] not in where:
                    why = 'mark at line/column %s, diagnostic says %s' % (
                        where, diags[0])
                if why is None and maths is True and not (
                        'Tail' in txt and 'gamma.' in txt):
                    why = 'text after the paragraph lost: %r' % txt
            if why:
                fails.append({'source': src, 'options': kw, 'why': why})
        for src in sound:
            n += 1
            txt, pos, err = run(src, kw)
            if mark in txt or 'LaTeX error' in err:
                fails.append({'source': src, 'options': kw,
                              'why': 'mark / diagnostic on a well-formed '
                              'source: %r %r' % (txt, err)})
    return {'name': 'faults-give-one-diagnostic-and-one-mark-at-its-place',
            'bounded': True,
            'bound': '19 faulty + 6 well-formed sources x 3 option sets',
            'evaluations': n, 'failures': fails[:8]}


QUICK_BOUNDED = [faults_small_documents]
