"""C08 -- error marks (local lemmas)."""
from props import common as cm
ID = 'C08'
MODS = cm.MODS_CORE + ['contracts.c_math']
FOCUS = 'range'
FUNCS = ['yalafi.utils.latex_error'] + cm.SCANNER + [cm.P + n for n in ('arg_buffer', 'parser_work', 'expand_accent', 'parse_def_macro')] + ['yalafi.mathparser.MathParser.expand_math_section', 'yalafi.handlers.h_newcommand', 'yalafi.handlers.h_load_defs']


def SELECT(name):
    return not cm.is_safety(name)

TRUSTED = cm.TRUSTED_CORE
ASSUMPTIONS = cm.ASSUME_CORE + ['position argument of each call site is the position of the offending token as written in the code (not compared with a LaTeX semantics)']
LEVEL_TEXT = 'Proves the contract of latex_error: the result is one or two fixed Text tokens whose concatenated text is the complete mark " <mark> " (plus the verbose part), the first at pos, all inside the text when pos is; the diagnostic line/column are the 1-based line and column of pos (count/rfind axioms); one diagnostic per call (ghost counter). Call sites: every use of the result keeps both pieces (obligation mark-complete at each subscript of a latex_error result; the scanner joins them in error_token, whose contract says the single token carries the complete mark at the error position). arg_buffer builds its own mark only after calling latex_error. NOT decided: that no text beyond the faulty construct is lost, and that a well-formed document produces neither mark nor diagnostic.'
LEVEL_NOTE = 'Whole-pipeline parts of the sentence (text after the fault preserved, silence on well-formed input) are outside per-function contracts.'
TECHNIQUE = 'contract-based deductive verification: per-function postconditions and loop invariants over the real AST, z3; end-to-end sentence of the property not decided'
