"""C13 -- phrase replacement keeps text and position map consistent."""
ID = 'C13'
MODS = ['contracts.c_utils']
FUNCS = ['yalafi.utils.substitute']
# the callers: tex2txt hands the complete rule list to replace_phrases
MORE = [(['yalafi.tex2txt.tex2txt'],
         ['contracts.c_externs', 'contracts.c_utils', 'contracts.c_scanner',
          'contracts.c_parser', 'contracts.c_tex2txt', 'contracts.c_handlers']),
        (['yalafi.tex2txt.tex2txt.<ml_tail>'],
         ['contracts.c_externs', 'contracts.c_utils', 'contracts.c_tex2txt',
          'contracts.c_ml'])]


def SELECT(name):
    if 'tex2txt.tex2txt' in name:
        return 'replace_phrases' in name
    return True
def _regex_meaning(seed):
    from props import bounded
    return bounded.c13_regex_meaning(seed)


# the regex part of the property (word boundaries, no match across a blank
# line): bounded stand-in, reported as such in the evidence
QUICK_BOUNDED = [_regex_meaning]

TRUSTED = [
    'assumed contract of re.finditer: matches are yielded left to right, '
    'last_end <= start <= end <= len(text), group(0) == text[start:end]',
]
ASSUMPTIONS = [
    'the meaning of the regular expression built by replace_phrases (word '
    'boundaries, no match across a blank line) is regex semantics and is not '
    'decided by a contract',
    'Python integers are mathematical; lists of ints and strings are encoded '
    'as (Array Int Int, length)',
]
LEVEL_TEXT = ('Deductive proof (all texts, all position lists, all match sequences, no bound) that utils.substitute keeps '
    'len(text) == len(positions), copies characters and positions outside matches unchanged, gives the inserted replacement '
    'characters the positions of the phrase in order with the last one repeated, and never produces a position that was not '
    'in the input list; proved as loop invariant + per-match body contract over the real source. The regular expression '
    'itself (word boundary, paragraph rule) is not decided by this technique.')
LEVEL_NOTE = ('Trusted: the pyvc VC generator and its array encoding of str/list, z3; assumed contract of re.finditer '
    '(ordered, non-overlapping matches inside the text). Regex semantics of replace_phrases is outside the proof.')
TECHNIQUE = 'contract-based deductive verification: self-generated VCs from the Python AST of the real function, discharged by z3 (arrays + quantified invariants)'
