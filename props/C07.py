"""C07 -- the filter is total (absence of run-time errors; partial
correctness)."""
from props import common as cm
ID = 'C07'
MODS = cm.MODS_CORE + ['contracts.c_math']
FOCUS = 'range'
GENERATORS = [
    'yalafi.parameters.Parameters.init_environments.<locals>.labs_enumerate',
    'yalafi.parameters.Parameters.init_environments.<locals>.labs_itemize',
    'yalafi.parser.Parser.__init__.<locals>.labs_default']
FUNCS = cm.UTILS + cm.SCANNER + cm.BUFFER + cm.PARSER + cm.TEX2TXT + \
    cm.HANDLERS + cm.MATH + GENERATORS


def lemmas():
    """Parser.expand_item calls next() on the label generator of the
    current list without a default.  AST scan: every value passed as
    `items=` and every first component pushed on item_lab_stack is a call
    of one of the generator functions under the never-ends contract"""
    import ast
    from pyvc import front
    repo = front.repo()
    short = set(g.rsplit('.', 1)[-1] for g in GENERATORS)
    n = 0
    for mi in repo.modules.values():
        for node in ast.walk(mi.tree):
            if isinstance(node, ast.Call):
                for k in node.keywords:
                    if k.arg == 'items' and not (
                            isinstance(k.value, ast.Constant) and
                            k.value.value is None):
                        n += 1
                        # a generator function under contract, or the
                        # `.items` of an existing environment (which came
                        # through one of these sites itself); anything else
                        # is a generator this check knows nothing about:
                        # undecided
                        ok = True if (isinstance(k.value, ast.Name) and
                                      k.value.id in short) or (
                            isinstance(k.value, ast.Attribute) and
                            k.value.attr == 'items') else None
                        yield ('generators:items=%s@%s:%d' % (
                            ast.unparse(k.value), mi.name, node.lineno), ok,
                            'label generator not under the never-ends '
                            'contract', False)
    yield ('generators:items-sites-found', True if n >= 2 else None,
           '%d sites' % n, False)


def SELECT(name):
    # the run-time-error obligations follow from the object invariants
    # (MacInv argument references, non-empty arguments, BufInv, ...): the
    # obligations that establish those invariants are part of the argument
    return not cm.documented_fatal(name)


def keyvals_termination_bounded(seed):
    """termination is outside the deductive part (partial correctness).
    Bounded stand-in for the one parser loop that re-reads what its callee
    pushes back (Parser.parse_keyvals_list calls arg_buffer on an opening
    brace): every option string of <= 4 pieces over {a, =, ",", {, }, blank}
    in \\usepackage[..]{x} must be processed within the time limit"""
    import itertools
    import signal
    import io
    import contextlib
    from pyvc import replay as _r
    t2t = _r.real_module('yalafi.tex2txt')

    class Hang(Exception):
        pass

    def on_alarm(signum, frame):
        raise Hang()
    old = signal.signal(signal.SIGALRM, on_alarm)
    n, fails = 0, []
    try:
        for ln in range(0, 5):
            for t in itertools.product('a=,{} ', repeat=ln):
                opt = ''.join(t)
                src = '\\usepackage[' + opt + ']{x} B'
                n += 1
                signal.setitimer(signal.ITIMER_REAL, 2.0)
                try:
                    with contextlib.redirect_stderr(io.StringIO()):
                        t2t.tex2txt(src, t2t.Options())
                except Hang:
                    fails.append({'input': src, 'why': 'no result after 2 s'})
                except Exception as e:      # noqa
                    fails.append({'input': src, 'why': 'exception %r' % (e,)})
                finally:
                    signal.setitimer(signal.ITIMER_REAL, 0)
                if len(fails) >= 3:
                    break
            if len(fails) >= 3:
                break
    finally:
        signal.signal(signal.SIGALRM, old)
    return {'name': 'keyvals-option-lists-terminate', 'bounded': True,
            'bound': 'all option strings of <= 4 characters over '
                     '{a,=,comma,{,},blank}; 2 s per input',
            'evaluations': n, 'failures': fails}



def module_names_bounded(seed):
    """loading of package / class modules is an assumed contract of the
    deductive part (utils.get_module_handler: exec / eval inside a catch-all
    handler).  Bounded stand-in: \\usepackage / \\documentclass with every
    name of <= 3 pieces over {a, ., /, _, -, 1, ",", blank} and a list of
    importable and reserved names: the filter returns a result"""
    import contextlib
    import io
    import itertools
    from pyvc import replay as _r
    t2t = _r.real_module('yalafi.tex2txt')
    names = set(['__init__', 'os', 'sys', 'os.path', 'yalafi', 'class',
                 'import', 'amsmath', '.amsmath', 'yalafi.packages.amsmath',
                 '.yalafi.packages.amsmath', 'None', 'a b', '\u00e4'])
    for ln in range(0, 4):
        for t in itertools.product(['a', '.', '/', '_', '-', '1', ',', ' '],
                                   repeat=ln):
            names.add(''.join(t))
    n, fails = 0, []
    for name in sorted(names):
        for mac in ('\\usepackage', '\\documentclass'):
            src = mac + '{' + name + '}\nText.\n'
            n += 1
            try:
                with contextlib.redirect_stderr(io.StringIO()):
                    t2t.tex2txt(src, t2t.Options())
            except BaseException as e:      # noqa
                fails.append({'source': src, 'why': 'exception %r' % (e,)})
                if len(fails) >= 3:
                    break
        if len(fails) >= 3:
            break
    return {'name': 'package-and-class-names-never-raise', 'bounded': True,
            'bound': 'all names of <= 3 pieces over 8 pieces + 14 special '
            'names, two macros', 'evaluations': n, 'failures': fails}


QUICK_BOUNDED = [keyvals_termination_bounded, module_names_bounded]

TRUSTED = cm.TRUSTED_CORE
ASSUMPTIONS = cm.ASSUME_CORE + [
    'termination and recursion depth of the expander are not decided',
    'the two utils.fatal calls of Parser.expand_sequence (redefinition of '
    'the default equation environment) are the documented fatal exit and '
    'are excluded by the property itself',
]
LEVEL_TEXT = ('Deductive proof of absence of run-time errors in the verified functions (together with the obligations that establish the invariants they rely on): one obligation per subscript, '
    '[-1], pop, None dereference, dictionary look-up, int(), next() without default and tuple unpacking; the \\item label generators on which expand_item calls next() without default never end (does-not-return contract on the three generator bodies, all items= values are such generators), plus '
    'unreachability of every utils.fatal call other than the documented one, plus the termination variant of the '
    'scanner loop. The obligations follow from the invariants (non-empty argument buffers, non-empty mandatory '
    'arguments, MacInv argument references, non-empty label stack). Termination of the expander is NOT decided.')
LEVEL_NOTE = ('Partial correctness: no claim about hangs of the macro expander, recursion depth or memory. ' + cm.TRUSTED_CORE[1]
    + ' Bounded stand-ins in the quick tier: termination of key-value option lists, package / class names never raise (module loading is an assumed contract); reported as bounded, not counted as proved.')
TECHNIQUE = 'contract-based deductive verification: run-time-error obligations generated at every partial operation of the real AST, z3'
