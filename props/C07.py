"""C07 -- the filter is total (absence of run-time errors; partial
correctness)."""
from props import common as cm
ID = 'C07'
MODS = cm.MODS_CORE + ['contracts.c_math']
FOCUS = 'range'
FUNCS = cm.UTILS + cm.SCANNER + cm.BUFFER + cm.PARSER + cm.TEX2TXT + \
    cm.HANDLERS + cm.MATH


def SELECT(name):
    # the run-time-error obligations follow from the object invariants
    # (MacInv argument references, non-empty arguments, BufInv, ...): the
    # obligations that establish those invariants are part of the argument
    return not cm.documented_fatal(name)


TRUSTED = cm.TRUSTED_CORE
ASSUMPTIONS = cm.ASSUME_CORE + [
    'termination and recursion depth of the expander are not decided',
    'the two utils.fatal calls of Parser.expand_sequence (redefinition of '
    'the default equation environment) are the documented fatal exit and '
    'are excluded by the property itself',
]
LEVEL_TEXT = ('Deductive proof of absence of run-time errors in the verified functions (together with the obligations that establish the invariants they rely on): one obligation per subscript, '
    '[-1], pop, None dereference, dictionary look-up, int(), next() without default and tuple unpacking, plus '
    'unreachability of every utils.fatal call other than the documented one, plus the termination variant of the '
    'scanner loop. The obligations follow from the invariants (non-empty argument buffers, non-empty mandatory '
    'arguments, MacInv argument references, non-empty label stack). Termination of the expander is NOT decided.')
LEVEL_NOTE = 'Partial correctness: no claim about hangs of the macro expander, recursion depth or memory. ' + cm.TRUSTED_CORE[1]
TECHNIQUE = 'contract-based deductive verification: run-time-error obligations generated at every partial operation of the real AST, z3'
