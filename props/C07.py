"""C07 -- the filter is total (absence of run-time errors; partial
correctness)."""
from props import common as cm
ID = 'C07'
MODS = cm.MODS_CORE + ['contracts.c_math']
FOCUS = 'range'
GENERATORS = [
    'yalafi.parameters.Parameters.init_environments.<locals>.labs_enumerate',
    'yalafi.parameters.Parameters.init_environments.<locals>.labs_itemize',
    'yalafi.parser.Parser.__init__.<locals>.labs_default']
FUNCS = cm.UTILS + cm.SCANNER + cm.BUFFER + cm.PARSER + cm.TEX2TXT + \
    cm.HANDLERS + cm.MATH + GENERATORS


def lemmas():
    """Parser.expand_item calls next() on the label generator of the
    current list without a default.  AST scan: every value passed as
    `items=` and every first component pushed on item_lab_stack is a call
    of one of the generator functions under the never-ends contract"""
    import ast
    from pyvc import front
    repo = front.repo()
    short = set(g.rsplit('.', 1)[-1] for g in GENERATORS)
    n = 0
    for mi in repo.modules.values():
        for node in ast.walk(mi.tree):
            if isinstance(node, ast.Call):
                for k in node.keywords:
                    if k.arg == 'items' and not (
                            isinstance(k.value, ast.Constant) and
                            k.value.value is None):
                        n += 1
                        ok = isinstance(k.value, ast.Name) and \
                            k.value.id in short
                        yield ('generators:items=%s@%s:%d' % (
                            ast.unparse(k.value), mi.name, node.lineno), ok,
                            'label generator not under the never-ends '
                            'contract', False)
    yield 'generators:items-sites-found', n >= 2, '%d sites' % n, False


def SELECT(name):
    # the run-time-error obligations follow from the object invariants
    # (MacInv argument references, non-empty arguments, BufInv, ...): the
    # obligations that establish those invariants are part of the argument
    return not cm.documented_fatal(name)


TRUSTED = cm.TRUSTED_CORE
ASSUMPTIONS = cm.ASSUME_CORE + [
    'termination and recursion depth of the expander are not decided',
    'the two utils.fatal calls of Parser.expand_sequence (redefinition of '
    'the default equation environment) are the documented fatal exit and '
    'are excluded by the property itself',
]
LEVEL_TEXT = ('Deductive proof of absence of run-time errors in the verified functions (together with the obligations that establish the invariants they rely on): one obligation per subscript, '
    '[-1], pop, None dereference, dictionary look-up, int(), next() without default and tuple unpacking; the \\item label generators on which expand_item calls next() without default never end (does-not-return contract on the three generator bodies, all items= values are such generators), plus '
    'unreachability of every utils.fatal call other than the documented one, plus the termination variant of the '
    'scanner loop. The obligations follow from the invariants (non-empty argument buffers, non-empty mandatory '
    'arguments, MacInv argument references, non-empty label stack). Termination of the expander is NOT decided.')
LEVEL_NOTE = 'Partial correctness: no claim about hangs of the macro expander, recursion depth or memory. ' + cm.TRUSTED_CORE[1]
TECHNIQUE = 'contract-based deductive verification: run-time-error obligations generated at every partial operation of the real AST, z3'
