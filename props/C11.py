"""C11 -- displayed equations (lemmas)."""
from props import common as cm
ID = 'C11'
MODS = cm.MODS_CORE + ['contracts.c_math']
FOCUS = 'range'
FUNCS = ['yalafi.mathparser.MathParser.' + n for n in ('expand_display_math', 'expand_math_section', 'replace_section')] + [cm.P + 'parse_newline_option']


def SELECT(name):
    return not cm.is_safety(name)

def display_small_documents(seed):
    """structural sentence of the property on enumerated small equations
    (the deductive part does not decide row structure and punctuation):
    environments equation / align / \\[..\\] / $$..$$, 1-3 rows from a
    catalogue, optional final mark, optionally followed by \\label, a
    trailing \\\\ or \\nonumber; languages en/de/ru; checks: one output
    line per row, the final mark kept at the end of the last line, nothing
    but placeholders of the display collection, operator words, blanks and
    marks; simple mode: exactly one placeholder plus the mark"""
    import itertools
    import re
    from pyvc import replay as _r
    t2t = _r.real_module('yalafi.tex2txt')
    parameters = _r.real_module('yalafi.parameters')
    rows = ['a = b', 'a &= b + c', '&\\le c', 'x^2', 'a + b &= c']
    tails = ['', '\\label{q}', '\\nonumber', ' \\\\', '\\,', '\\quad ']
    n, fails = 0, []

    def fail(**kw):
        fails.append(kw)
        return len(fails) >= 3
    for lang in ('en', 'de', 'ru'):
        lc = parameters.Parameters(lang).lang_context
        coll = set(lc.math_repl_display)
        words = set(lc.math_op_text.values())
        for env in ('equation', 'align', 'brackets', 'dollars'):
            for nr in (1, 2, 3):
                if nr > 1 and (env != 'align' or lang != 'en'):
                    continue
                for combo in itertools.product(range(len(rows)), repeat=nr):
                    if nr == 3 and (sum(combo) + seed) % 5:
                        continue
                    if env != 'align' and '&' in rows[combo[0]]:
                        continue
                    for mark in ('', '.', ',', ';', ':'):
                        for tail in tails:
                            if tail == ' \\\\' and env != 'align':
                                continue
                            body = ' \\\\\n'.join(rows[i] for i in combo)
                            body += mark + tail
                            if env == 'brackets':
                                eq = '\\[ ' + body + ' \\]'
                            elif env == 'dollars':
                                eq = '$$ ' + body + ' $$'
                            else:
                                eq = '\\begin{%s}\n%s\n\\end{%s}' % (
                                    env, body, env)
                            src = 'Aaa\n' + eq + '\nBbb'
                            for seqs, pack in ((False, 'amsmath'),
                                               (True, 'amsmath'),
                                               (False, None), (True, None)):
                                if pack is None and env == 'align':
                                    continue    # align needs amsmath
                                n += 1
                                try:
                                    got = t2t.tex2txt(src, t2t.Options(
                                        lang=lang, seqs=seqs,
                                        pack=pack))[0]
                                except Exception as e:      # noqa
                                    if fail(input=src, why=repr(e)):
                                        return _res(n, fails)
                                    continue
                                m = re.fullmatch(r'Aaa\n((?:.|\n)*)\nBbb', got)
                                if not m:
                                    if fail(input=src, seqs=seqs, got=got,
                                            why='frame'):
                                        return _res(n, fails)
                                    continue
                                lines = m.group(1).split('\n')
                                rest = m.group(1)
                                phs = re.findall(r'\S+-\S+-\S+', rest)
                                for ph in phs:
                                    rest = rest.replace(
                                        ph.rstrip('.,;:'), ' ', 1)
                                for w in sorted(words, key=len,
                                                reverse=True):
                                    rest = rest.replace(w, ' ')
                                why = None
                                if any(ph.rstrip('.,;:') not in coll
                                       for ph in phs):
                                    why = 'placeholder not from the ' \
                                        'display collection'
                                elif rest.strip(' \n.,;:'):
                                    why = 'other characters: %r' % rest
                                elif mark and not lines[-1].rstrip(
                                        ).endswith(mark):
                                    why = 'final mark lost'
                                elif seqs and not (
                                        len(lines) == 1 and len(phs) == 1
                                        and lines[0].strip() ==
                                        phs[0].rstrip('.,;:') + mark):
                                    why = 'simple mode: not one ' \
                                        'placeholder plus mark'
                                elif not seqs and tail != ' \\\\' and \
                                        len(lines) != nr:
                                    why = '%d lines for %d rows' % (
                                        len(lines), nr)
                                if why and fail(lang=lang, input=src,
                                                seqs=seqs, got=got,
                                                why=why):
                                    return _res(n, fails)
    # multi-language mode: the word for a leading operator is that of the
    # language in force at the equation
    settings = parameters.Parameters('en').parser_lang_settings
    src = ('\\usepackage{amsmath}\\usepackage[english,german,russian]'
           '{babel}\nAaa\n\\begin{align}\na &= b \\\\\n&\\cdot c.\n'
           '\\end{align}\n\\selectlanguage{german}\nBbb\n'
           '\\begin{align}\na &= b \\\\\n&\\cdot c \\\\\n&/ d.\n'
           '\\end{align}\n\\selectlanguage{russian}\nCcc\n'
           '\\begin{align}\na &= b \\\\\n&- c.\n\\end{align}\n')
    n += 1
    try:
        ml = t2t.tex2txt(src, t2t.Options(lang='en', pack='amsmath,babel'),
                         multi_language=True)
        for code, txt in ((c, ''.join(p[0] for p in parts))
                          for c, parts in ml.items()):
            key = code[:2].lower()
            own = set(settings[key].math_op_text.values())
            other = set()
            for k2, ls in settings.items():
                if k2 != key:
                    other |= set(ls.math_op_text.values())
            found = set(re.findall(r'[^\W\d_]{3,}', txt)) - \
                {'Aaa', 'Bbb', 'Ccc'}
            alien = sorted(w for w in found if w in other - own)
            if alien or not (found & own):
                fail(input=src, part=code, text=txt,
                     why='operator words of another language: %r' % alien)
    except Exception as e:      # noqa
        fail(input=src, why=repr(e))
    # a relation the document itself redeclares is still a relation: the
    # equation reads the same with and without the redefinitions (the new
    # meanings are unknown macros, i.e. plain elements)
    pre = ('\\renewcommand{\\le}{\\leqslant}\\renewcommand{\\to}'
           '{\\longrightarrow}\\newcommand{\\cdot}{\\bullet}')
    eq = ('Aaa\n\\begin{align}\na &= b \\\\\n  &\\le c \\\\\n'
          '  &\\cdot e \\\\\n  &\\to d.\n\\end{align}\nBbb\n')
    for lang in ('en', 'de', 'ru'):
        n += 1
        try:
            o = t2t.Options(lang=lang, pack='amsmath')
            plain = t2t.tex2txt(eq, o)[0]
            redef = t2t.tex2txt(pre + eq, o)[0]
            if redef[redef.index('Aaa'):] != plain[plain.index('Aaa'):]:
                fail(lang=lang, input=pre + eq, got=redef, expected=plain,
                     why='redeclared relation loses its operator word')
        except Exception as e:      # noqa
            fail(input=pre + eq, why=repr(e))
    return _res(n, fails)


def _res(n, fails):
    return {'name': 'displayed-equations-on-small-documents',
            'bounded': True,
            'bound': '4 environments x 5 row bodies x 5 marks x 4 tails x simple '
                     'mode on/off in 3 languages for one row; align with 2 '
                     'rows and a fifth of the 3-row cases in English',
            'evaluations': n, 'failures': fails}


QUICK_BOUNDED = [display_small_documents]

TRUSTED = cm.TRUSTED_CORE
ASSUMPTIONS = cm.ASSUME_CORE + ['known finding F15 applies to expand_math_section']
LEVEL_TEXT = 'Proves for expand_display_math: the punctuation mark kept in simple-equations mode and for removed environments is taken from the text of the rendered output list (call-site precondition of get_text_direct), the row/section loop keeps ParserInv and BufInv, every token appended (blank after &, line break after \\\\\\\\, placeholders, operator words, punctuation) is a fresh fixed token inside the source at the position of a token of the equation, the simple-equations branch and the env.remove branch build their output from positions of the equation only; index safety of out[-1] and repls[0]. NOT proved: one output line per row, advance of placeholders at the documented points.'
LEVEL_NOTE = 'Same limits as C10.'
TECHNIQUE = 'contract-based deductive verification: per-function postconditions and loop invariants over the real AST, z3; end-to-end sentence of the property not decided'
