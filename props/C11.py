"""C11 -- displayed equations (lemmas)."""
from props import common as cm
ID = 'C11'
MODS = cm.MODS_CORE + ['contracts.c_math']
FOCUS = 'range'
FUNCS = ['yalafi.mathparser.MathParser.' + n for n in ('expand_display_math', 'expand_math_section', 'replace_section')] + [cm.P + 'parse_newline_option']


def SELECT(name):
    return not cm.is_safety(name)

TRUSTED = cm.TRUSTED_CORE
ASSUMPTIONS = cm.ASSUME_CORE + ['known finding F15 applies to expand_math_section']
LEVEL_TEXT = 'Proves for expand_display_math: the punctuation mark kept in simple-equations mode and for removed environments is taken from the text of the rendered output list (call-site precondition of get_text_direct), the row/section loop keeps ParserInv and BufInv, every token appended (blank after &, line break after \\\\\\\\, placeholders, operator words, punctuation) is a fresh fixed token inside the source at the position of a token of the equation, the simple-equations branch and the env.remove branch build their output from positions of the equation only; index safety of out[-1] and repls[0]. NOT proved: one output line per row, advance of placeholders at the documented points.'
LEVEL_NOTE = 'Same limits as C10.'
TECHNIQUE = 'contract-based deductive verification: per-function postconditions and loop invariants over the real AST, z3; end-to-end sentence of the property not decided'
