"""Symbolic value model of pyvc.

Values handled by the executor
  int      : python int | z3 ArithRef
  bool     : python bool | z3 BoolRef
  None     : python None
  str      : python str (concrete)  | SSeq(kind='str')   -- array of code points + length
  int list : SSeq(kind='ilist')
  object   : Obj (class tag, field dict, identity)        -- heap objects, python-side identity
  optional : Opt(isnone, obj)                             -- "token or None"
  token list: TokList(segments)                           -- summarised list, see below
  tuple    : python tuple of values
  opaque   : Opaque(tag)                                  -- anything we do not model

Sequences are (Array Int Int, length).  Derived sequences (slices,
concatenations, repetitions, ranges) are built with z3 Lambda arrays, so no
axioms are needed for them.
"""
import itertools
import z3

I = z3.IntSort()
B = z3.BoolSort()
A = z3.ArraySort(I, I)

_cnt = itertools.count()


def uid():
    return next(_cnt)


def fresh_int(name='i'):
    return z3.Int('%s!%d' % (name, uid()))


def fresh_bool(name='b'):
    return z3.Bool('%s!%d' % (name, uid()))


def fresh_arr(name='a'):
    return z3.Array('%s!%d' % (name, uid()), I, I)


class EngineError(Exception):
    """The engine met something it does not support (exit 3 / UNDECIDED)."""


class Unsupported(EngineError):
    pass


# --------------------------------------------------------------------------
# small helpers on ints / bools
# --------------------------------------------------------------------------

def is_sym(v):
    return isinstance(v, z3.ExprRef)


def is_int(v):
    return (isinstance(v, int) and not isinstance(v, bool)) or \
        (isinstance(v, z3.ArithRef))


def is_bool(v):
    return isinstance(v, bool) or isinstance(v, z3.BoolRef)


def zint(v):
    if isinstance(v, bool):
        return z3.IntVal(1 if v else 0)
    if isinstance(v, int):
        return z3.IntVal(v)
    if isinstance(v, z3.BoolRef):
        return z3.If(v, z3.IntVal(1), z3.IntVal(0))
    return v


def zbool(v):
    if isinstance(v, bool):
        return z3.BoolVal(v)
    return v


def And(*xs):
    out = []
    for x in xs:
        if x is True:
            continue
        if x is False:
            return False
        out.append(x)
    if not out:
        return True
    if len(out) == 1:
        return out[0]
    return z3.And(*out)


def Or(*xs):
    out = []
    for x in xs:
        if x is False:
            continue
        if x is True:
            return True
        out.append(x)
    if not out:
        return False
    if len(out) == 1:
        return out[0]
    return z3.Or(*out)


def Not(x):
    if x is True:
        return False
    if x is False:
        return True
    return z3.Not(x)


def Implies(a, b):
    return Or(Not(a), b)


def Ite(c, a, b):
    if c is True:
        return a
    if c is False:
        return b
    if is_bool(a) and is_bool(b):
        return z3.If(c, zbool(a), zbool(b))
    return z3.If(c, zint(a), zint(b))


def imin(a, b):
    if isinstance(a, int) and isinstance(b, int):
        return min(a, b)
    return z3.If(zint(a) <= zint(b), zint(a), zint(b))


def imax(a, b):
    if isinstance(a, int) and isinstance(b, int):
        return max(a, b)
    return z3.If(zint(a) >= zint(b), zint(a), zint(b))


def iabs(a):
    if isinstance(a, int):
        return abs(a)
    return z3.If(a >= 0, a, -a)


def forall(lo, hi, body, name='k'):
    """forall k. lo <= k < hi ==> body(k); expanded when bounds are concrete
    and small."""
    if isinstance(lo, int) and isinstance(hi, int) and hi - lo <= 64:
        return And(*[body(k) for k in range(lo, hi)])
    k = fresh_int(name)
    b = body(k)
    if b is True:
        return True
    return z3.ForAll([k], z3.Implies(z3.And(zint(lo) <= k, k < zint(hi)),
                                     zbool(b)))


def exists(lo, hi, body, name='k'):
    if isinstance(lo, int) and isinstance(hi, int) and hi - lo <= 64:
        return Or(*[body(k) for k in range(lo, hi)])
    k = fresh_int(name)
    b = body(k)
    return z3.Exists([k], z3.And(zint(lo) <= k, k < zint(hi), zbool(b)))


# --------------------------------------------------------------------------
# sequences
# --------------------------------------------------------------------------

class SSeq:
    """String ('str') or list of ints ('ilist') as (array, length)."""
    __slots__ = ('arr', 'ln', 'kind', 'conc', 'tag', 'origin')

    def __init__(self, arr, ln, kind, conc=None, tag=None):
        self.arr = arr
        self.ln = ln
        self.kind = kind
        self.conc = conc        # python str / list when fully concrete
        self.tag = tag          # free-form provenance tag (ghost)
        self.origin = None      # (base SSeq, offset): this is base[off:off+ln]

    def at(self, k):
        """code point / element at (already normalised) index k"""
        if self.conc is not None and isinstance(k, int):
            c = self.conc[k]
            return ord(c) if self.kind == 'str' else c
        return z3.Select(self.arr, zint(k))

    def __repr__(self):
        if self.conc is not None:
            return 'SSeq(%r)' % (self.conc,)
        return 'SSeq<%s,%s>' % (self.kind, self.ln)


def _conc_arr(vals):
    arr = z3.K(I, z3.IntVal(0))
    for i, v in enumerate(vals):
        arr = z3.Store(arr, i, v)
    return arr


def lift_str(s):
    if isinstance(s, SSeq):
        return s
    assert isinstance(s, str), s
    return SSeq(_conc_arr([ord(c) for c in s]), len(s), 'str', conc=s)


def lift_ilist(l):
    if isinstance(l, SSeq):
        return l
    return SSeq(_conc_arr([zint(x) for x in l]), len(l), 'ilist',
                conc=list(l) if all(isinstance(x, int) for x in l) else None)


def fresh_seq(kind, name='s', assume=None):
    """fresh sequence; the caller must assume ln >= 0 (returned as 2nd)"""
    s = SSeq(fresh_arr(name), fresh_int(name + '_len'), kind)
    if assume is not None:
        assume(s.ln >= 0)
    return s


def is_str(v):
    return isinstance(v, str) or (isinstance(v, SSeq) and v.kind == 'str')


def seq_len(s):
    if isinstance(s, str):
        return len(s)
    return s.ln


def lam(f):
    k = z3.Int('lk!%d' % uid())
    return z3.Lambda([k], zint(f(k)))


def seq_concat(a, b):
    r = _seq_concat(a, b)
    t = getattr(a, 'tag', None) or getattr(b, 'tag', None)
    if t is not None and isinstance(r, SSeq):
        r.tag = t
    return r


def _seq_concat(a, b):
    if isinstance(a, str) and isinstance(b, str):
        return a + b
    kind = 'str' if is_str(a) else 'ilist'
    a = lift_str(a) if kind == 'str' else lift_ilist(a)
    b = lift_str(b) if kind == 'str' else lift_ilist(b)
    if a.conc is not None and b.conc is not None:
        return lift_str(a.conc + b.conc) if kind == 'str' \
            else lift_ilist(a.conc + b.conc)
    if isinstance(a.ln, int) and a.ln == 0:
        return b
    if isinstance(b.ln, int) and b.ln == 0:
        return a
    la = zint(a.ln)
    arr = lam(lambda k: z3.If(k < la, a.at(k), b.at(k - la)))
    return SSeq(arr, a.ln + b.ln, kind)


def clamp_index(i, ln):
    """python slice-bound normalisation: negative -> +len, then clamp"""
    if i is None:
        return None
    if isinstance(i, int) and isinstance(ln, int):
        if i < 0:
            i += ln
        return max(0, min(i, ln))
    i = zint(i)
    ln = zint(ln)
    j = z3.If(i < 0, i + ln, i)
    return z3.If(j < 0, 0, z3.If(j > ln, ln, j))


def seq_slice(s, lo, hi):
    r = _seq_slice(s, lo, hi)
    t = getattr(s, 'tag', None)
    if t is not None and isinstance(r, SSeq):
        r.tag = t
    return r


def _seq_slice(s, lo, hi):
    if isinstance(s, str) and (lo is None or isinstance(lo, int)) and \
            (hi is None or isinstance(hi, int)):
        return s[lo:hi]
    kind = 'str' if is_str(s) else 'ilist'
    s = lift_str(s) if kind == 'str' else s
    if s.conc is not None and (lo is None or isinstance(lo, int)) and \
            (hi is None or isinstance(hi, int)):
        r = s.conc[lo:hi]
        return lift_str(r) if kind == 'str' else lift_ilist(r)
    a = 0 if lo is None else clamp_index(lo, s.ln)
    b = s.ln if hi is None else clamp_index(hi, s.ln)
    if isinstance(a, int) and isinstance(b, int):
        n = max(0, b - a)
    else:
        n = z3.If(zint(b) - zint(a) > 0, zint(b) - zint(a), z3.IntVal(0))
    if isinstance(a, int) and a == 0:
        arr = s.arr
    else:
        az = zint(a)
        arr = lam(lambda k: s.at(az + k))
    r = SSeq(arr, n, kind)
    base, off = s.origin if s.origin is not None else (s, 0)
    r.origin = (base, zint(off) + zint(a))
    return r


def seq_repeat(x, n, kind='ilist'):
    """[x] * n  (n may be negative -> empty)"""
    if isinstance(n, int):
        ln = max(0, n)
    else:
        ln = z3.If(n > 0, n, z3.IntVal(0))
    return SSeq(z3.K(I, zint(x)), ln, kind)


def seq_range(a, b):
    """list(range(a, b))"""
    if isinstance(a, int) and isinstance(b, int):
        return lift_ilist(list(range(a, b)))
    n = z3.If(zint(b) - zint(a) > 0, zint(b) - zint(a), z3.IntVal(0))
    az = zint(a)
    return SSeq(lam(lambda k: az + k), n, 'ilist')


def seq_eq(a, b):
    if a is b:
        return True
    if isinstance(a, str) and isinstance(b, str):
        return a == b
    kind = 'str' if (is_str(a) or is_str(b)) else 'ilist'
    a = lift_str(a) if kind == 'str' else lift_ilist(a)
    b = lift_str(b) if kind == 'str' else lift_ilist(b)
    if a.conc is not None and b.conc is not None:
        return a.conc == b.conc
    if a.conc is not None:
        a, b = b, a
    if isinstance(a.ln, int) and isinstance(b.ln, int) and a.ln != b.ln:
        return False
    if b.conc is not None:
        n = len(b.conc)
        return And(zint(a.ln) == n,
                   *[a.at(k) == b.at(k) for k in range(n)])
    return And(zint(a.ln) == zint(b.ln),
               forall(0, a.ln, lambda k: a.at(k) == b.at(k)))


def char(code):
    """one-character string from a code point term"""
    if isinstance(code, int):
        return lift_str(chr(code))
    return SSeq(z3.Store(z3.K(I, z3.IntVal(0)), 0, code), 1, 'str')


def seq_startswith(s, t, start=0):
    """s.startswith(t, start) for start >= 0"""
    s = lift_str(s)
    t = lift_str(t)
    if s.conc is not None and t.conc is not None and isinstance(start, int):
        return s.conc.startswith(t.conc, start)
    st = start
    return And(zint(st) + zint(t.ln) <= zint(s.ln),
               forall(0, t.ln, lambda k: s.at(zint(st) + k) == t.at(k)))


def seq_contains_char(s, code):
    """code point in s"""
    s = lift_str(s) if is_str(s) else s
    if s.conc is not None:
        vals = [ord(c) for c in s.conc] if s.kind == 'str' else s.conc
        return Or(*[zint(code) == v for v in vals])
    return exists(0, s.ln, lambda k: s.at(k) == zint(code))


# uninterpreted character predicates (cross-checked against CPython in axioms)
isspace_c = z3.Function('isspace_c', I, B)
isalpha_c = z3.Function('isalpha_c', I, B)
isdecimal_c = z3.Function('isdecimal_c', I, B)
digit_val = z3.Function('digit_val', I, I)

CHAR_AXIOMS = []
for _c in ' \t\n\r\x0b\x0c':
    CHAR_AXIOMS.append(isspace_c(ord(_c)))
for _c in 'abcxyzABCXYZ019{}[]$%#\\&_^~\'"`-.,;:!?()=+*/<>@|':
    CHAR_AXIOMS.append(z3.Not(isspace_c(ord(_c))))
for _c in 'azAZ':
    CHAR_AXIOMS.append(isalpha_c(ord(_c)))
for _c in '0123456789':
    CHAR_AXIOMS.append(isdecimal_c(ord(_c)))
    CHAR_AXIOMS.append(digit_val(ord(_c)) == int(_c))
_k = z3.Int('ck')
CHAR_AXIOMS.append(z3.ForAll([_k], z3.Implies(isdecimal_c(_k),
                   z3.And(0 <= digit_val(_k), digit_val(_k) <= 9)),
                   patterns=[digit_val(_k)]))
CHAR_AXIOMS.append(z3.ForAll([_k], z3.Implies(isdecimal_c(_k),
                   z3.Not(isspace_c(_k))), patterns=[isdecimal_c(_k)]))


# --------------------------------------------------------------------------
# heap objects
# --------------------------------------------------------------------------

class Obj:
    """Heap object with python-side identity.

    cls    : concrete class name (str) or z3 Int (symbolic class tag)
    fields : name -> value
    fresh  : allocated in the current activation and not yet published
    """
    __slots__ = ('cls', 'fields', 'fresh', 'oid', 'meta')

    def __init__(self, cls, fields=None, fresh=False, meta=None):
        self.cls = cls
        self.fields = dict(fields or {})
        self.fresh = fresh
        self.oid = uid()
        self.meta = dict(meta or {})

    def __repr__(self):
        return 'Obj<%s#%d>' % (self.cls, self.oid)


class Opt:
    """token-or-None"""
    __slots__ = ('isnone', 'obj')

    def __init__(self, isnone, obj):
        self.isnone = isnone
        self.obj = obj


class Opaque:
    """a value the engine does not model; any use other than passing it
    around is Unsupported unless a contract handles it"""
    __slots__ = ('tag', 'data')

    def __init__(self, tag, data=None):
        self.tag = tag
        self.data = data

    def __repr__(self):
        return 'Opaque<%s>' % (self.tag,)


class Single:
    __slots__ = ('obj',)

    def __init__(self, obj):
        self.obj = obj


class Many:
    """ln elements, each produced by mk(state) -> Obj (assumptions about the
    element are pushed into the state by mk).  `fresh`: the elements are
    owned by this list (copies)."""
    __slots__ = ('ln', 'mk', 'fresh', 'first', 'last', 'label', 'indexed')

    def __init__(self, ln, mk, fresh=False, label='', indexed=None):
        self.indexed = indexed   # fn(state, abs_index, elem): assumptions
        self.ln = ln
        self.mk = mk
        self.fresh = fresh
        self.first = None     # memoised first / last element
        self.last = None
        self.label = label


class TokList:
    """Summarised list of heap objects: concatenation of segments."""
    __slots__ = ('segs', 'lid')

    def __init__(self, segs=None):
        self.segs = list(segs or [])
        self.lid = uid()

    def length(self):
        n = 0
        for s in self.segs:
            n = n + (1 if isinstance(s, Single) else s.ln)
        return n

    def copy(self):
        t = TokList(list(self.segs))
        return t

    def __repr__(self):
        return 'TokList(%s)' % ','.join(
            ('1' if isinstance(s, Single) else 'M[%s]' % s.ln)
            for s in self.segs)


def fit(what, thunk):
    """evaluate a contract clause; a clause that trips over the shape of the
    code (a variable that no longer exists, a value of another type) does
    not fit the code: undecided, neither a crash nor a violation"""
    try:
        return thunk()
    except (Unsupported, EngineError):
        raise
    except (KeyError, AttributeError, TypeError, IndexError) as e:
        raise Unsupported('contract clause %s does not fit the code (%s: %s)'
                          % (what, type(e).__name__, str(e)[:100]))


def const_names(v, _seen=None):
    """names of the uninterpreted constants a value is built from"""
    out = set()
    if isinstance(v, SSeq):
        out |= const_names(v.arr)
        out |= const_names(v.ln)
        return out
    if isinstance(v, (tuple, list)):
        for x in v:
            out |= const_names(x)
        return out
    if isinstance(v, Opt):
        return const_names(v.isnone) | const_names(v.obj)
    if isinstance(v, Obj):
        for x in v.fields.values():
            if not isinstance(x, (Obj, TokList)):
                out |= const_names(x)
        return out
    if not isinstance(v, z3.ExprRef):
        return out
    seen = set()
    todo = [v]
    while todo:
        e = todo.pop()
        k = e.get_id()
        if k in seen:
            continue
        seen.add(k)
        if z3.is_app(e):
            if e.num_args() == 0 and \
                    e.decl().kind() == z3.Z3_OP_UNINTERPRETED:
                out.add(e.decl().name())
            todo.extend(e.children())
        elif z3.is_quantifier(e):
            todo.append(e.body())
    return out
