"""Modular frame check (C17): every function reachable from the entry points
has the frame `writes nothing that outlives the call`.

For each function of /repo/yalafi the checker computes from the AST
  * its direct stores to non-local state: `global x` assignments, stores and
    in-place mutations (append/extend/pop/insert/sort/clear/update/
    setdefault/remove/add, subscript and attribute stores, augmented
    assignment, del) whose access path is rooted at a module-level name, a
    module alias, a class attribute or a mutable default argument -- directly
    or through a local alias of one of those;
  * its callees (names resolved through the module's imports; a method call
    x.m() may be any function named m in the package; values stored in
    repl= / end_func= slots and all init_module functions are callees of the
    expander, because handlers and package modules are called through
    tables).
A function satisfies its frame iff it has no such direct store and all its
callees satisfy theirs (the call graph is closed under the over-approximated
edges, so checking every reachable function is the modular rule unrolled).
One obligation per store-like statement of every reachable function.

Not covered (stated in the evidence): the import cache (sys.modules), user
extension modules, objects reachable only through arguments supplied by the
caller of the entry point (mutating those is reported for the entry points
themselves only)."""
import ast
from . import front

MUTATORS = {'append', 'extend', 'pop', 'insert', 'sort', 'clear', 'update',
            'setdefault', 'remove', 'add', 'discard', 'popitem', 'reverse',
            'appendleft', '__setitem__'}


def root_and_path(node):
    parts = []
    while True:
        if isinstance(node, ast.Attribute):
            parts.append('.' + node.attr)
            node = node.value
        elif isinstance(node, ast.Subscript):
            parts.append('[]')
            node = node.value
        elif isinstance(node, ast.Call):
            parts.append('()')
            node = node.func
        else:
            break
    if isinstance(node, ast.Name):
        return node.id, ''.join(reversed(parts))
    return None, ''


def is_memoised(fi):
    for d in getattr(fi.node, 'decorator_list', []):
        t = d.func if isinstance(d, ast.Call) else d
        name = t.attr if isinstance(t, ast.Attribute) else getattr(t, 'id',
                                                                   '')
        if name in ('lru_cache', 'cache', 'cached_property', 'memoize',
                    'memoized'):
            return True
    return False


class FuncFacts:
    def __init__(self, fi):
        self.fi = fi
        self.locals = set()
        self.globals_decl = set()
        self.alias_of_global = {}    # local name -> description
        self.stores = []             # (lineno, text, nonlocal?, why)
        self.calls = set()
        self.attr_calls = set()
        self.mutable_defaults = set()
        self.shallow = {}


def analyse_function(repo, fi):
    f = FuncFacts(fi)
    node = fi.node
    mi = fi.module
    a = node.args
    params = [p.arg for p in a.args + a.kwonlyargs]
    if a.vararg:
        params.append(a.vararg.arg)
    if a.kwarg:
        params.append(a.kwarg.arg)
    f.locals.update(params)
    nd = len(a.defaults)
    for i, p in enumerate(a.args):
        di = i - (len(a.args) - nd)
        if di >= 0 and isinstance(a.defaults[di], (ast.List, ast.Dict,
                                                   ast.Set)):
            f.mutable_defaults.add(p.arg)
    # enclosing function locals are locals too (closures)
    par = fi.parent
    outer = set()
    while par is not None:
        pf = analyse_locals(par.node)
        outer |= pf
        par = par.parent

    body_nodes = []

    def walk(n):
        for c in ast.iter_child_nodes(n):
            if isinstance(c, (ast.FunctionDef, ast.Lambda, ast.ClassDef)):
                if isinstance(c, ast.FunctionDef):
                    f.locals.add(c.name)
                continue
            body_nodes.append(c)
            walk(c)
    walk(node)
    for c in body_nodes:
        if isinstance(c, ast.Global):
            f.globals_decl.update(c.names)
    for c in body_nodes:
        for t in _targets(c):
            if isinstance(t, ast.Name) and t.id not in f.globals_decl:
                f.locals.add(t.id)
    f.locals |= outer

    def is_modlevel(name):
        if name in f.globals_decl:
            return 'global ' + name
        if name in f.locals:
            if name in f.alias_of_global:
                return f.alias_of_global[name]
            if name in f.mutable_defaults:
                return 'mutable default argument ' + name
            return None
        if name in mi.globals or name in mi.imports or name in mi.classes \
                or name in mi.funcs:
            return 'module-level name ' + name
        return None

    # local aliases of module-level objects:  x = GLOBAL / x = mod.attr
    for c in body_nodes:
        if isinstance(c, ast.Assign) and len(c.targets) == 1 and \
                isinstance(c.targets[0], ast.Name):
            r, path = root_and_path(c.value)
            if r is not None and '()' not in path:
                m = None
                if r not in f.locals or r in f.globals_decl:
                    if r in mi.globals or r in mi.imports:
                        m = 'alias of module-level %s%s' % (r, path)
                if m:
                    f.alias_of_global[c.targets[0].id] = m

    # results of memoising functions (functools.lru_cache / cache) are
    # shared between calls: a local bound to such a result aliases state
    # that outlives the call
    for c in body_nodes:
        if isinstance(c, ast.Assign) and len(c.targets) == 1 and \
                isinstance(c.targets[0], ast.Name) and \
                isinstance(c.value, ast.Call):
            fn = c.value.func
            res = None
            if isinstance(fn, ast.Name):
                res = repo.resolve_name(mi, fn.id)
            elif isinstance(fn, ast.Attribute) and \
                    isinstance(fn.value, ast.Name):
                res = repo.resolve_module_attr(mi, fn.value.id, fn.attr)
            if res and res[0] == 'func' and is_memoised(repo.funcs[res[1]]):
                f.alias_of_global[c.targets[0].id] = \
                    'result of the memoising function %s (shared between ' \
                    'calls)' % res[1]

    # shallow copies of module-level containers: X = G.copy() / dict(G) /
    # list(G) / copy.copy(G).  The copy itself is call-local, its ELEMENTS
    # are still the module-level objects: a store two subscripts deep, or a
    # mutator on an element, changes state that outlives the call
    f.shallow = {}
    for c in body_nodes:
        if isinstance(c, ast.Assign) and len(c.targets) == 1 and \
                isinstance(c.targets[0], ast.Name) and \
                isinstance(c.value, ast.Call):
            v = c.value
            src = None
            if isinstance(v.func, ast.Attribute) and v.func.attr == 'copy' \
                    and not v.args:
                src = v.func.value
            elif isinstance(v.func, ast.Name) and v.func.id in (
                    'dict', 'list', 'set') and len(v.args) == 1:
                src = v.args[0]
            elif isinstance(v.func, ast.Attribute) and \
                    v.func.attr == 'copy' and len(v.args) == 1:
                src = v.args[0]         # copy.copy(G)
            if src is not None:
                r, path = root_and_path(src)
                if r is not None and '()' not in path and (
                        r not in f.locals or r in f.globals_decl) and (
                        r in mi.globals or r in mi.imports):
                    f.shallow[c.targets[0].id] = \
                        'element of a shallow copy of module-level %s%s' % (
                            r, path)

    def record(lineno, text, why):
        f.stores.append((lineno, text, why is not None, why or 'call-local'))

    for c in body_nodes:
        if isinstance(c, (ast.Assign, ast.AugAssign, ast.AnnAssign,
                          ast.Delete)):
            tg = c.targets if isinstance(c, (ast.Assign, ast.Delete)) \
                else [c.target]
            for t0 in tg:
                for t in _flatten(t0):
                    if isinstance(t, ast.Name):
                        if t.id in f.globals_decl:
                            record(c.lineno, 'global %s = ...' % t.id,
                                   'assignment to global ' + t.id)
                        continue
                    r, path = root_and_path(t)
                    if r is None or path.startswith('()'):
                        # target object is the result of a call
                        record(c.lineno, ast.unparse(t), None)
                        continue
                    why = is_modlevel(r)
                    if why is None and r in f.shallow and \
                            path.count('[]') + path.count('.') >= 2:
                        why = f.shallow[r]
                    record(c.lineno, ast.unparse(t), why)
        elif isinstance(c, ast.Call):
            fn = c.func
            if isinstance(fn, ast.Attribute):
                f.attr_calls.add(fn.attr)
                if fn.attr in MUTATORS:
                    r, path = root_and_path(fn.value)
                    if r is not None:
                        why = None if path.startswith('()') \
                            else is_modlevel(r)
                        if why is None and r in f.shallow and path and \
                                not path.startswith('()'):
                            why = f.shallow[r]
                        record(c.lineno, ast.unparse(fn) + '(...)', why)
                # module function call  mod.f(...)
                if isinstance(fn.value, ast.Name):
                    res = repo.resolve_module_attr(mi, fn.value.id, fn.attr)
                    if res and res[0] in ('func', 'class'):
                        f.calls.add(res[1])
            elif isinstance(fn, ast.Name):
                if fn.id in ('exec', 'eval', 'setattr'):
                    record(c.lineno, fn.id + '(...)', None if fn.id != 'setattr'
                           else None)
                res = repo.resolve_name(mi, fn.id)
                if res and res[0] in ('func', 'class'):
                    f.calls.add(res[1])
                # nested function of this or an enclosing function
                q = fi.qual + '.<locals>.' + fn.id
                if q in repo.funcs:
                    f.calls.add(q)
                par = fi.parent
                while par is not None:
                    q = par.qual + '.<locals>.' + fn.id
                    if q in repo.funcs:
                        f.calls.add(q)
                    par = par.parent
    # function VALUES (passed as arguments, stored in tables) may be called
    # by the receiver: every reference to a nested or module-level function
    # is a call edge
    for c in body_nodes:
        if isinstance(c, ast.Name) and isinstance(c.ctx, ast.Load):
            q = fi.qual + '.<locals>.' + c.id
            if q in repo.funcs:
                f.calls.add(q)
            par = fi.parent
            while par is not None:
                q = par.qual + '.<locals>.' + c.id
                if q in repo.funcs:
                    f.calls.add(q)
                par = par.parent
            if c.id not in f.locals:
                res = repo.resolve_name(mi, c.id)
                if res and res[0] == 'func':
                    f.calls.add(res[1])
        elif isinstance(c, ast.Attribute) and isinstance(c.ctx, ast.Load) \
                and isinstance(c.value, ast.Name) and \
                c.value.id not in f.locals:
            res = repo.resolve_module_attr(mi, c.value.id, c.attr)
            if res and res[0] == 'func':
                f.calls.add(res[1])
    return f


def analyse_locals(node):
    out = set(p.arg for p in node.args.args)

    def walk(n):
        for c in ast.iter_child_nodes(n):
            if isinstance(c, (ast.FunctionDef, ast.Lambda, ast.ClassDef)):
                if isinstance(c, ast.FunctionDef):
                    out.add(c.name)
                continue
            for t in _targets(c):
                if isinstance(t, ast.Name):
                    out.add(t.id)
            walk(c)
    walk(node)
    return out


def _flatten(t):
    if isinstance(t, (ast.Tuple, ast.List)):
        for e in t.elts:
            yield from _flatten(e)
    elif isinstance(t, ast.Starred):
        yield from _flatten(t.value)
    else:
        yield t


def _targets(c):
    if isinstance(c, ast.Assign):
        for t in c.targets:
            yield from _flatten(t)
    elif isinstance(c, (ast.AugAssign, ast.AnnAssign)):
        yield from _flatten(c.target)
    elif isinstance(c, (ast.For, ast.comprehension)):
        yield from _flatten(c.target)
    elif isinstance(c, ast.With):
        for it in c.items:
            if it.optional_vars is not None:
                yield from _flatten(it.optional_vars)
    elif isinstance(c, ast.NamedExpr):
        yield c.target
    elif isinstance(c, ast.ExceptHandler) and c.name:
        yield ast.Name(id=c.name)
    elif isinstance(c, (ast.Import, ast.ImportFrom)):
        for a in c.names:
            yield ast.Name(id=(a.asname or a.name).split('.')[0])


def table_callees(repo):
    """functions called through tables: handler slots and module init"""
    out = set()
    for mi in repo.modules.values():
        if mi.name.startswith('yalafi.shell.'):
            # shell/addpacks.py is a pseudo package used by the start-up code
            # only (explicit pack='.yalafi.shell.addpacks'); its deliberate
            # module-level result lists are outside the claim
            continue
        for node in ast.walk(mi.tree):
            if isinstance(node, ast.Call):
                for k in node.keywords:
                    if k.arg in ('repl', 'end_func', 'items'):
                        v = k.value
                        call = isinstance(v, ast.Call)
                        fn = v.func if call else v
                        r = None
                        if isinstance(fn, ast.Name):
                            r = repo.resolve_name(mi, fn.id)
                            if r is None:
                                # nested generator (labs_enumerate, ...)
                                for q in repo.funcs:
                                    if q.endswith('.<locals>.' + fn.id):
                                        out.add(q)
                        elif isinstance(fn, ast.Attribute) and \
                                isinstance(fn.value, ast.Name):
                            r = repo.resolve_module_attr(mi, fn.value.id,
                                                         fn.attr)
                        if r and r[0] == 'func':
                            out.add(r[1])
                            if call:
                                out.update(q for q in repo.funcs
                                           if q.startswith(r[1] + '.<locals>.'))
    for q in repo.funcs:
        if q.endswith('.init_module') and (
                '.packages.' in q or '.documentclasses.' in q):
            out.add(q)
            out.update(k for k in repo.funcs
                       if k.startswith(q + '.<locals>.'))
    return out


def default_escapes(repo):
    """attributes that may hold a *shared default argument object*:
    a parameter p has a mutable literal default (or carries the name of such
    a parameter -- defaults are handed on by name through super().__init__)
    and the function stores it with `X.attr = p`.
    -> {attr: set of parameter names}"""
    names = set()
    for fi in repo.funcs.values():
        a = fi.node.args
        nd = len(a.defaults)
        for i, p in enumerate(a.args):
            di = i - (len(a.args) - nd)
            if di >= 0 and isinstance(a.defaults[di], (ast.List, ast.Dict,
                                                       ast.Set)):
                names.add(p.arg)
        for p, d in zip(a.kwonlyargs, a.kw_defaults):
            if isinstance(d, (ast.List, ast.Dict, ast.Set)):
                names.add(p.arg)
    esc = {}
    for fi in repo.funcs.values():
        params = set(p.arg for p in fi.node.args.args +
                     fi.node.args.kwonlyargs) & names
        if not params:
            continue
        rebound = set()
        for n in ast.walk(fi.node):
            if isinstance(n, ast.Assign):
                for t in n.targets:
                    if isinstance(t, ast.Name):
                        rebound.add(t.id)
        for n in ast.walk(fi.node):
            if isinstance(n, ast.Assign) and isinstance(n.value, ast.Name) \
                    and n.value.id in params and n.value.id not in rebound:
                for t in n.targets:
                    if isinstance(t, ast.Attribute):
                        esc.setdefault(t.attr, set()).add(n.value.id)
    return esc


def _strip_subscripts(n):
    while isinstance(n, ast.Subscript):
        n = n.value
    return n


def _may_shared_expr(v, esc, locs, rets):
    """may the value of expression v be a shared default argument object?
    (attribute that may hold one, a local that may, the result of a call of
    a function (by name) that may return one; through conditional / boolean
    expressions)"""
    if isinstance(v, ast.Attribute):
        return v.attr in esc
    if isinstance(v, ast.Name):
        return v.id in locs
    if isinstance(v, ast.Call):
        f = v.func
        nm = f.attr if isinstance(f, ast.Attribute) else (
            f.id if isinstance(f, ast.Name) else None)
        return nm in rets
    if isinstance(v, ast.IfExp):
        return _may_shared_expr(v.body, esc, locs, rets) or \
            _may_shared_expr(v.orelse, esc, locs, rets)
    if isinstance(v, ast.BoolOp):
        return any(_may_shared_expr(x, esc, locs, rets) for x in v.values)
    return False


def _own_nodes(node):
    out = []

    def walk(n):
        for c in ast.iter_child_nodes(n):
            if isinstance(c, (ast.FunctionDef, ast.Lambda, ast.ClassDef)):
                continue
            out.append(c)
            walk(c)
    walk(node)
    return out


def _shared_locals(node, esc, rets):
    """locals of the function that may be bound to a shared default argument
    object (flow-insensitive: any plain assignment of such a value)"""
    locs = set()
    body = _own_nodes(node)
    changed = True
    while changed:
        changed = False
        for c in body:
            if isinstance(c, ast.Assign) and len(c.targets) == 1 and \
                    isinstance(c.targets[0], ast.Name) and \
                    c.targets[0].id not in locs and \
                    _may_shared_expr(c.value, esc, locs, rets):
                locs.add(c.targets[0].id)
                changed = True
    return locs, body


def returns_shared(repo, esc):
    """names of functions that may return a shared default argument object
    (interprocedural fixed point, calls resolved by name)"""
    rets = set()
    changed = True
    while changed:
        changed = False
        for q, fi in repo.funcs.items():
            nm = q.rsplit('.', 1)[-1]
            if nm in rets:
                continue
            locs, body = _shared_locals(fi.node, esc, rets)
            for c in body:
                if isinstance(c, ast.Return) and c.value is not None and \
                        _may_shared_expr(c.value, esc, locs, rets):
                    rets.add(nm)
                    changed = True
                    break
    return rets


def shared_default_mutations(fi, esc, rets=frozenset()):
    """in-place mutations of a list/dict reached through an attribute that
    may hold a shared default argument object (directly or through a local
    alias): [(lineno, text, why)].  Not flagged: the object was built in the
    same function by a constructor call that passes the parameter
    explicitly."""
    node = fi.node
    explicit = {}       # local name -> set of keywords passed explicitly
    alias = {}          # local name -> attr
    body = []

    def walk(n):
        for c in ast.iter_child_nodes(n):
            if isinstance(c, (ast.FunctionDef, ast.Lambda, ast.ClassDef)):
                continue
            body.append(c)
            walk(c)
    walk(node)
    for c in body:
        if isinstance(c, ast.Assign) and len(c.targets) == 1 and \
                isinstance(c.targets[0], ast.Name):
            v = c.value
            if isinstance(v, ast.Call):
                kws = set(k.arg for k in v.keywords if k.arg)
                if v.args:
                    kws.add('*positional*')
                explicit[c.targets[0].id] = kws
            elif isinstance(v, ast.Attribute) and v.attr in esc:
                alias[c.targets[0].id] = v.attr

    via_call, _ = _shared_locals(node, esc, rets)

    def hit(container):
        """container: expression of the mutated list/dict"""
        c = _strip_subscripts(container)
        if isinstance(c, ast.Name) and c.id in via_call and \
                c.id not in alias:
            return 'local %s may be bound to a shared default argument ' \
                'object (returned by a callee / held by an attribute)' % c.id
        if isinstance(c, ast.Attribute) and c.attr in esc:
            base = c.value
            if isinstance(base, ast.Name) and base.id in explicit:
                kws = explicit[base.id]
                if '*positional*' in kws or (esc[c.attr] & kws):
                    return None
            return 'attribute .%s may hold the shared default argument ' \
                'object of parameter %s' % (c.attr, '/'.join(sorted(
                    esc[c.attr])))
        if isinstance(c, ast.Name) and c.id in alias:
            return 'local alias of attribute .%s, which may hold a shared ' \
                'default argument object' % alias[c.id]
        return None
    out = []
    for c in body:
        if isinstance(c, ast.AugAssign):
            w = hit(c.target)
            if w:
                out.append((c.lineno, ast.unparse(c.target) + ' op= ...', w))
        elif isinstance(c, (ast.Assign, ast.Delete)):
            for t0 in c.targets:
                for t in _flatten(t0):
                    if isinstance(t, ast.Subscript):
                        w = hit(t.value)
                        if w:
                            out.append((c.lineno, ast.unparse(t), w))
        elif isinstance(c, ast.Call) and isinstance(c.func, ast.Attribute) \
                and c.func.attr in MUTATORS:
            w = hit(c.func.value)
            if w:
                out.append((c.lineno, ast.unparse(c.func) + '(...)', w))
    return out


ENTRY = ['yalafi.tex2txt.tex2txt',
         'yalafi.shell.proofreader.run_proofreader_options',
         'yalafi.shell.server.Handler.create_message']
# proofreader I/O is outside the claim ("the result of filtering a document"):
# the only state there is the flag "local LT server already started"
EXCLUDED = ['yalafi.shell.proofreader.run_languagetool',
            'yalafi.shell.proofreader.start_local_lt_server',
            'yalafi.shell.proofreader.run_textgears']
DISPATCHERS = ['yalafi.parser.Parser.expand_arguments',
               'yalafi.parser.Parser.end_environment',
               'yalafi.parser.Parser.begin_environment',
               'yalafi.utils.get_module_handler',
               'yalafi.tex2txt.get_packages']


def check(repo=None):
    """-> (obligations [(name, ok, detail)], info dict)"""
    repo = repo or front.repo()
    facts = {q: analyse_function(repo, fi) for q, fi in repo.funcs.items()}
    by_name = {}
    for q in repo.funcs:
        by_name.setdefault(q.rsplit('.', 1)[-1], set()).add(q)
    tables = table_callees(repo)
    edges = {}
    for q, f in facts.items():
        e = set()
        for c in f.calls:
            if c in repo.funcs:
                e.add(c)
            elif c in repo.classes:
                init = repo.find_method(c, '__init__')
                if init is not None:
                    e.add(init.qual)
        for m in f.attr_calls:
            for cand in by_name.get(m, ()):
                if repo.funcs[cand].cls is not None and \
                        '.<locals>.' not in cand:
                    e.add(cand)
        if q in DISPATCHERS:
            e |= tables
        edges[q] = e
    reach = set()
    todo = [q for q in ENTRY if q in repo.funcs]
    missing_entries = [q for q in ENTRY if q not in repo.funcs]
    while todo:
        q = todo.pop()
        if q in reach or any(q == x or q.startswith(x + '.')
                             for x in EXCLUDED):
            continue
        reach.add(q)
        todo += [c for c in edges.get(q, ()) if c not in reach]
    obligations = []
    esc = default_escapes(repo)
    rets = returns_shared(repo, esc)
    for q in sorted(reach):
        f = facts[q]
        shared = {}
        for lineno, text, why in shared_default_mutations(repo.funcs[q],
                                                          esc, rets):
            shared[(lineno, text)] = why
        for lineno, text, bad, why in f.stores:
            name = 'frame:call-local:%s:%s' % (q, text)
            w2 = shared.pop((lineno, text), None)
            if w2 and not bad:
                bad, why = True, w2
            obligations.append((name, not bad, '%s line %d: %s' % (
                repo.funcs[q].path, lineno, why)))
        for (lineno, text), why in shared.items():
            obligations.append(('frame:no-shared-default:%s:%s' % (q, text),
                                False, '%s line %d: %s' % (
                                    repo.funcs[q].path, lineno, why)))
        if q in ENTRY:
            # stores through the entry point's own parameters outlive the call
            params = set(p.arg for p in repo.funcs[q].node.args.args
                         if p.arg != 'self')
            for n in ast.walk(repo.funcs[q].node):
                t = None
                if isinstance(n, ast.Assign):
                    t = n.targets[0]
                elif isinstance(n, ast.AugAssign):
                    t = n.target
                if t is not None and not isinstance(t, ast.Name):
                    r, path = root_and_path(t)
                    if r in params:
                        obligations.append((
                            'frame:entry-argument-unchanged:%s:%s' % (
                                q, ast.unparse(t)), False,
                            'store through parameter %s of the entry point'
                            % r))
    for q in missing_entries:
        obligations.append(('frame:entry-point-exists:' + q, False,
                            'entry point not found'))
    info = {'functions_reachable': len(reach),
            'functions_total': len(repo.funcs),
            'table_callees': len(tables),
            'store_statements_checked': len(obligations),
            'attributes_holding_default_arguments': {
                k: sorted(v) for k, v in esc.items()}}
    return obligations, info, sorted(reach)


if __name__ == '__main__':
    obs, info, reach = check()
    print(info)
    for n, ok, d in obs:
        if not ok:
            print('FAIL', n, '--', d)
