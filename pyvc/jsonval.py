"""JSON values decoded from the proofreader's answer (C15): a value of
unknown type.  Every operation other than a type test is a `json-safe:`
obligation that must follow from type facts established on the path
(json_get, isinstance)."""
import z3
from . import sym
from .sym import (And, Or, Not, Implies, Ite, zint, zbool, fresh_int,
                  fresh_bool, fresh_seq, lift_str, is_str, Unsupported,
                  TokList, Many, Single, SSeq)

T_NONE, T_BOOL, T_INT, T_FLOAT, T_STR, T_LIST, T_DICT = range(7)
_TYPE_OF_BUILTIN = {'dict': (T_DICT,), 'list': (T_LIST,), 'str': (T_STR,),
                    'int': (T_INT, T_BOOL), 'bool': (T_BOOL,),
                    'float': (T_FLOAT,)}


class JVal:
    def __init__(self, name='j'):
        self.name = name
        self.typ = fresh_int(name + '_typ')
        self.ival = fresh_int(name + '_ival')
        self.sval = None
        self.ln = fresh_int(name + '_len')
        self.items = {}          # key -> [present Bool, child]
        self.elem = None
        self.jid = sym.uid()
        # registry of lazily created children, SHARED by all clones of this
        # value: the same key yields the same unknown in a snapshot taken
        # before the first access and in the state that runs on
        self._lazy = {}

    def py_clone(self, memo, clone):
        n = JVal.__new__(JVal)
        memo[id(self)] = n
        n.__dict__.update(self.__dict__)
        n.items = {k: [p, clone(c, memo)] for k, (p, c) in
                   self.items.items()}
        return n

    def constraints(self):
        return And(0 <= self.typ, self.typ <= 6, self.ln >= 0)

    # -- helpers
    def is_types(self, *ts):
        return Or(*[self.typ == t for t in ts])

    def child(self, key):
        if key not in self.items:
            if key not in self._lazy:
                self._lazy[key] = (fresh_bool('has_%s' % key),
                                   JVal('%s.%s' % (self.name, key)))
            p, proto = self._lazy[key]
            from .engine import _clone
            self.items[key] = [p, proto.py_clone({}, _clone)]
        return self.items[key]

    def string(self, st):
        if self.sval is None:
            self.sval = fresh_seq('str', self.name + '_s', st.assume)
            if '.urls' not in self.name:
                # text supplied by the proofreader (rule URLs, used as href
                # with --link only, are not among the texts the HTML
                # property C16 speaks about: see DESIGN)
                self.sval.tag = 'raw'
        return self.sval

    # -- protocol used by the engine
    def py_isinstance(self, ex, st, classes):
        from .engine import Builtin, TypeOf
        res = []
        for c in classes:
            if isinstance(c, Builtin) and c.name in _TYPE_OF_BUILTIN:
                res.append(self.is_types(*_TYPE_OF_BUILTIN[c.name]))
            elif isinstance(c, TypeOf):
                for nm, ts in _TYPE_OF_BUILTIN.items():
                    res.append(And(zint(c.tag) == ex.class_tags[nm],
                                   self.is_types(*ts)))
            else:
                res.append(False)
        return Or(*res)

    def py_truth(self, ex, st):
        if not hasattr(self, '_truth'):
            self._truth = fresh_bool(self.name + '_truthy')
            st.assume(Implies(self.typ == T_NONE, Not(self._truth)))
            st.assume(Implies(self.is_types(T_INT, T_BOOL),
                              self._truth == (self.ival != 0)))
            st.assume(Implies(self.is_types(T_LIST, T_DICT, T_STR),
                              self._truth == (self.ln > 0)))
        return self._truth

    def py_index(self, ex, st, i, line):
        if isinstance(i, str):
            p, ch = self.child(i)
            ex.prove(st, 'json-safe:key[%s]@%d' % (i, line),
                     And(self.typ == T_DICT, p), line)
            return ch
        if sym.is_int(i):
            ex.prove(st, 'json-safe:index@%d' % line,
                     And(self.typ == T_LIST, zint(i) >= -self.ln,
                         zint(i) < self.ln), line)
            return self.element(st)
        raise Unsupported('json subscript %r' % (i,))

    def element(self, st):
        e = JVal(self.name + '[]')
        st.assume(e.constraints())
        return e

    def py_setitem(self, ex, st, k, v, line):
        ex.prove(st, 'json-safe:store[%s]@%d' % (k, line),
                 self.typ == T_DICT, line)
        if not isinstance(k, str):
            raise Unsupported('json store key %r' % (k,))
        self.items[k] = [True, v]

    def py_contains(self, ex, st, x, line):
        ex.prove(st, 'json-safe:in@%d' % line,
                 self.is_types(T_DICT, T_LIST, T_STR), line)
        if isinstance(x, str):
            return self.child(x)[0]
        return fresh_bool('member')

    def py_int(self, ex, st, line, what='arith'):
        """use as a number"""
        ex.prove(st, 'json-safe:%s@%d' % (what, line),
                 self.is_types(T_INT, T_BOOL), line)
        return self.ival

    def py_str(self, ex, st, line):
        ex.prove(st, 'json-safe:str@%d' % line, self.typ == T_STR, line)
        return self.string(st)

    def py_iter(self, ex, st, line):
        ex.prove(st, 'json-safe:iter@%d' % line, self.typ == T_LIST, line)
        me = self

        def mk(s1):
            return me.element(s1)
        return TokList([Many(self.ln, mk, False, 'json-list')])

    def py_method(self, ex, st, name, args, line):
        if name == 'get':
            ex.prove(st, 'json-safe:get@%d' % line, self.typ == T_DICT,
                     line)
            k = args[0]
            if not isinstance(k, str):
                raise Unsupported('json get key %r' % (k,))
            p, ch = self.child(k)
            if isinstance(ch, JVal):
                # absent -> None
                r = JVal(self.name + '.get.' + k)
                st.assume(r.constraints())
                st.assume(Implies(Not(zbool(p)), r.typ == T_NONE))
                st.assume(Implies(zbool(p), And(r.typ == ch.typ,
                                                r.ival == ch.ival,
                                                r.ln == ch.ln)))
                r.alias_of = ch
                r.items = ch.items
                return r
            return ch
        raise Unsupported('json method %s' % name)


def unwrap_num(ex, st, v, line):
    if isinstance(v, JVal):
        return v.py_int(ex, st, line)
    return v
