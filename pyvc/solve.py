"""Discharging obligations: z3 (python API) first, then the external solvers
on an SMT-LIB2 dump when z3 answers `unknown`.

 unsat  -> discharged          sat -> counter-model (violation candidate)
 unknown everywhere -> UNDECIDED (never reported as a violation)
Canaries (`goal False`) are expected to be sat/unknown; an unsat canary means
a contradictory contract (vacuity) and breaks the check."""
import os
import subprocess
import tempfile
import time
import z3
from . import sym

TIMEOUT_MS = int(os.environ.get('PYVC_TIMEOUT_MS', '15000'))
EXT_TIMEOUT_S = int(os.environ.get('PYVC_EXT_TIMEOUT_S', '10'))
RETRY_MS = int(os.environ.get('PYVC_RETRY_MS', '5000'))


def _mentions(fs, names):
    txt = None
    for f in fs:
        s = f.sexpr() if hasattr(f, 'sexpr') else ''
        for n in names:
            if n in s:
                return True
    return False


def build_solver(ob, timeout_ms=None):
    s = z3.Solver()
    s.set(timeout=timeout_ms or TIMEOUT_MS)
    fs = [sym.zbool(p) for p in ob.pc]
    goal = sym.zbool(ob.goal)
    s.add(*fs)
    s.add(z3.Not(goal))
    allf = fs + [goal]
    if _mentions(allf, ('isspace_c', 'isalpha_c', 'isdecimal_c',
                        'digit_val')):
        for ax in sym.CHAR_AXIOMS:
            s.add(ax)
    return s


def _external(smt2, cmd, timeout):
    with tempfile.NamedTemporaryFile('w', suffix='.smt2', delete=False) as f:
        f.write(smt2)
        path = f.name
    try:
        p = subprocess.run(cmd + [path], capture_output=True, text=True,
                           timeout=timeout)
        out = p.stdout.strip().splitlines()
        ans = out[0].strip() if out else 'unknown'
        if ans not in ('sat', 'unsat', 'unknown'):
            ans = 'unknown'
        return ans
    except (subprocess.TimeoutExpired, OSError):
        return 'unknown'
    finally:
        try:
            os.unlink(path)
        except OSError:
            pass


def _watchdog_check(s, seconds):
    """s.check() with a hard wall-clock limit (z3 does not always honour its
    own timeout while building models for quantified formulas)"""
    import signal

    def on_alarm(signum, frame):
        z3.main_ctx().interrupt()
    old = signal.signal(signal.SIGALRM, on_alarm)
    signal.alarm(int(seconds))
    try:
        try:
            return s.check()
        except z3.Z3Exception:
            return z3.unknown
    finally:
        signal.alarm(0)
        signal.signal(signal.SIGALRM, old)


def solve_isolated(ob, second_opinion=False, on_sat=None):
    """solve in a forked child with a hard deadline (z3 does not always
    honour its timeout or interrupts); the child also runs `on_sat(ob)`
    (counterexample replay) while the model is alive.  Returns a dict."""
    import json
    import select
    t0 = time.time()
    deadline = (8 if ob.kind == 'canary' else
                3 * TIMEOUT_MS / 1000 + 2 * EXT_TIMEOUT_S + 30)
    r, w = os.pipe()
    pid = os.fork()
    if pid == 0:
        os.close(r)
        out = {'status': 'unknown', 'backend': 'z3', 'extra': None}
        try:
            solve(ob, second_opinion=second_opinion)
            out['status'] = ob.status
            out['backend'] = ob.backend
            out['second'] = getattr(ob, 'second', None)
            if ob.status == 'sat' and ob.kind == 'proof':
                out['model'] = model_to_dict(ob.model)
                if on_sat is not None:
                    try:
                        out['extra'] = on_sat(ob)
                    except Exception as e:
                        import traceback
                        out['extra'] = {'status': 'no-replay',
                                        'why': repr(e)[:300],
                                        'trace': traceback.format_exc()[-1500:]}
        except BaseException as e:         # noqa
            out['error'] = repr(e)[:300]
        try:
            os.write(w, json.dumps(out, default=str).encode())
        finally:
            os._exit(0)
    os.close(w)
    buf = b''
    end = time.time() + deadline
    while True:
        left = end - time.time()
        if left <= 0:
            break
        rd, _, _ = select.select([r], [], [], left)
        if not rd:
            break
        chunk = os.read(r, 65536)
        if not chunk:
            break
        buf += chunk
    os.close(r)
    try:
        os.kill(pid, 9)
    except OSError:
        pass
    os.waitpid(pid, 0)
    res = {'status': 'unknown', 'backend': 'z3(killed after %ds)' % deadline}
    if buf:
        try:
            res = json.loads(buf.decode())
        except ValueError:
            pass
    res['time'] = time.time() - t0
    return res


def _int_consts(fs):
    seen, out, todo = set(), {}, list(fs)
    while todo:
        e = todo.pop()
        i = e.get_id()
        if i in seen:
            continue
        seen.add(i)
        if z3.is_const(e) and e.decl().kind() == z3.Z3_OP_UNINTERPRETED \
                and z3.is_int(e):
            out[e.decl().name()] = e
        elif z3.is_quantifier(e):
            todo.append(e.body())
        else:
            todo.extend(e.children())
    return out


def _small_model(ob):
    """counterexamples are replayed on the real code: look for a model
    with short strings / lists and small integers (the first model z3 finds
    often has lengths in the ten thousands, which cannot be concretised)"""
    try:
        consts = _int_consts([sym.zbool(p) for p in ob.pc] +
                             [sym.zbool(ob.goal)])
    except Exception:      # noqa
        return None
    for bound in (12, 48):
        s = build_solver(ob, 4000)
        for name, c in consts.items():
            if '_len' in name or name.startswith('len'):
                s.add(c >= 0, c <= bound)
            else:
                s.add(c >= -bound, c <= 4 * bound)
        if _watchdog_check(s, 6) == z3.sat:
            try:
                return s.model()
            except z3.Z3Exception:
                return None
    return None


def solve(ob, want_model=True, second_opinion=False):
    t0 = time.time()
    if ob.kind == 'canary':
        # only `unsat` matters (vacuity); no model construction effort
        s = build_solver(ob, 3000)
        s.set('smt.mbqi', False)
        r = _watchdog_check(s, 6)
        ob.backend = 'z3-%s(api)' % z3.get_version_string()
        ob.status = 'unsat' if r == z3.unsat else (
            'sat' if r == z3.sat else 'unknown')
        ob.time = time.time() - t0
        return ob.status
    s = build_solver(ob)
    r = _watchdog_check(s, TIMEOUT_MS / 1000 + 5)
    ob.backend = 'z3-%s(api)' % z3.get_version_string()
    if r == z3.unsat:
        ob.status = 'unsat'
    elif r == z3.sat:
        ob.status = 'sat'
        if want_model:
            try:
                ob.model = s.model()
            except z3.Z3Exception:
                ob.model = None
            small = _small_model(ob)
            if small is not None:
                ob.model = small
    else:
        ob.status = 'unknown'
        ob.reason = s.reason_unknown()
        # second try: different random seed / no mbqi
        for opts in ({'smt.random_seed': 7}, {'smt.mbqi': False}):
            s2 = build_solver(ob, RETRY_MS)
            for k, v in opts.items():
                s2.set(k, v)
            r2 = _watchdog_check(s2, RETRY_MS / 1000 + 5)
            if r2 == z3.unsat:
                ob.status = 'unsat'
                ob.backend += '+retry%s' % (list(opts)[0],)
                break
            if r2 == z3.sat:
                ob.status = 'sat'
                ob.model = s2.model()
                break
        if ob.status == 'unknown':
            smt2 = '(set-logic ALL)\n' + s.to_smt2()
            for name, cmd in (
                    ('z3-4.8.12', ['/usr/bin/z3', '-T:%d' % EXT_TIMEOUT_S]),
                    ('cvc5-1.0.3', ['/usr/bin/cvc5',
                                    '--tlimit=%d' % (EXT_TIMEOUT_S * 1000)])):
                if not os.path.exists(cmd[0]):
                    continue
                a = _external(smt2, cmd, EXT_TIMEOUT_S + 5)
                if a in ('sat', 'unsat'):
                    ob.status = a
                    ob.backend = name
                    break
    if second_opinion and ob.status == 'unsat' and ob.kind == 'proof':
        smt2 = '(set-logic ALL)\n' + s.to_smt2()
        a = _external(smt2, ['/usr/bin/z3', '-T:%d' % EXT_TIMEOUT_S],
                      EXT_TIMEOUT_S + 5)
        ob.second = ('z3-4.8.12', a)
    ob.time = time.time() - t0
    return ob.status


def model_to_dict(m, limit=60):
    out = {}
    if m is None:
        return out
    for d in m.decls()[:limit]:
        try:
            v = m[d]
            out[d.name()] = str(v)[:200]
        except z3.Z3Exception:
            pass
    return out


def model_eval_int(m, t, default=0):
    try:
        v = m.eval(sym.zint(t), model_completion=True)
        return v.as_long()
    except Exception:
        return default


def model_eval_bool(m, t, default=False):
    if isinstance(t, bool):
        return t
    try:
        v = m.eval(t, model_completion=True)
        return z3.is_true(v)
    except Exception:
        return default


def model_eval_seq(m, s, maxlen=400):
    """concretise an SSeq under a model -> python str / list"""
    if isinstance(s, str):
        return s
    n = model_eval_int(m, s.ln)
    n = max(0, min(n, maxlen))
    vals = [model_eval_int(m, s.at(k)) for k in range(n)]
    if s.kind == 'str':
        return ''.join(chr(v) if 0 <= v < 0x110000 and not
                       (0xD800 <= v < 0xE000) else '?' for v in vals)
    return vals
