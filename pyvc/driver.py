"""Property check driver.

   python -m pyvc.driver <ID> [--tier quick|thorough]

exit 0  all obligations of the property discharged (KNOWN-FINDING lines
        allowed)
exit 1  at least one obligation has a counter-model that is not a listed
        known finding: one line `VIOLATION property=<id> replay=<file>` each
exit 2  undecided (solver unknown / unsupported construct); never a VIOLATION
exit 3  engine failure / vacuous contract / broken check
"""
import argparse
import importlib
import json
import os
import re
import sys
import time
import traceback

HERE = os.path.dirname(os.path.dirname(os.path.abspath(__file__)))
if HERE not in sys.path:
    sys.path.insert(0, HERE)

from pyvc import run  # noqa: E402


def norm(name):
    """obligation name without line numbers and path traces"""
    return re.sub(r'#\d+$', '', re.sub(r'@[^:#]*', '', name))


def load_known():
    p = os.path.join(HERE, 'KNOWN_FINDINGS.json')
    if not os.path.exists(p):
        return {'open': [], 'fixed': []}
    return json.load(open(p))


def main(argv=None):
    ap = argparse.ArgumentParser()
    ap.add_argument('pid')
    ap.add_argument('--tier', default=os.environ.get('VERIF_TIER', 'quick'))
    ap.add_argument('--verbose', action='store_true')
    a = ap.parse_args(argv)
    tier = a.tier if a.tier in ('quick', 'thorough') else 'quick'
    seed = int(os.environ.get('VERIF_SEED', '0') or 0)
    pid = a.pid
    t0 = time.time()
    prop = importlib.import_module('props.' + pid)
    os.environ['PYVC_FOCUS'] = getattr(prop, 'FOCUS', 'all')
    from pyvc import front
    evid_dir = os.environ.get('PYVC_EVIDENCE_DIR') or os.path.join(
        HERE, 'evidence')
    os.makedirs(evid_dir, exist_ok=True)
    rep_dir = os.path.join(os.environ.get(
        'PYVC_REPLAY_DIR', os.path.join(HERE, 'replays')), pid)
    os.makedirs(rep_dir, exist_ok=True)
    for f in os.listdir(rep_dir):
        os.unlink(os.path.join(rep_dir, f))

    opts = {'second': tier == 'thorough',
            'select': getattr(prop, 'SELECT', None)}
    # development aid (false-alarm triage of a patch): only these functions
    only = os.environ.get('PYVC_ONLY_FUNCS')
    only = set(only.split(',')) if only else None

    def pick(fs):
        if only is None:
            return fs
        return [f for f in fs if f.split('#')[0] in only or any(
            f.startswith(o + '.') for o in only)]
    results = run.verify_many(pick(prop.FUNCS), prop.MODS, opts) \
        if pick(prop.FUNCS) else []
    # further groups of functions verified against another set of contract
    # modules (hook tables of different abstractions do not mix)
    for funcs2, mods2 in getattr(prop, 'MORE', []):
        if pick(funcs2):
            results += run.verify_many(pick(funcs2), mods2, opts)

    known = [k for k in load_known().get('open', [])
             if pid in k.get('properties', [k.get('property')])]
    # a listed finding suppresses its obligation only while its witness
    # input still fails on the tree under check
    known = [k for k in known if witness_fails(k)]
    n_obl = n_dis = n_canary = 0
    by_backend = {}
    solver_time = 0.0
    violations = []
    undecided = []
    broken = []
    samples = []
    known_hit = []
    inlined = set()
    used_assumptions = set()
    canary_groups = {}
    second_total = second_agree = 0
    assumed = set()
    funcs_ok = []
    imp_path = os.path.join(HERE, 'contracts', 'refimprecise.json')
    try:
        imp_base = json.load(open(imp_path))
    except OSError:
        imp_base = {}
    if os.environ.get('PYVC_WRITE_BASELINE'):
        # tools/mkbaseline.sh: record what is over-approximated on the tree
        # the contracts were written against
        for r in results:
            if r.get('imprecise'):
                imp_base[r['function']] = sorted(set(
                    imp_base.get(r['function'], [])) | set(r['imprecise']))
        json.dump(imp_base, open(imp_path, 'w'), indent=0, sort_keys=True)
    for r in results:
        if r['error']:
            broken.append('%s: engine error\n%s' % (r['function'],
                                                    r['error']))
            continue
        if r['unsupported']:
            undecided.append('%s: unsupported: %s' % (r['function'],
                                                      r['unsupported']))
            continue
        inlined.update(r['inlined'])
        assumed.update(r['assumed'])
        used_assumptions.update(r.get('used_assumptions', []))
        nproof = 0
        nany = 0
        for o in r['obligations']:
            solver_time += o['time']
            if o['kind'] == 'canary':
                # vacuity guard: of the canaries of one program point (several
                # paths reach it) at least one must be satisfiable
                grp = re.sub(r'#\d+$', '', o['name'])
                canary_groups.setdefault(grp, []).append(o['status'])
                continue
            nany += 1
            if o['kind'] == 'skipped':
                continue
            want = getattr(prop, 'SELECT', None)
            if want is not None and not want(o['name']):
                continue
            nproof += 1
            if o['status'] == 'sat' and match_known(known, o) is not None:
                known_hit.append((match_known(known, o), o))
                continue
            n_obl += 1
            if o.get('second'):
                second_total += 1
                if o['second'][1] == 'sat' and o['status'] == 'unsat':
                    broken.append('solver disagreement on %s: %s says sat' %
                                  (o['name'], o['second'][0]))
                elif o['second'][1] == 'unsat':
                    second_agree += 1
            if o['status'] == 'unsat':
                n_dis += 1
                by_backend[o['backend']] = by_backend.get(o['backend'],
                                                          0) + 1
                if len(samples) < 6 and (n_obl % 7 == 1):
                    samples.append({'obligation': o['name'],
                                    'status': 'unsat',
                                    'backend': o['backend'],
                                    'seconds': o['time']})
            elif o['status'] == 'sat':
                newimp = sorted((set(r.get('imprecise') or []) - set(
                    imp_base.get(r['function'], []))) & set(
                        o.get('hangs_on', r.get('imprecise') or [])))
                if newimp and not o.get('const_false') and (
                        o.get('replay') or {}).get('status') != 'reproduced':
                    # the function now contains a construct the generator
                    # only over-approximates (a loop its contract has no
                    # invariant for, a string method modelled by an
                    # unconstrained value, ...) which it did not contain in
                    # the tree the contracts were written against: a failed
                    # obligation then means "needs a contract", not
                    # "property broken" -- unless the counter-model replays
                    # on the real code, or the clause is plain False (then
                    # its failure does not hang on a symbolic value)
                    undecided.append(
                        '%s: not provable, the code now uses %s (over-'
                        'approximated); no failing input found' % (
                            o['name'], ', '.join(newimp)))
                else:
                    violations.append(o)
            else:
                undecided.append('%s: solver unknown' % o['name'])
        if nany == 0:
            broken.append('%s: zero obligations generated' % r['function'])
        funcs_ok.append(r['function'])
        if os.environ.get('PYVC_TRACE_DEFAULT') and r.get('default_loops'):
            print('DEFAULT-LOOPS', r['function'], r['default_loops'])

    for grp, sts in canary_groups.items():
        n_canary += 1
        if all(x == 'unsat' for x in sts):
            broken.append('vacuous contract: canary %s is unreachable on '
                          'every path' % grp)
    # lemmas decided by evaluating the real tables / code (finite)
    lemma_results = []
    # what the deductive run covered (lemmas may depend on it: a frame lemma
    # accepts a store inside a function whose body was executed symbolically)
    prop.RUN_INFO = {'verified': list(funcs_ok), 'inlined': sorted(inlined)}
    def _lemmas():
        # a lemma that cannot be evaluated on this tree (the code it looks
        # at is gone or raises) is undecided, the check does not crash
        try:
            yield from prop.lemmas()
        except Exception as e:      # noqa
            yield ('lemmas-could-not-be-evaluated', None,
                   '%r\n%s' % (e, traceback.format_exc()[-800:]), False)
    if hasattr(prop, 'lemmas'):
        for item in _lemmas():
            name, ok, detail = item[:3]
            observed = item[3] if len(item) > 3 else getattr(
                prop, 'LEMMAS_ARE_OBSERVATIONS', True)
            n_obl += 1
            if ok is None:
                # the lemma could not be decided for this shape of the code:
                # undecided (exit 2), never a violation
                lemma_results.append({'lemma': name, 'holds': None,
                                      'detail': detail})
                undecided.append('lemma %s: %s' % (name, detail))
                continue
            lemma_results.append({'lemma': name, 'holds': bool(ok),
                                  'detail': detail})
            if ok:
                n_dis += 1
                by_backend['evaluation'] = by_backend.get('evaluation',
                                                          0) + 1
            else:
                violations.append({'name': pid + ':lemma:' + name,
                                   'backend': 'evaluation / frame checker',
                                   'model': {}, 'replay': {
                                       'status': 'reproduced' if observed
                                       else 'not-replayed',
                                       'observed': detail}})

    bounded = []
    # bounded stand-ins cheap enough for the quick tier (prop.QUICK_BOUNDED:
    # list of fn(seed) -> dict as in props/bounded.py): reported under
    # bounded_stand_ins, never counted among the discharged obligations
    for f in getattr(prop, 'QUICK_BOUNDED', []):
        if os.environ.get('PYVC_NO_BOUNDED'):
            break
        # watchdog: a stand-in normally takes seconds to a minute; real code
        # that hangs under it must not hang the check
        import signal

        class _Slow(Exception):
            pass

        def _alarm(sig, frm):
            raise _Slow()
        guard = 'termination' not in f.__name__     # has its own alarms
        if guard:
            old_h = signal.signal(signal.SIGALRM, _alarm)
            signal.alarm(int(os.environ.get('PYVC_STANDIN_LIMIT', '1200')))
        try:
            try:
                b = f(seed)
            finally:
                if guard:
                    signal.alarm(0)
                    signal.signal(signal.SIGALRM, old_h)
        except _Slow:
            undecided.append('bounded stand-in %s did not finish within the '
                             'time limit (slow machine, or the real code '
                             'hangs on one of its inputs)' % f.__name__)
            continue
        except (NameError, AttributeError, ImportError) as e:
            # the harness of the stand-in does not fit the code any more
            # (a global it sets is gone, a function was moved): undecided
            undecided.append('bounded stand-in %s does not fit the code: '
                             '%r' % (f.__name__, e))
            continue
        except TypeError as e:
            if 'argument' in str(e):
                undecided.append('bounded stand-in %s does not fit the '
                                 'code: %r' % (f.__name__, e))
                continue
            b = {'name': f.__name__, 'bounded': True, 'bound': 'aborted',
                 'evaluations': 0, 'failures': [{
                     'why': 'the real code raised %r' % (e,),
                     'trace': traceback.format_exc()[-1500:]}]}
        except Exception as e:      # noqa
            # an exception that escapes the real code under the stand-in
            # (the harness passes on the tree the contracts were written
            # against)
            b = {'name': f.__name__, 'bounded': True, 'bound': 'aborted',
                 'evaluations': 0, 'failures': [{
                     'why': 'the real code raised %r' % (e,),
                     'trace': traceback.format_exc()[-1500:]}]}
        bounded.append(b)
        for fl in (b.get('failures') or [])[:3]:
            violations.append({'name': pid + ':bounded:' + b['name'],
                               'model': {}, 'replay': {
                                   'status': 'reproduced', 'input': fl}})
    mutant_report = []
    if tier == 'thorough' and not os.environ.get('PYVC_NO_MUTANTS'):
        mutant_report = run_mutants(pid)
        for mr in mutant_report:
            if not mr['killed']:
                # a surviving mutant weakens the claim; it is reported, it
                # does not make the unchanged tree a violation
                print('MUTANT-SURVIVED property=%s %s' % (pid, mr['change']))
    bfuncs = []
    if tier == 'thorough':
        try:
            from props import bounded as _b
            bfuncs = _b.BOUNDED.get(pid, [])
        except ImportError:
            bfuncs = []
    if bfuncs:
        for b in [f(seed) for f in bfuncs]:
            bounded.append(b)
            if b.get('failures'):
                for f in b['failures'][:3]:
                    violations.append({'name': pid + ':bounded:' + b['name'],
                                       'model': {}, 'replay': {
                                           'status': 'reproduced',
                                           'input': f}})

    # ---- report
    code = 0
    seen_known = set()
    for k, o in known_hit:
        if k['id'] in seen_known:
            continue
        seen_known.add(k['id'])
        print('KNOWN-FINDING: property=%s %s' % (pid, k['what']))
    stale = [k for k in known if k['id'] not in seen_known]
    # one line per obligation: the same clause failing on several paths of
    # a function is one violation (a replayed one is preferred)
    grouped = {}
    for o in violations:
        k = norm(o['name'])
        rp0 = (o.get('replay') or {}).get('status') == 'reproduced'
        if k not in grouped:
            grouped[k] = [o, 1]
        else:
            grouped[k][1] += 1
            if rp0 and (grouped[k][0].get('replay') or {}).get(
                    'status') != 'reproduced':
                grouped[k][0] = o
    n_paths = len(violations)
    violations = []
    for o, cnt in grouped.values():
        if cnt > 1:
            o = dict(o)
            o['paths'] = cnt
        violations.append(o)
    for i, o in enumerate(violations):
        rp = o.get('replay') or {'status': 'no-replay'}
        path = os.path.join(rep_dir, 'v%02d.json' % i)
        with open(path, 'w') as f:
            json.dump({'property': pid, 'obligation': o['name'],
                       'failing_paths': o.get('paths', 1),
                       'verifier': o.get('backend'),
                       'counter_model': o.get('model'),
                       'replay': rp,
                       'how_to_rerun': './check %s --tier %s' % (pid, tier)},
                      f, indent=1, default=str)
        tail = '' if rp.get('status') == 'reproduced' \
            else ' no-failing-input-found'
        print('VIOLATION property=%s replay=%s obligation=%s%s' % (
            pid, path, o['name'], tail))
        code = 1
    for u in undecided:
        print('UNDECIDED property=%s %s' % (pid, u))
    for b in broken:
        print('BROKEN property=%s %s' % (pid, b))
    if code == 0 and undecided:
        code = 2
    if broken and code == 0:
        code = 3

    wall = time.time() - t0
    known_count = len(set(id(o) for _, o in known_hit))
    ev = {
        'property_id': pid, 'tier': tier, 'seed': seed, 'level': 'proof',
        'wall_s': round(wall, 2), 'violations': len(violations),
        'coverage': {
            'obligations': n_obl,
            'discharged': n_dis,
            'known_finding_obligations': known_count,
            'checker_cmd': 'python3-vt -m pyvc.driver %s --tier %s' % (pid,
                                                                      tier),
            'trusted_base': getattr(prop, 'TRUSTED', []) + [
                'pyvc VC generator (this repository, /verif/pyvc)',
                'extraction: the functions are read from the tree under '
                'check with ast on every run; dropped: comments and '
                'docstrings; local names of a function that differs from '
                'the tree the contracts were written against only by a '
                'renaming are alpha-converted back (pyvc/alpha.py, the '
                'conversion is checked to preserve the binding structure); '
                'functions renamed in this run: %s' % (
                    [q for q, _ in front.repo().renamed] or 'none'),
                'z3 %s' % _z3v()],
            'functions_under_contract': funcs_ok,
            'callee_contracts_assumed_at_call_sites': sorted(assumed),
            'helpers_inlined_from_real_body': sorted(inlined),
            'by_backend': by_backend,
            'canaries_reachable': n_canary,
            'solver_seconds': round(solver_time, 2),
            'second_opinion_z3_4_8_12': {'rechecked': second_total,
                                         'also_unsat': second_agree},
            'samples': samples or [{'note': 'no discharged sample'}],
            'lemmas_by_evaluation': lemma_results,
            'bounded_stand_ins': bounded,
            'mutation_self_test': mutant_report,
            'repo': front.REPO,
            'undecided': undecided, 'broken': broken,
            'stale_known_findings': [k['id'] for k in stale],
        },
        'assumptions': getattr(prop, 'ASSUMPTIONS', []) +
        sorted(used_assumptions),
    }
    with open(os.path.join(evid_dir, pid + '.json'), 'w') as f:
        json.dump(ev, f, indent=1, default=str)
    print('%s tier=%s obligations=%d discharged=%d known=%d violations=%d '
          'undecided=%d wall=%.1fs exit=%d' % (
              pid, tier, n_obl, n_dis, known_count, len(violations),
              len(undecided), wall, code))
    return code


def witness_fails(k):
    w = k.get('witness')
    if not w:
        return True
    try:
        from pyvc import replay
        if w['kind'] == 'tex2txt-substring':
            import contextlib
            import io
            t2t = replay.real_module('yalafi.tex2txt')
            with contextlib.redirect_stderr(io.StringIO()):
                txt, pos = t2t.tex2txt(w['latex'], t2t.Options())
            return w['substring'] in txt
        if w['kind'] == 'python':
            env = {}
            exec(w['code'], env)
            return bool(env['fails']())
    except Exception:
        return True
    return True


def run_mutants(pid):
    """thorough tier: every listed property-breaking change of this
    property must make the quick check exit 1 (scratch copy, removed)"""
    import shutil
    import subprocess
    import tempfile
    from props.mutants import MUTANTS
    from pyvc import front
    out = []
    for (p, rel, old, new) in MUTANTS:
        if p != pid:
            continue
        tmp = tempfile.mkdtemp(prefix='yalafi_mut_')
        try:
            shutil.copytree(os.path.join(front.REPO, 'yalafi'),
                            os.path.join(tmp, 'yalafi'))
            path = os.path.join(tmp, rel)
            src = open(path, newline='').read()
            o2, n2 = old, new
            if o2 not in src and o2.replace('\n', '\r\n') in src:
                o2, n2 = o2.replace('\n', '\r\n'), n2.replace('\n',
                                                                 '\r\n')
            if o2 not in src:
                out.append({'change': '%s: %r' % (rel, old[:50]),
                            'killed': False, 'note': 'pattern not found'})
                continue
            open(path, 'w', newline='').write(src.replace(o2, n2, 1))
            env = dict(os.environ, YALAFI_REPO=tmp, PYVC_NO_MUTANTS='1',
                       PYVC_EVIDENCE_DIR=os.path.join(tmp, 'ev'),
                       PYVC_REPLAY_DIR=os.path.join(tmp, 'rp'),
                       VERIF_TIER='quick')
            r = subprocess.run([os.path.join(HERE, 'check'), pid, '--tier',
                                'quick'], env=env, capture_output=True,
                               text=True)
            viol = [l for l in r.stdout.splitlines()
                    if l.startswith('VIOLATION')]
            out.append({'change': '%s: %r -> %r' % (rel, old[:40], new[:40]),
                        'killed': r.returncode == 1 and bool(viol),
                        'exit': r.returncode,
                        'first_violation': (viol[0].split('obligation=')[-1]
                                            [:160] if viol else None)})
        finally:
            shutil.rmtree(tmp, ignore_errors=True)
    # the seeded changes kept under /verif/seeded (written by sub-agents
    # that saw only the property text): the patch whose meta.json names this
    # property must be caught as well
    sd = os.path.join(HERE, 'seeded')
    for d in sorted(os.listdir(sd)) if os.path.isdir(sd) else []:
        mp = os.path.join(sd, d, 'meta.json')
        pp = os.path.join(sd, d, 'patch.diff')
        if not (os.path.exists(mp) and os.path.exists(pp)):
            continue
        meta = json.load(open(mp))
        if pid not in meta.get('detected_by', {}):
            continue
        tmp = tempfile.mkdtemp(prefix='yalafi_mut_')
        try:
            shutil.copytree(os.path.join(front.REPO, 'yalafi'),
                            os.path.join(tmp, 'yalafi'))
            a = subprocess.run(['git', 'apply', pp], cwd=tmp,
                               capture_output=True, text=True)
            if a.returncode != 0:
                out.append({'change': 'seeded/%s/patch.diff' % d,
                            'killed': False,
                            'note': 'patch does not apply: ' +
                            a.stderr[:120]})
                continue
            env = dict(os.environ, YALAFI_REPO=tmp, PYVC_NO_MUTANTS='1',
                       PYVC_EVIDENCE_DIR=os.path.join(tmp, 'ev'),
                       PYVC_REPLAY_DIR=os.path.join(tmp, 'rp'),
                       VERIF_TIER='quick')
            r = subprocess.run([os.path.join(HERE, 'check'), pid, '--tier',
                                'quick'], env=env, capture_output=True,
                               text=True)
            viol = [l for l in r.stdout.splitlines()
                    if l.startswith('VIOLATION')]
            out.append({'change': 'seeded/%s/patch.diff' % d,
                        'killed': r.returncode == 1 and bool(viol),
                        'exit': r.returncode,
                        'first_violation': (viol[0].split('obligation=')[-1]
                                            [:160] if viol else None)})
        finally:
            shutil.rmtree(tmp, ignore_errors=True)
    return out


def match_known(known, o):
    n = norm(o['name'])
    for k in known:
        if re.fullmatch(k['obligation'], n):
            return k
    return None


def _z3v():
    import z3
    return z3.get_version_string()


if __name__ == '__main__':
    sys.exit(main())
