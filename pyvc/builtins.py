"""Calls: builtins, str/list/dict methods, comprehensions, constructors,
contract application and inlining."""
import ast
import z3
from . import sym
from .sym import (SSeq, Obj, Opt, Opaque, TokList, Single, Many, Unsupported,
                  EngineError, And, Or, Not, Implies, Ite, zint, zbool,
                  is_int, is_bool, is_str, fresh_int, fresh_bool, fresh_seq,
                  lift_str, lift_ilist, forall, exists)
from .engine import (FuncRef, ClassRef, ModuleRef, Builtin, GenExp, LambdaRef,
                     TypeOf, OptVal, StrSet, PyDict, Signal, State,
                     GuardedState, merge_pair, merge_values)

A, I, B = sym.A, sym.I, sym.B

# uninterpreted string functions (same argument -> same result)
strip_ln = z3.Function('strip_ln', A, I, I)
strip_off = z3.Function('strip_off', A, I, I)
split_n = z3.Function('split_n', A, I, I)
count_f = z3.Function('count_f', A, I, I, I, I)     # arr, char, lo, hi
upper_c = z3.Function('upper_c', I, I)
lower_c = z3.Function('lower_c', I, I)
islower_c = z3.Function('islower_c', I, B)
isalnum_c = z3.Function('isalnum_c', I, B)
enc_len = z3.Function('enc_len', A, I, I)            # utf-8 length
# number of UTF-8 bytes of the first i code points of a text
enc_prefix = z3.Function('enc_prefix', A, I, I)
str_of_int_len = z3.Function('str_of_int_len', I, I)


def call(ex, node, st, fi):
    f = node.func
    # super().__init__(...)
    if isinstance(f, ast.Attribute) and isinstance(f.value, ast.Call) and \
            isinstance(f.value.func, ast.Name) and \
            f.value.func.id == 'super':
        yield from call_super(ex, node, st, fi)
        return
    for st1, fv in ex.ev(f, st, fi):
        yield from eval_args(ex, node, st1, fi, fv)


def eval_args(ex, node, st, fi, fv):
    def rec(i, st, acc):
        if i == len(node.args):
            yield from reck(0, st, acc, {})
            return
        a = node.args[i]
        if isinstance(a, ast.GeneratorExp):
            yield from rec(i + 1, st, acc + [GenExp(a, st)])
            return
        if isinstance(a, ast.Starred):
            for st1, v in ex.ev(a.value, st, fi):
                if not isinstance(v, tuple):
                    raise Unsupported('*args of non-tuple at %d' %
                                      node.lineno)
                yield from rec(i + 1, st1, acc + list(v))
            return
        for st1, v in ex.ev(a, st, fi):
            yield from rec(i + 1, st1, acc + [v])

    def reck(i, st, acc, kw):
        if i == len(node.keywords):
            yield from dispatch(ex, node, st, fi, fv, acc, kw)
            return
        k = node.keywords[i]
        if k.arg is None:
            raise Unsupported('**kwargs at %d' % node.lineno)
        if isinstance(k.value, ast.Lambda):
            nk = dict(kw)
            nk[k.arg] = LambdaRef(k.value, st.env)
            yield from reck(i + 1, st, acc, nk)
            return
        for st1, v in ex.ev(k.value, st, fi):
            nk = dict(kw)
            nk[k.arg] = v
            yield from reck(i + 1, st1, acc, nk)
    yield from rec(0, st, [])


def dispatch(ex, node, st, fi, fv, args, kw):
    line = node.lineno
    if isinstance(fv, Builtin):
        h = BUILTIN.get(fv.name)
        if h is None:
            raise Unsupported('builtin %s at %d' % (fv.name, line))
        yield from h(ex, st, fi, args, kw, line)
        return
    if isinstance(fv, tuple) and len(fv) == 3 and fv[0] == '$method':
        yield from method(ex, st, fi, fv[1], fv[2], args, kw, line, node)
        return
    if isinstance(fv, FuncRef):
        yield from call_func(ex, st, fi, fv, args, kw, line)
        return
    if isinstance(fv, ClassRef):
        yield from construct(ex, st, fi, fv.qual, args, kw, line)
        return
    if isinstance(fv, LambdaRef):
        yield from inline_lambda(ex, st, fi, fv, args, kw, line)
        return
    if isinstance(fv, Opaque) and fv.tag.startswith('extern:'):
        name = fv.tag[len('extern:'):]
        h = ex.contracts.externs.get(name)
        if h is None:
            raise Unsupported('external call %s at %s:%d' % (name, fi.qual,
                                                              line))
        yield from h(ex, st, fi, args, kw, line)
        return
    hook = ex.contracts.call_value
    if hook:
        r = hook(ex, st, fi, fv, args, kw, line)
        if r is not NotImplemented:
            yield from r
            return
    raise Unsupported('call of %r at %s:%d' % (fv, fi.qual, line))


# ---------------------------------------------------------------- functions

def bind_params(ex, st, finfo, args, kw, line, bound=None):
    a = finfo.node.args
    if a.vararg or a.kwarg or a.kwonlyargs or a.posonlyargs:
        raise Unsupported('signature of ' + finfo.qual)
    names = [p.arg for p in a.args]
    vals = {}
    pos = list(args)
    if bound is not None:
        pos = [bound] + pos
    if len(pos) > len(names):
        raise Unsupported('too many arguments for %s at %d' % (finfo.qual,
                                                                line))
    for n, v in zip(names, pos):
        vals[n] = v
    alias = getattr(finfo.node, '_param_alias', None)
    if alias:
        kw = {alias.get(k, k): v for k, v in kw.items()}
    for k, v in kw.items():
        if k not in names or k in vals:
            raise Unsupported('bad keyword %s for %s' % (k, finfo.qual))
        vals[k] = v
    nd = len(a.defaults)
    for i, n in enumerate(names):
        if n in vals:
            continue
        di = i - (len(names) - nd)
        if di < 0:
            raise Unsupported('missing argument %s for %s at %d' % (
                n, finfo.qual, line))
        d = a.defaults[di]
        vals[n] = default_value(ex, st, finfo, d)
    return vals


def default_value(ex, st, finfo, d):
    if isinstance(d, ast.Constant):
        return d.value
    if isinstance(d, ast.List) and not d.elts:
        return TokList([])
    if isinstance(d, ast.UnaryOp) and isinstance(d.op, ast.USub) and \
            isinstance(d.operand, ast.Constant):
        return -d.operand.value
    raise Unsupported('default value in ' + finfo.qual)


def call_func(ex, st, fi, fv, args, kw, line):
    q = fv.qual
    finfo = ex.repo.funcs.get(q)
    c = ex.contracts.get(q)
    rn = getattr(getattr(finfo, 'node', None), '_ref_name', None)
    if c is None and rn and '.<locals>.' in q:
        # nested function known to the contracts under its reference name
        q2 = q.rsplit('.', 1)[0] + '.' + rn
        if ex.contracts.get(q2) is not None:
            q, c = q2, ex.contracts.get(q2)
    if c is not None and not ex.contracts.force_inline(q, ex.cur_func):
        try:
            vals = bind_params(ex, st, finfo, args, kw, line, fv.bound)
        except Unsupported:
            if not c.no_return:
                raise
            vals = {k: None for k in c._params({})}
        ex.assumed_calls.add(q)
        yield from c.apply(ex, st, vals, line)
        return
    if finfo is None:
        raise Unsupported('unknown function %s at %d' % (q, line))
    if '<locals>' in q or ex.contracts.may_inline(q) or _loop_free(finfo):
        # helpers without a contract are executed from their real body when
        # they contain no loop (an extract-method refactoring must not turn
        # a check into "undecided"); recursion is cut by the depth guard
        yield from inline(ex, st, fi, finfo, args, kw, line, fv)
        return
    if _moved_loops(ex, finfo):
        # extract-method refactoring: a new helper whose loops are loops of
        # the function under verification in the reference tree (same
        # header) -- executed from its real body, the moved loops keep their
        # loop contracts
        yield from inline(ex, st, fi, finfo, args, kw, line, fv)
        return
    if _new_helper(ex, finfo):
        # a function the reference tree does not have (extract-method
        # refactoring), with loops that are not loops of the caller: it is
        # executed from its real body; its loops have no invariant (an
        # element-wise `for t in L: t.a = e` is executed as a map, any other
        # loop is cut with `true` and recorded as over-approximated)
        yield from inline(ex, st, fi, finfo, args, kw, line, fv)
        return
    raise Unsupported('call of %s (no contract, not inlinable) at %s:%d' % (
        q, fi.qual, line))


def _new_helper(ex, finfo):
    from . import alpha
    unit = finfo.qual.split('.<locals>.')[0]
    if unit in alpha.ref():
        return False
    for n in ast.walk(finfo.node):
        if isinstance(n, (ast.AsyncFor, ast.Yield, ast.YieldFrom, ast.Try)):
            return False
    return True


def _moved_loops(ex, finfo):
    """True iff `finfo` is a function the reference tree does not have, has
    no try / yield, and every loop of it has the header of a loop that the
    top-level function under verification had in the reference tree and
    that this function no longer has itself; the loops are then labelled
    with those ordinals and the loop contracts of that function apply"""
    import hashlib
    from . import alpha
    top = (ex.cur_func or '').split('#')[0]
    if '<locals>' in top or '<' in top.rsplit('.', 1)[-1]:
        return False
    if '<locals>' in finfo.qual or finfo.qual in alpha.ref():
        return False
    for n in ast.walk(finfo.node):
        if isinstance(n, (ast.AsyncFor, ast.Yield, ast.YieldFrom, ast.Try)):
            return False
    R = alpha.ref().get(top)
    tfi = ex.repo.funcs.get(top)
    ctop = ex.contracts.get(ex.cur_func) or ex.contracts.get(top)
    if R is None or tfi is None or ctop is None:
        return False
    done = getattr(finfo.node, '_moved', None)
    if done is not None:
        return done == top
    # reference loops of the function itself (owner: item 0)
    refloops = {}
    for it in R:
        if len(it) > 2 and it[2][0] == 0:
            refloops.setdefault(it[0], []).append(it[2][1])
    used = set()
    for k, ln in enumerate(tfi.loop_nodes()):
        o = getattr(ln, '_ref_ordinal', k) if hasattr(ln, '_ref_ordinal') \
            else k
        if o is not None:
            used.add(o)
    items = alpha.itemise(finfo.node)[0]
    plan = []
    for it in items:
        if it[2] is None:
            continue
        if it[2][0] != 0:
            return False            # loop inside a nested function
        h = hashlib.sha1(it[0].encode()).hexdigest()[:16]
        cand = [o for o in refloops.get(h, []) if o not in used]
        if not cand:
            return False
        used.add(cand[0])
        plan.append((it[2][2], cand[0]))
    if not plan:
        return False
    for node, o in plan:
        node._ref_ordinal = o
    finfo.node._moved = top
    lc = ex.contracts.get_loops(finfo.qual)
    for node, o in plan:
        if o in ctop.loops:
            lc.loops[o] = ctop.loops[o]
    return True


def _loop_free(finfo):
    for n in ast.walk(finfo.node):
        if isinstance(n, (ast.While, ast.For, ast.AsyncFor, ast.Yield,
                          ast.YieldFrom, ast.Try)):
            return False
    return True


def inline(ex, st, fi, finfo, args, kw, line, fv=None, self_obj=None):
    if ex.depth > 12:
        raise Unsupported('inline depth at ' + finfo.qual)
    bound = self_obj if self_obj is not None else (fv.bound if fv else None)
    vals = bind_params(ex, st, finfo, args, kw, line, bound)
    ex.inlined.add(finfo.qual)
    caller_env = st.env
    env = dict(vals)
    env['$caller'] = caller_env
    env['$fi'] = finfo
    env['$args'] = caller_env.get('$args')
    if fv is not None and fv.closure_env is not None:
        env['$closure'] = fv.closure_env
    st.env = env
    c = ex.contracts.get_loops(finfo.qual)
    ex.depth += 1
    try:
        outs = ex.exec_block(finfo.node.body, st, finfo, c)
    finally:
        ex.depth -= 1
    for st2, sig in outs:
        st2.env = st2.env['$caller']
        if sig is None:
            yield st2, None
        elif sig.kind == 'return':
            yield st2, sig.value
        elif sig.kind == 'raise':
            raise Unsupported('raise inside inlined ' + finfo.qual)
        else:
            raise EngineError('loop signal escaped ' + finfo.qual)


def inline_lambda(ex, st, fi, lam, args, kw, line):
    a = lam.node.args
    names = [p.arg for p in a.args]
    if len(args) != len(names) or kw:
        raise Unsupported('lambda arguments at %d' % line)
    caller_env = st.env
    env = dict(zip(names, args))
    env['$caller'] = caller_env
    env['$fi'] = caller_env['$fi']
    env['$closure'] = lam.env
    env['$args'] = caller_env.get('$args')
    st.env = env
    res = list(ex.ev(lam.node.body, st, caller_env['$fi']))
    for st2, v in res:
        st2.env = st2.env['$caller']
        yield st2, v


def construct(ex, st, fi, qual, args, kw, line):
    c = ex.contracts.get(qual)
    if c is not None:
        mi, cnode = ex.repo.classes[qual]
        init = ex.repo.find_method(qual, '__init__')
        vals = bind_params(ex, st, init, args, kw, line, bound=None) \
            if False else None
        yield from c.apply_ctor(ex, st, args, kw, line)
        return
    init = ex.repo.find_method(qual, '__init__')
    o = Obj(qual, {}, fresh=True)
    o.meta['alloc_line'] = line
    o.meta['alloc_func'] = ex.cur_func
    if init is None:
        yield st, o
        return
    key = '$new%d' % o.oid
    st.env[key] = o      # survives state cloning together with the caller env
    for st2, _ in inline(ex, st, fi, init, args, kw, line, self_obj=o):
        o2 = st2.env.pop(key)
        hook = ex.contracts.after_construct
        if hook:
            hook(ex, st2, o2, line)
        yield st2, o2


def _find_obj(st, oid):
    # after forking, the live copy of an object is found through the env
    seen = set()

    def walk(v, depth=0):
        if depth > 6:
            return None
        if isinstance(v, Obj):
            if v.oid == oid:
                return v
            if id(v) in seen:
                return None
            seen.add(id(v))
            for x in v.fields.values():
                r = walk(x, depth + 1)
                if r is not None:
                    return r
        elif isinstance(v, dict):
            if id(v) in seen:
                return None
            seen.add(id(v))
            for x in v.values():
                r = walk(x, depth + 1)
                if r is not None:
                    return r
        elif isinstance(v, (list, tuple)):
            for x in v:
                r = walk(x, depth + 1)
                if r is not None:
                    return r
        elif isinstance(v, TokList):
            for sg in v.segs:
                if isinstance(sg, Single):
                    r = walk(sg.obj, depth + 1)
                    if r is not None:
                        return r
        return None
    return walk(st.env)


def call_super(ex, node, st, fi):
    # super().__init__(args): next class along single inheritance
    if node.func.attr != '__init__':
        raise Unsupported('super().%s' % node.func.attr)
    cur = st.env['$fi']
    clsq = cur.qual.rsplit('.', 2)[0] if cur.cls else None
    if clsq is None:
        raise Unsupported('super outside class')
    clsq = cur.qual[:-(len(cur.node.name) + 1)]
    bases = ex.repo.class_bases(clsq)
    if not bases:
        for st1, _ in [(st, None)]:
            yield st1, None
        return
    init = ex.repo.find_method(bases[0], '__init__')
    selfo = st.env['self']

    def after(st1, args, kw):
        if init is None:
            yield st1, None
            return
        yield from inline(ex, st1, fi, init, args, kw, node.lineno,
                          self_obj=st1.env['self'])

    class _F:
        pass
    marker = ('$super', after)
    yield from eval_args(ex, node, st, fi, marker)


# patch dispatch for the super marker
_old_dispatch = dispatch


def dispatch(ex, node, st, fi, fv, args, kw):   # noqa: F811
    if isinstance(fv, tuple) and len(fv) == 2 and fv[0] == '$super':
        yield from fv[1](st, args, kw)
        return
    if isinstance(fv, tuple) and len(fv) == 3 and fv[0] == '$pymethod':
        yield st, fv[1].py_method(ex, st, fv[2], args, node.lineno)
        return
    if isinstance(fv, tuple) and len(fv) == 3 and fv[0] == '$omethod':
        h = ex.contracts.obj_methods[(fv[1].cls, fv[2])]
        yield from h(ex, st, fi, fv[1], args, kw, node.lineno)
        return
    yield from _old_dispatch(ex, node, st, fi, fv, args, kw)


# ------------------------------------------------------------------ builtins

def b_len(ex, st, fi, args, kw, line):
    v = args[0]
    if isinstance(v, str):
        yield st, len(v)
    elif isinstance(v, SSeq):
        yield st, v.ln
    elif isinstance(v, TokList):
        yield st, v.length()
    elif isinstance(v, tuple):
        yield st, len(v)
    elif isinstance(v, PyDict) and v.has is None:
        yield st, len(v.items)
    else:
        raise Unsupported('len of %r at %d' % (v, line))


def _nums(ex, st, args, line):
    return [a.py_int(ex, st, line) if hasattr(a, 'py_int') else a
            for a in args]


def b_min(ex, st, fi, args, kw, line):
    args = _nums(ex, st, args, line)
    if len(args) != 2:
        raise Unsupported('min/max arity')
    yield st, sym.imin(args[0], args[1])


def _extreme_of_genexp(ex, st, fi, g, line):
    """max/min(ELT for V in LIST): attained by some element of the list
    (which must be non-empty); the bound against the other elements is not
    modelled"""
    node = g.node
    gen = node.generators[0]
    if len(node.generators) != 1 or gen.ifs or \
            not isinstance(gen.target, ast.Name):
        raise Unsupported('max/min generator at %d' % line)
    lst = ex.ev1(gen.iter, st, fi)
    if not isinstance(lst, TokList):
        raise Unsupported('max/min over %r' % (lst,))
    ex.prove(st, 'safe:max-of-empty@%d' % line, zint(lst.length()) >= 1,
             line)
    tmp = TokList(list(lst.segs))
    ex.normalise(tmp, st)
    e = tmp.segs[0].mk(st)
    return _eval_elt(ex, st, fi, gen.target.id, node.elt, e)


def _eval_elt(ex, st, fi, var, elt, val):
    saved = st.env.get(var, _MISSING)
    st.env[var] = val
    try:
        return ex.ev1(elt, st, fi)
    finally:
        if saved is _MISSING:
            del st.env[var]
        else:
            st.env[var] = saved


def b_max(ex, st, fi, args, kw, line):
    if len(args) == 1 and isinstance(args[0], GenExp):
        yield st, _extreme_of_genexp(ex, st, fi, args[0], line)
        return
    args = _nums(ex, st, args, line)
    if len(args) != 2:
        raise Unsupported('min/max arity')
    yield st, sym.imax(args[0], args[1])


def b_abs(ex, st, fi, args, kw, line):
    args = _nums(ex, st, args, line)
    yield st, sym.iabs(args[0])


def b_type(ex, st, fi, args, kw, line):
    yield st, TypeOf(ex.cls_of(args[0]))


def b_isinstance(ex, st, fi, args, kw, line):
    v, c = args
    if hasattr(v, 'py_isinstance'):
        yield st, v.py_isinstance(ex, st, c if isinstance(c, tuple)
                                  else (c,))
        return
    hook = ex.contracts.isinstance_hook
    if hook:
        r = hook(ex, st, v, c, line)
        if r is not NotImplemented:
            yield st, r
            return
    cs = c if isinstance(c, tuple) else (c,)
    t = ex.cls_of(v)
    res = []
    for k in cs:
        if isinstance(k, Builtin):
            tk = ex.class_tags[k.name]
            if k.name == 'int':
                res.append(Or(_teq(t, tk), _teq(t, ex.class_tags['bool'])))
            else:
                res.append(_teq(t, tk))
        elif isinstance(k, ClassRef):
            subs = [q for q in ex.repo.classes
                    if ex.repo.is_subclass(q, k.qual)]
            res.append(Or(*[_teq(t, ex.tag(q)) for q in subs]))
        else:
            raise Unsupported('isinstance class %r' % (k,))
    yield st, Or(*res)


def _teq(a, b):
    if isinstance(a, int) and isinstance(b, int):
        return a == b
    return zint(a) == zint(b)


def b_callable(ex, st, fi, args, kw, line):
    v = args[0]
    if isinstance(v, (FuncRef, LambdaRef, ClassRef, Builtin)):
        yield st, True
    elif isinstance(v, Opaque) and v.data and 'callable' in v.data:
        yield st, v.data['callable']
    elif isinstance(v, (TokList, SSeq, str, int, PyDict, tuple)) or v is None:
        yield st, False
    else:
        hook = ex.contracts.callable_hook
        r = hook(ex, st, v, line) if hook else NotImplemented
        if r is NotImplemented:
            raise Unsupported('callable(%r) at %d' % (v, line))
        yield st, r


def b_int(ex, st, fi, args, kw, line):
    v = args[0]
    if is_int(v):
        yield st, v
        return
    if is_bool(v):
        yield st, zint(v)
        return
    if is_str(v):
        s = lift_str(v)
        if s.conc is not None:
            try:
                yield st, int(s.conc)
                return
            except ValueError:
                ex.prove(st, 'safe:int@%d' % line, False, line)
                st.assume(False)
                yield st, 0
                return
        # int(s) is safe when s is a non-empty string of decimal characters
        # (sufficient condition; whitespace/sign forms are not needed here)
        ex.prove(st, 'safe:int@%d' % line,
                 And(zint(s.ln) >= 1,
                     forall(0, s.ln, lambda k: sym.isdecimal_c(s.at(k)))),
                 line)
        r = fresh_int('intval')
        st.assume(r >= 0)
        st.assume(Implies(zint(s.ln) == 1, r == sym.digit_val(s.at(0))))
        yield st, r
        return
    raise Unsupported('int(%r) at %d' % (v, line))


def b_str(ex, st, fi, args, kw, line):
    v = args[0]
    if isinstance(v, int) and not isinstance(v, bool):
        yield st, str(v)
        return
    if is_int(v):
        # decimal representation: content abstract, no newline, non-empty
        s = fresh_seq('str', 'str_int', st.assume)
        st.assume(s.ln == str_of_int_len(zint(v)))
        st.assume(s.ln >= 1)
        st.assume(forall(0, s.ln, lambda k: And(s.at(k) != 10,
                                                Or(s.at(k) == 45, And(
                                                    s.at(k) >= 48,
                                                    s.at(k) <= 57)))))
        s.tag = ('decimal', v)      # ghost: the number this text denotes
        yield st, s
        return
    if is_str(v):
        yield st, v
        return
    raise Unsupported('str(%r) at %d' % (v, line))


def b_repr(ex, st, fi, args, kw, line):
    s = fresh_seq('str', 'repr', st.assume)
    ex.note_imprecise('repr', s)
    yield st, s


def b_range(ex, st, fi, args, kw, line):
    if len(args) == 1:
        yield st, ('$range', 0, args[0], 1)
    elif len(args) == 2:
        yield st, ('$range', args[0], args[1], 1)
    else:
        yield st, ('$range', args[0], args[1], args[2])


def b_list(ex, st, fi, args, kw, line):
    if not args:
        yield st, TokList([])
        return
    v = args[0]
    if isinstance(v, tuple) and v and v[0] == '$range':
        if v[3] != 1:
            raise Unsupported('list(range(step))')
        yield st, sym.seq_range(v[1], v[2])
    elif isinstance(v, tuple) and v and v[0] == '$reversed':
        yield st, list_reversed(ex, st, v[1], line)
    elif isinstance(v, tuple) and v and v[0] == '$keys':
        yield st, dict_keys_list(ex, st, v[1], line)
    elif isinstance(v, TokList):
        yield st, TokList(list(v.segs))
    elif isinstance(v, SSeq):
        yield st, v
    elif isinstance(v, GenExp):
        yield from listcomp(ex, v.node, v.st if False else st, fi)
    elif isinstance(v, tuple):
        yield st, TokList([Single(x) for x in v])
    else:
        raise Unsupported('list(%r) at %d' % (v, line))


def iterable_as_list(ex, st, v, line):
    """list value of a lazy iterable (what list(v) would give); other
    values are returned as they are"""
    if isinstance(v, tuple) and v and v[0] == '$range':
        if v[3] != 1:
            raise Unsupported('range with a step as a list at %d' % line)
        return sym.seq_range(v[1], v[2])
    if isinstance(v, tuple) and v and v[0] == '$reversed':
        return list_reversed(ex, st, v[1], line)
    if isinstance(v, tuple) and v and v[0] == '$keys':
        return dict_keys_list(ex, st, v[1], line)
    return v


def dict_keys_list(ex, st, d, line):
    if d.has is None:
        return TokList([Single(k) for k in d.items])
    hook = ex.contracts.dict_keys
    if hook:
        r = hook(ex, st, d, line)
        if r is not NotImplemented:
            return r
    raise Unsupported('keys of abstract dict %s' % d.tag)


def list_reversed(ex, st, v, line):
    if isinstance(v, TokList):
        segs = []
        for sg in reversed(v.segs):
            if isinstance(sg, Single):
                segs.append(sg)
            else:
                m = Many(sg.ln, sg.mk, sg.fresh, sg.label)
                m.first, m.last = sg.last, sg.first
                segs.append(m)
        return TokList(segs)
    if isinstance(v, SSeq):
        n = zint(v.ln)
        return SSeq(sym.lam(lambda k: v.at(n - 1 - k)), v.ln, v.kind)
    raise Unsupported('reversed(%r) at %d' % (v, line))


def b_reversed(ex, st, fi, args, kw, line):
    yield st, ('$reversed', args[0])


def b_enumerate(ex, st, fi, args, kw, line):
    start = kw.get('start', args[1] if len(args) > 1 else 0)
    yield st, ('$enumerate', args[0], start)


def b_next(ex, st, fi, args, kw, line):
    g = args[0]
    if isinstance(g, GenExp):
        yield from least_index(ex, st, fi, g, args[1:] , line)
        return
    hook = ex.contracts.next_hook
    if hook:
        r = hook(ex, st, g, args[1:], line)
        if r is not NotImplemented:
            yield st, r
            return
    raise Unsupported('next(%r) at %d' % (g, line))


def desugar_enumerate(node):
    """(ELT for I, V in enumerate(X) if C)  ==>
    (ELT' for I in range(len(X)) if C')  with V replaced by X[I]; X a name or
    an attribute chain (no side effects, evaluated repeatedly).  Other
    comprehensions are returned as they are."""
    if len(node.generators) != 1:
        return node
    gen = node.generators[0]
    t, it = gen.target, gen.iter
    if not (isinstance(t, ast.Tuple) and len(t.elts) == 2 and
            all(isinstance(e, ast.Name) for e in t.elts) and
            isinstance(it, ast.Call) and isinstance(it.func, ast.Name) and
            it.func.id == 'enumerate' and len(it.args) == 1 and
            not it.keywords):
        return node
    x = it.args[0]
    y = x
    while isinstance(y, ast.Attribute):
        y = y.value
    if not isinstance(y, ast.Name):
        return node
    ivar, vvar = t.elts[0].id, t.elts[1].id

    class Sub(ast.NodeTransformer):
        def visit_Name(self, n):
            if n.id == vvar and isinstance(n.ctx, ast.Load):
                return ast.copy_location(ast.Subscript(
                    value=x, slice=ast.Name(id=ivar, ctx=ast.Load()),
                    ctx=ast.Load()), n)
            return n
    import copy as _copy
    new = _copy.deepcopy(node)
    g2 = new.generators[0]
    g2.target = ast.Name(id=ivar, ctx=ast.Store())
    g2.iter = ast.Call(func=ast.Name(id='range', ctx=ast.Load()), args=[
        ast.Call(func=ast.Name(id='len', ctx=ast.Load()), args=[x],
                 keywords=[])], keywords=[])
    g2.ifs = [Sub().visit(c) for c in g2.ifs]
    if hasattr(new, 'elt'):
        new.elt = Sub().visit(new.elt)
    ast.copy_location(new, node)
    ast.fix_missing_locations(new)
    return new


def least_index(ex, st, fi, g, default, line):
    """next((ELT for V in ITER if COND), default)

    Supported:  ITER = range(a, b[, -1]); ELT = V  -> least (greatest) index
                ITER = list, ELT = V               -> first matching element
    """
    node = desugar_enumerate(g.node)
    if len(node.generators) != 1:
        raise Unsupported('nested generator at %d' % line)
    gen = node.generators[0]
    if not isinstance(gen.target, ast.Name):
        raise Unsupported('generator target at %d' % line)
    var = gen.target.id
    conds = gen.ifs
    has_default = len(default) == 1
    for st1, itv in ex.ev(gen.iter, st, fi):
        if isinstance(itv, tuple) and itv and itv[0] == '$range':
            if not (isinstance(node.elt, ast.Name) and node.elt.id == var):
                raise Unsupported('generator element at %d' % line)
            a, b, step = itv[1], itv[2], itv[3]
            yield from _least_range(ex, st1, fi, var, conds, a, b, step,
                                    default, line)
            return
        if isinstance(itv, tuple) and itv and itv[0] == '$reversed' and \
                isinstance(itv[1], TokList):
            itv = list_reversed(ex, st1, itv[1], line)
        if isinstance(itv, TokList):
            yield from _first_elem(ex, st1, fi, var, node.elt, conds, itv,
                                   default, line)
            return
        raise Unsupported('next over %r at %d' % (itv, line))


def _eval_cond(ex, st, fi, var, conds, val):
    """evaluate the conjunction of `conds` with var := val; must not fork
    or mutate"""
    saved = st.env.get(var, _MISSING)
    st.env[var] = val
    try:
        acc = True
        for c in conds:
            acc = And(acc, ex.ev_truth(c, st, fi))
    finally:
        if saved is _MISSING:
            del st.env[var]
        else:
            st.env[var] = saved
    return acc


_MISSING = object()


def _least_range(ex, st, fi, var, conds, a, b, step, default, line):
    has_default = len(default) == 1
    d = default[0] if has_default else None
    r = fresh_int('idx')
    if step == 1:
        inr = And(zint(a) <= r, r < zint(b))
    elif step == -1:
        inr = And(zint(b) < r, r <= zint(a))
    else:
        raise Unsupported('range step at %d' % line)
    # P(r) evaluated under the guard "r in range"
    probe = st.clone()
    probe.assume(inr)
    npc = len(probe.pc)
    p_r = _eval_cond(ex, probe, fi, var, conds, r)
    found = And(inr, p_r)
    ex.merge_probe(st, probe, inr, npc)
    # quantified part: no earlier index satisfies P
    k = fresh_int('qk')
    try:
        if step == 1:
            ink = And(zint(a) <= k, k < zint(b))
        else:
            ink = And(zint(b) < k, k <= zint(a))
        probe2 = st.clone()
        probe2.assume(ink)
        nobl = len(ex.obligations)
        npc2 = len(probe2.pc)
        p_k = _eval_cond(ex, probe2, fi, var, conds, k)
        if len(probe2.pc) != npc2:
            raise Unsupported('assumptions under quantifier')
        # safety obligations created for the generic k duplicate those of r
        del ex.obligations[nobl:]
        if step == 1:
            before = lambda kk: And(zint(a) <= kk, kk < r)      # noqa
            allk = lambda kk: And(zint(a) <= kk, kk < zint(b))  # noqa
        else:
            before = lambda kk: And(r < kk, kk <= zint(a))      # noqa
            allk = lambda kk: And(zint(b) < kk, kk <= zint(a))  # noqa
        none_before = z3.ForAll([k], z3.Implies(zbool(before(k)),
                                                zbool(Not(p_k))))
        none_at_all = z3.ForAll([k], z3.Implies(zbool(allk(k)),
                                                zbool(Not(p_k))))
    except Unsupported:
        none_before = True
        none_at_all = True
    if has_default:
        if not is_int(d):
            raise Unsupported('non-int default of index search at %d' % line)
        st.assume(Or(And(found, none_before),
                     And(r == zint(d), none_at_all)))
        yield st, r
    else:
        ex.prove(st, 'safe:next@%d' % line, Not(none_at_all)
                 if none_at_all is not True else False, line)
        st.assume(And(found, none_before))
        yield st, r


def _first_elem(ex, st, fi, var, elt, conds, lst, default, line):
    """next((t for t in LIST if COND), default): some element satisfying
    COND, or the default (no 'first' guarantee needed by the code base)"""
    has_default = len(default) == 1
    if not (isinstance(elt, ast.Name) and elt.id == var):
        raise Unsupported('generator element at %d' % line)
    tmp = TokList(list(lst.segs))
    n = lst.length()
    none = fresh_bool('nomatch')
    g = GuardedState(st, Not(none))
    if tmp.segs:
        ex.normalise(tmp, g)
        e = tmp.segs[0].mk(g)
        probe = st.clone()
        probe.assume(Not(none))
        npc = len(probe.pc)
        p = _eval_cond(ex, probe, fi, var, conds, e)
        ex.merge_probe(st, probe, Not(none), npc)
        st.assume(Implies(Not(none), And(zint(n) > 0, p)))
    else:
        st.assume(none)
        e = None
    if not has_default:
        ex.prove(st, 'safe:next@%d' % line, Not(none), line)
        st.assume(Not(none))
        yield st, e
        return
    d = default[0]
    if e is None:
        yield st, d
        return
    yield st, merge_values(ex, [(Not(none), e), (none, d)], st)


def b_sum(ex, st, fi, args, kw, line):
    """sum(1 for V in ITER if COND): the number of selected elements, i.e.
    len([V for V in ITER if COND])"""
    g = args[0]
    if isinstance(g, GenExp) and len(args) == 1 and \
            isinstance(g.node.elt, ast.Constant) and g.node.elt.value == 1 \
            and len(g.node.generators) == 1 and \
            isinstance(g.node.generators[0].target, ast.Name):
        gen = g.node.generators[0]
        lc = ast.ListComp(elt=ast.Name(id=gen.target.id, ctx=ast.Load()),
                          generators=g.node.generators)
        ast.copy_location(lc, g.node)
        ast.fix_missing_locations(lc)
        for st1, v in listcomp(ex, lc, st, fi):
            yield from b_len(ex, st1, fi, [v], {}, line)
        return
    raise Unsupported('builtin sum at %d' % line)


def b_any(ex, st, fi, args, kw, line):
    yield from _anyall(ex, st, fi, args, line, True)


def b_all(ex, st, fi, args, kw, line):
    yield from _anyall(ex, st, fi, args, line, False)


def _anyall(ex, st, fi, args, line, is_any):
    g = args[0]
    if not isinstance(g, GenExp):
        raise Unsupported('any/all of %r' % (g,))
    node = desugar_enumerate(g.node)
    gen = node.generators[0]
    if len(node.generators) != 1 or not isinstance(gen.target, ast.Name):
        raise Unsupported('any/all generator at %d' % line)
    var = gen.target.id
    conds = list(gen.ifs)
    for st1, itv in ex.ev(gen.iter, st, fi):
        if is_str(itv) or isinstance(itv, SSeq):
            s = lift_str(itv) if is_str(itv) else itv
            k = fresh_int('qk')
            probe = st1.clone()
            probe.assume(And(0 <= k, k < zint(s.ln)))
            npc = len(probe.pc)
            e = sym.char(s.at(k)) if s.kind == 'str' else s.at(k)
            body = And(_eval_cond(ex, probe, fi, var, conds, e),
                       _eval_cond(ex, probe, fi, var, [node.elt], e)) \
                if is_any else Implies(
                    _eval_cond(ex, probe, fi, var, conds, e),
                    _eval_cond(ex, probe, fi, var, [node.elt], e))
            if len(probe.pc) != npc:
                raise Unsupported('assumptions under quantifier')
            rng = z3.And(0 <= k, k < zint(s.ln))
            if is_any:
                yield st1, z3.Exists([k], z3.And(rng, zbool(body)))
            else:
                yield st1, z3.ForAll([k], z3.Implies(rng, zbool(body)))
            continue
        if isinstance(itv, TokList):
            parts = []
            for sg in itv.segs:
                if isinstance(sg, Single):
                    probe = st1.clone()
                    npc = len(probe.pc)
                    c = _eval_cond(ex, probe, fi, var, conds, sg.obj)
                    e = _eval_cond(ex, probe, fi, var, [node.elt], sg.obj)
                    parts.append(And(c, e) if is_any else Implies(c, e))
                else:
                    hook = ex.contracts.anyall_many
                    r = hook(ex, st1, fi, sg, var, conds, node.elt, is_any,
                             line) if hook else NotImplemented
                    if r is NotImplemented:
                        r = fresh_bool('anyall')
                        ex.note_imprecise('any/all over a summarised list', r)
                        if is_any:
                            st1.assume(Implies(zint(sg.ln) == 0, Not(r)))
                        else:
                            st1.assume(Implies(zint(sg.ln) == 0, r))
                    parts.append(r)
            yield st1, (Or(*parts) if is_any else And(*parts))
            continue
        raise Unsupported('any/all over %r at %d' % (itv, line))


def b_set(ex, st, fi, args, kw, line):
    hook = ex.contracts.set_hook
    if hook:
        r = hook(ex, st, args, line)
        if r is not NotImplemented:
            yield st, r
            return
    raise Unsupported('set() at %d' % line)


def b_chr(ex, st, fi, args, kw, line):
    yield st, sym.char(args[0])


def b_ord(ex, st, fi, args, kw, line):
    s = lift_str(args[0])
    ex.prove(st, 'safe:ord@%d' % line, zint(s.ln) == 1, line)
    yield st, s.at(0)


def b_float(ex, st, fi, args, kw, line):
    hook = ex.contracts.float_hook
    if hook:
        r = hook(ex, st, args, line)
        if r is not NotImplemented:
            yield st, r
            return
    raise Unsupported('float() at %d' % line)


def b_bool(ex, st, fi, args, kw, line):
    yield st, ex.truth(args[0], st, line)


def b_tuple(ex, st, fi, args, kw, line):
    v = args[0]
    if isinstance(v, tuple):
        yield st, v
        return
    raise Unsupported('tuple() at %d' % line)


BUILTIN = {
    'len': b_len, 'sum': b_sum, 'min': b_min, 'max': b_max, 'abs': b_abs, 'type': b_type,
    'isinstance': b_isinstance, 'callable': b_callable, 'int': b_int,
    'str': b_str, 'repr': b_repr, 'range': b_range, 'list': b_list,
    'reversed': b_reversed, 'enumerate': b_enumerate, 'next': b_next,
    'any': b_any, 'all': b_all, 'set': b_set, 'chr': b_chr, 'ord': b_ord,
    'float': b_float, 'bool': b_bool, 'tuple': b_tuple,
}


# --------------------------------------------------------------------- methods

def method(ex, st, fi, o, name, args, kw, line, node):
    if is_str(o):
        yield from str_method(ex, st, fi, o, name, args, kw, line)
    elif isinstance(o, SSeq):
        yield from ilist_method(ex, st, fi, o, name, args, kw, line, node)
    elif isinstance(o, TokList):
        yield from list_method(ex, st, fi, o, name, args, kw, line)
    elif isinstance(o, PyDict):
        yield from dict_method(ex, st, fi, o, name, args, kw, line)
    else:
        raise Unsupported('method %s of %r at %d' % (name, o, line))


def _range_args(s, args):
    lo = args[1] if len(args) > 1 else 0
    hi = args[2] if len(args) > 2 else s.ln
    lo = sym.clamp_index(lo, s.ln)
    hi = sym.clamp_index(hi, s.ln)
    return lo, hi


def str_count(st, s, code, lo, hi):
    """s.count(chr(code), lo, hi) with lo, hi already clamped"""
    n = count_f(s.arr, zint(code), zint(lo), zint(hi))
    span = sym.imax(zint(hi) - zint(lo), 0)
    st.assume(And(n >= 0, n <= span))
    st.assume(n == 0) if False else None
    st.assume((n == 0) == zbool(forall(lo, hi,
                                       lambda k: s.at(k) != zint(code))))
    # a prefix contains at most as many occurrences as the whole string,
    # and counting is monotone in the upper bound
    total = count_f(s.arr, zint(code), zint(lo), zint(s.ln))
    st.assume(Implies(zint(hi) <= zint(s.ln), n <= total))
    # counting is monotone in the upper bound: instantiated against the
    # earlier count terms over the same string / character / lower bound
    key = ('$count-mono', s.arr.sexpr(), str(code), str(lo))
    reg = st.ghost.setdefault(key, [])
    for h1, n1 in reg:
        st.assume(Implies(zint(h1) <= zint(hi), n1 <= n))
        st.assume(Implies(zint(hi) <= zint(h1), n <= n1))
    reg.append((hi, n))
    return n


def str_find(st, s, code, lo, hi, reverse):
    r = fresh_int('rfind' if reverse else 'find')
    c = zint(code)
    lo, hi = zint(lo), zint(hi)
    hit = And(lo <= r, r < hi, s.at(r) == c,
              forall(r + 1, hi, lambda k: s.at(k) != c) if reverse
              else forall(lo, r, lambda k: s.at(k) != c))
    miss = And(r == -1, forall(lo, hi, lambda k: s.at(k) != c))
    st.assume(Or(hit, miss))
    return r


def str_method(ex, st, fi, o, name, args, kw, line):
    s = lift_str(o)
    if s.conc is not None and all(isinstance(a, (str, int)) for a in args) \
            and name in ('count', 'find', 'rfind', 'startswith', 'endswith',
                         'strip', 'isspace', 'isalpha', 'isdecimal',
                         'islower', 'upper', 'lower', 'split', 'replace',
                         'isalnum', 'isdigit', 'isnumeric'):
        r = getattr(s.conc, name)(*args)
        if isinstance(r, list):
            r = TokList([Single(x) for x in r])
        yield st, r
        return
    if name == 'count':
        t = lift_str(args[0])
        if not (isinstance(t.ln, int) and t.ln == 1):
            raise Unsupported('count of multi-char pattern at %d' % line)
        lo, hi = _range_args(s, args)
        yield st, str_count(st, s, t.at(0), lo, hi)
    elif name in ('find', 'rfind'):
        t = lift_str(args[0])
        lo, hi = _range_args(s, args)
        if isinstance(t.ln, int) and t.ln == 1:
            yield st, str_find(st, s, t.at(0), lo, hi, name == 'rfind')
        elif t.conc is not None and name == 'find':
            r = fresh_int('find')
            n = len(t.conc)
            hit = And(zint(lo) <= r, r + n <= zint(hi),
                      sym.seq_startswith(s, t, r),
                      forall(lo, r, lambda k: Not(
                          sym.seq_startswith(s, t, k))))
            st.assume(Or(hit, And(r == -1, forall(
                lo, zint(hi) - n + 1,
                lambda k: Not(sym.seq_startswith(s, t, k))))))
            yield st, r
        else:
            raise Unsupported('find pattern at %d' % line)
    elif name == 'partition':
        # s.partition(c) for a one-character separator: (head, sep, tail)
        # split at the least index of c; (s, '', '') when c does not occur
        t = lift_str(args[0])
        if not (isinstance(t.ln, int) and t.ln == 1):
            raise Unsupported('partition separator at %d' % line)
        c = t.at(0)
        r = fresh_int('part')
        n = zint(s.ln)
        found = And(0 <= r, r < n, s.at(r) == c,
                    forall(0, r, lambda k: s.at(k) != c))
        st.assume(Or(found, And(r == -1, forall(0, n,
                                                lambda k: s.at(k) != c))))
        cut = z3.If(r >= 0, r, n)
        head = SSeq(s.arr, cut, 'str')
        sep = SSeq(sym.lam(lambda k: c), z3.If(r >= 0, 1, 0), 'str')
        tail = SSeq(sym.lam(lambda k: s.at(cut + 1 + k)),
                    z3.If(r >= 0, n - r - 1, 0), 'str')
        for x in (head, sep, tail):
            if getattr(s, 'tag', None) is not None:
                x.tag = s.tag
        yield st, (head, sep, tail)
    elif name == 'rpartition':
        # s.rpartition(c), one-character separator: (head, sep, tail) split
        # at the greatest index of c; ('', '', s) when c does not occur
        t = lift_str(args[0])
        if not (isinstance(t.ln, int) and t.ln == 1):
            raise Unsupported('rpartition separator at %d' % line)
        c = t.at(0)
        r = fresh_int('rpart')
        n = zint(s.ln)
        found = And(0 <= r, r < n, s.at(r) == c,
                    forall(r + 1, n, lambda k: s.at(k) != c))
        st.assume(Or(found, And(r == -1, forall(0, n,
                                                lambda k: s.at(k) != c))))
        head = SSeq(s.arr, z3.If(r >= 0, r, 0), 'str')
        sep = SSeq(sym.lam(lambda k: c), z3.If(r >= 0, 1, 0), 'str')
        tail = SSeq(sym.lam(lambda k: s.at(r + 1 + k)), n - r - 1, 'str')
        for x in (head, sep, tail):
            if getattr(s, 'tag', None) is not None:
                x.tag = s.tag
        yield st, (head, sep, tail)
    elif name == 'startswith':
        start = args[1] if len(args) > 1 else 0
        t = args[0]
        if not is_str(t):
            raise Unsupported('startswith arg at %d' % line)
        if not (isinstance(start, int) and start == 0):
            # python clamps / treats start > len as no match
            ex_ok = And(zint(start) >= 0)
            st.assume(True)
            yield st, And(ex_ok, sym.seq_startswith(s, t, start))
        else:
            yield st, sym.seq_startswith(s, t, 0)
    elif name == 'lstrip' and len(args) == 1 and \
            lift_str(args[0]).conc is not None:
        # s.lstrip(<constant character set>): the suffix from the first
        # character outside the set
        cs = [ord(ch) for ch in lift_str(args[0]).conc]
        off = fresh_int('lstrip')

        def inset(c):
            return Or(*[c == zint(x) for x in cs]) if cs else zbool(False)
        st.assume(And(off >= 0, off <= zint(s.ln)))
        st.assume(forall(0, off, lambda k: inset(s.at(k))))
        st.assume(Implies(off < zint(s.ln), Not(inset(s.at(off)))))
        yield st, SSeq(sym.lam(lambda k: s.at(off + k)), zint(s.ln) - off,
                       'str')
    elif name == 'strip':
        if args:
            raise Unsupported('strip(chars) at %d' % line)
        n = strip_ln(s.arr, zint(s.ln))
        off = strip_off(s.arr, zint(s.ln))
        st.assume(And(n >= 0, off >= 0, off + n <= zint(s.ln)))
        st.assume((n == 0) == zbool(forall(
            0, s.ln, lambda k: sym.isspace_c(s.at(k)))))
        st.assume(Implies(n > 0, And(Not(sym.isspace_c(s.at(off))),
                                     Not(sym.isspace_c(s.at(off + n - 1))))))
        st.assume(forall(0, off, lambda k: sym.isspace_c(s.at(k))))
        st.assume(forall(off + n, s.ln, lambda k: sym.isspace_c(s.at(k))))
        yield st, SSeq(sym.lam(lambda k: s.at(off + k)), n, 'str')
    elif name == 'isspace':
        yield st, And(zint(s.ln) > 0,
                      forall(0, s.ln, lambda k: sym.isspace_c(s.at(k))))
    elif name == 'isalpha':
        yield st, And(zint(s.ln) > 0,
                      forall(0, s.ln, lambda k: sym.isalpha_c(s.at(k))))
    elif name == 'isdecimal':
        yield st, And(zint(s.ln) > 0,
                      forall(0, s.ln, lambda k: sym.isdecimal_c(s.at(k))))
    elif name == 'isalnum':
        yield st, And(zint(s.ln) > 0,
                      forall(0, s.ln, lambda k: isalnum_c(s.at(k))))
    elif name in ('isdigit', 'isnumeric'):
        # a superset of isdecimal (superscript two is a digit, int() rejects
        # it): uninterpreted, decimal characters are digits, not conversely
        f = z3.Function(name + '_c', sym.I, sym.B)
        st.assume(forall(0, s.ln, lambda k: Implies(
            sym.isdecimal_c(s.at(k)), f(s.at(k)))))
        yield st, And(zint(s.ln) > 0, forall(0, s.ln, lambda k: f(s.at(k))))
    elif name == 'islower':
        b = fresh_bool('islower')
        ex.note_imprecise('str.islower', b)
        st.assume(Implies(zint(s.ln) == 1, b == islower_c(s.at(0))))
        yield st, b
    elif name in ('upper', 'lower'):
        f = upper_c if name == 'upper' else lower_c
        # length preserved for the characters the code base applies it to
        # (ASCII letters); general unicode may change the length -> abstract
        r = fresh_seq('str', name, st.assume)
        ex.note_imprecise('str.' + name, r)
        st.assume(Implies(And(zint(s.ln) == 1, s.at(0) < 128),
                          And(r.ln == 1, r.at(0) == f(s.at(0)))))
        st.assume((r.ln == 0) == (zint(s.ln) == 0))
        yield st, r
    elif name == 'split':
        # list of non-empty, white-space free words
        if args:
            sep = args[0]
            hook = ex.contracts.split_hook
            r = hook(ex, st, s, sep, line) if hook else NotImplemented
            if r is NotImplemented:
                raise Unsupported('split(sep) at %d' % line)
            yield st, r
            return
        n = split_n(s.arr, zint(s.ln))
        st.assume(And(n >= 0, n <= zint(s.ln)))
        st.assume((n == 0) == zbool(forall(
            0, s.ln, lambda k: sym.isspace_c(s.at(k)))))

        def mk(s1):
            w = fresh_seq('str', 'word', s1.assume)
            ex.note_imprecise('str.split', w)
            s1.assume(w.ln >= 1)
            s1.assume(forall(0, w.ln,
                             lambda k: Not(sym.isspace_c(w.at(k)))))
            return w
        yield st, TokList([Many(n, mk, False, 'words')])
    elif name == 'join':
        v = args[0]
        hook = ex.contracts.join_hook
        r = hook(ex, st, s, v, line) if hook else NotImplemented
        if r is not NotImplemented:
            yield st, r
            return
        res = fresh_seq('str', 'join', st.assume)
        ex.note_imprecise('str.join', res)
        res.tag = 'raw'     # provenance unknown: treated as unescaped text
        if isinstance(v, TokList):
            n = v.length()
            st.assume(Implies(zint(n) == 0, res.ln == 0))
        if isinstance(v, GenExp) and len(v.node.generators) == 1 and \
                isinstance(s.ln, int) and s.ln == 0:
            # ''.join(t.txt for t in LIST) with LIST = explicit elements and
            # optional (0/1) elements: exact concatenation
            g = v.node.generators[0]
            src_l = ex.ev1(g.iter, st, fi)
            if isinstance(src_l, TokList) and not g.ifs and \
                    isinstance(g.target, ast.Name) and \
                    isinstance(v.node.elt, ast.Attribute) and \
                    isinstance(v.node.elt.value, ast.Name) and \
                    v.node.elt.value.id == g.target.id and all(
                        isinstance(sg, Single) or getattr(
                            sg, 'label', '') == 'opt01'
                        for sg in src_l.segs):
                acc = ''
                for sg in src_l.segs:
                    if isinstance(sg, Single):
                        piece = ex.get_attr(sg.obj, v.node.elt.attr, st, line)
                    else:
                        e = sg.mk(st)
                        t = lift_str(ex.get_attr(e, v.node.elt.attr, st,
                                                 line))
                        piece = SSeq(t.arr, Ite(zint(sg.ln) == 1, t.ln, 0),
                                     'str')
                    acc = sym.seq_concat(acc, piece)
                yield st, acc
                return
        if isinstance(v, GenExp) and len(v.node.generators) == 1:
            src_l = ex.ev1(v.node.generators[0].iter, st, fi)
            if isinstance(src_l, TokList):
                st.assume(Implies(zint(src_l.length()) == 0, res.ln == 0))
        yield st, res
    elif name == 'replace':
        a, b = lift_str(args[0]), lift_str(args[1])
        if isinstance(a.ln, int) and a.ln == 1 and isinstance(b.ln, int) \
                and b.ln == 1:
            # character-wise replacement: same length, mapped characters
            ca, cb = a.at(0), b.at(0)
            yield st, SSeq(sym.lam(lambda k: z3.If(s.at(k) == zint(ca),
                                                   zint(cb), s.at(k))),
                           s.ln, 'str')
            return
        res = fresh_seq('str', 'replace', st.assume)
        ex.note_imprecise('str.replace', res)
        yield st, res
    elif name == 'encode':
        # UTF-8 length: additive over concatenation, 1..4 bytes per code
        # point.  For a slice base[a:b] it is the difference of the prefix
        # byte counts of the base text.
        if getattr(s, 'origin', None) is not None:
            base, off = s.origin
            n = enc_prefix(base.arr, zint(off) + zint(s.ln)) - \
                enc_prefix(base.arr, zint(off))
        else:
            n = enc_prefix(s.arr, zint(s.ln)) - enc_prefix(s.arr,
                                                           z3.IntVal(0))
        st.assume(n >= zint(s.ln))
        st.assume(n <= 4 * zint(s.ln))
        yield st, SSeq(sym.fresh_arr('bytes'), n, 'ilist')
    elif name == 'copy':
        yield st, o
    elif name == 'format':
        res = fresh_seq('str', 'formatted', st.assume)
        ex.note_imprecise('str.format', res)
        yield st, res
    else:
        raise Unsupported('str.%s at %d' % (name, line))


def ilist_method(ex, st, fi, o, name, args, kw, line, node):
    if name == 'append':
        v = args[0].ident if hasattr(args[0], 'ident') else args[0]
        new = sym.seq_concat(o, lift_ilist([v]))
        new.tag = getattr(o, 'tag', None)
        if ex.contracts.ilist_lemma_hook:
            ex.contracts.ilist_lemma_hook(ex, st, 'append', o, new, v)
        _rebind(ex, st, fi, node, new)
        yield st, None
    elif name == 'copy':
        yield st, o
    elif name == 'extend':
        new = sym.seq_concat(o, iterable_as_list(ex, st, args[0], line))
        _rebind(ex, st, fi, node, new)
        yield st, None
    elif name == 'pop':
        ex.prove(st, 'safe:pop@%d' % line, zint(o.ln) >= 1, line)
        if args and args[0] == 0:
            e = o.at(0)
            new = sym.seq_slice(o, 1, None)
        elif not args:
            e = o.at(zint(o.ln) - 1)
            new = sym.seq_slice(o, 0, zint(o.ln) - 1)
        else:
            raise Unsupported('pop(%r) on int list' % (args[0],))
        wrap = getattr(o, 'tag', None)
        if ex.contracts.ilist_lemma_hook:
            ex.contracts.ilist_lemma_hook(
                ex, st, 'pop0' if args else 'pop', o, new, e)
        _rebind(ex, st, fi, node, new)
        if wrap is not None:
            new.tag = wrap
            e = wrap(e)
        yield st, e
    else:
        raise Unsupported('list-of-int method %s at %d' % (name, line))


def _rebind(ex, st, fi, node, new):
    """array-layer lists have value semantics: x.append(v) rebinds x"""
    tgt = node.func.value
    for _ in ex.assign(_store(tgt), new, st, fi):
        pass
    st.mut += 1


def _store(t):
    import copy
    n = copy.copy(t)
    n.ctx = ast.Store()
    return n


def _seed_first(st, o, cache, ver0):
    """the element read as x[0] since the last write IS the first element.
    A read made in a probe state (short-circuit evaluation) lives in the
    read memo only and its invariant is known under the probe's guard only:
    the first element is instantiated here (invariant unconditional) and
    its scalar / string fields are equated with those of the memoised
    read -- both denote the same element."""
    e0 = cache.get((o.lid, ver0, '0'))
    if e0 is None or not o.segs or not isinstance(o.segs[0], Many) or \
            o.segs[0].first is not None or not isinstance(e0, Obj) or \
            e0.meta.get('view'):
        return
    f = o.segs[0].mk(st)
    if not isinstance(f, Obj):
        return
    for k, v in e0.fields.items():
        w = f.fields.get(k)
        if w is None:
            continue
        if sym.is_str(v) and sym.is_str(w):
            st.assume(sym.seq_eq(sym.lift_str(v), sym.lift_str(w)))
        elif isinstance(v, SSeq) and isinstance(w, SSeq):
            st.assume(sym.seq_eq(v, w))
        elif (sym.is_int(v) and sym.is_int(w)) or \
                (sym.is_bool(v) and sym.is_bool(w)):
            st.assume(v == w)
    o.segs[0].first = f


def list_method(ex, st, fi, o, name, args, kw, line):
    if name == 'append':
        hook = ex.contracts.list_append_hook
        if hook:
            hook(ex, st, o, args[0], line)
        o.segs.append(Single(args[0]))
        st.mut += 1
        st.writes.append((o.lid, '$list'))
        yield st, None
    elif name == 'extend':
        v = iterable_as_list(ex, st, args[0], line)
        ex.list_extend(o, v, st, line)
        st.mut += 1
        st.writes.append((o.lid, '$list'))
        yield st, None
    elif name == 'insert':
        if args[0] != 0:
            raise Unsupported('insert at %r' % (args[0],))
        o.segs.insert(0, Single(args[1]))
        st.mut += 1
        st.writes.append((o.lid, '$list'))
        yield st, None
    elif name == 'pop':
        st.mut += 1
        st.writes.append((o.lid, '$list'))
        if not args:
            yield st, ex.list_pop_last(o, st, line)
        elif args[0] == 0:
            _seed_first(st, o, st.ghost.get('$lcache', {}),
                        len(st.writes_of(o)) - 1)
            yield st, ex.list_pop_first(o, st, line)
        elif args[0] == 1:
            n = o.length()
            ex.prove(st, 'safe:pop@%d' % line, zint(n) >= 2, line)
            st.assume(zint(n) >= 2)
            # elements read at index 1 / 2 since the last write keep their
            # identity: x.pop(1) returns the element read as x[1], and the
            # element read as x[2] (exists iff len >= 3) becomes x[1]
            ver0 = len(st.writes_of(o)) - 1
            cache = st.ghost.get('$lcache', {})
            e1 = cache.get((o.lid, ver0, '1'))
            e2 = cache.get((o.lid, ver0, '2'))
            _seed_first(st, o, cache, ver0)
            first = ex._pop(o, st, last=False)
            second = ex._pop(o, st, last=False)
            if e1 is not None:
                second = e1
            if e2 is not None and len(o.segs) == 1 and \
                    isinstance(o.segs[0], Many):
                sg = o.segs[0]

                def mk_e2(s1, e=e2):
                    if isinstance(e, Obj):
                        return _find_obj(s1, e.oid) or e
                    return e
                o.segs[:] = [
                    Many(Ite(zint(n) >= 3, 1, 0), mk_e2, False, 'was[2]'),
                    Many(sym.imax(zint(sg.ln) - 1, 0), sg.mk, sg.fresh,
                         sg.label)]
            o.segs.insert(0, Single(first))
            yield st, second
        else:
            raise Unsupported('pop(%r) at %d' % (args[0], line))
    elif name == 'copy':
        n = TokList(list(o.segs))
        # the copy holds the very same elements: reads memoised for the
        # original (current version) are reads of the copy as well
        cache = st.ghost.get('$lcache')
        if cache:
            ver = len(st.writes_of(o))
            for k, v in list(cache.items()):
                if k[0] == o.lid and k[1] == ver:
                    cache[(n.lid, 0) + tuple(k[2:])] = v
        yield st, n
    elif name == 'reverse':
        # in place; a summarised segment carries no order, its memoised
        # first / last elements swap roles
        segs = list(reversed(o.segs))
        for sg in segs:
            if isinstance(sg, Many):
                sg.first, sg.last = sg.last, sg.first
        o.segs[:] = segs
        st.mut += 1
        st.writes.append((o.lid, '$list'))
        yield st, None
    elif name == 'sort':
        hook = ex.contracts.sort_hook
        if hook:
            r = hook(ex, st, fi, o, args, kw, line)
            if r is not NotImplemented:
                yield from r
                return
        raise Unsupported('sort at %d' % line)
    else:
        raise Unsupported('list.%s at %d' % (name, line))


def dict_method(ex, st, fi, d, name, args, kw, line):
    if name == 'get':
        k = args[0]
        dflt = args[1] if len(args) > 1 else None
        if (isinstance(k, str) or k is None) and d.has is None:
            yield st, d.items.get(k, dflt)
            return
        present = ex.contains(d, k, st, line)
        if present is True:
            yield st, ex.dict_get(d, k, st, line, check=False)
            return
        if present is False:
            yield st, dflt
            return
        g = GuardedState(st, present)
        v = ex.dict_get(d, k, g, line, check=False)
        mv = merge_pair(ex, present, v, dflt, st)
        if mv is NotImplemented and isinstance(dflt, TokList):
            # d.get(k, []): the stored list, or an empty one
            isn = False
            lv = v
            if isinstance(v, OptVal):
                isn, lv = v.isnone, v.val
            if isinstance(lv, TokList):
                segs = []
                for sg in lv.segs:
                    if isinstance(sg, Single):
                        segs.append(Many(Ite(present, 1, 0),
                                         (lambda s1, o=sg.obj: o), False,
                                         'get'))
                    else:
                        segs.append(Many(Ite(present, sg.ln, 0), sg.mk,
                                         sg.fresh, sg.label, sg.indexed))
                for sg in dflt.segs:
                    if isinstance(sg, Single):
                        segs.append(Many(Ite(present, 0, 1),
                                         (lambda s1, o=sg.obj: o), False,
                                         'dflt'))
                    else:
                        segs.append(Many(Ite(present, 0, sg.ln), sg.mk,
                                         sg.fresh, sg.label, sg.indexed))
                res = TokList(segs)
                mv = res if isn is False else OptVal(And(present, isn), res)
        if mv is NotImplemented:
            raise Unsupported('dict.get merge at %d' % line)
        yield st, mv
    elif name == 'setdefault' and len(args) == 2:
        # d.setdefault(k, v):  d[k] if k in d, else d[k] = v and v
        k, dflt = args
        present = ex.contains(d, k, st, line)
        if present is True:
            yield st, ex.dict_get(d, k, st, line, check=False)
            return
        if present is not False:
            a = st.clone()
            a.assume(present)
            a.trace.append('T@%d' % line)
            st.assume(Not(present))
            st.trace.append('F@%d' % line)
            if ex.feasible(a):
                yield a, ex.dict_get(d, k, a, line, check=False)
            if not ex.feasible(st):
                return
        ex.store_item(d, k, dflt, st, line)
        yield st, dflt
    elif name == 'keys':
        yield st, ('$keys', d)
    elif name == 'items':
        yield st, ('$items', d)
    elif name == 'values':
        yield st, ('$values', d)
    else:
        raise Unsupported('dict.%s at %d' % (name, line))


# -------------------------------------------------------------- comprehension

def listcomp(ex, node, st, fi):
    """[ELT for V in ITER if COND]"""
    line = node.lineno
    if len(node.generators) != 1:
        raise Unsupported('nested comprehension at %d' % line)
    gen = node.generators[0]
    for st1, itv in ex.ev(gen.iter, st, fi):
        if isinstance(itv, OptVal):
            # iterating over None raises TypeError
            ex.prove(st1, 'safe:iterate-none@%d' % line, Not(itv.isnone),
                     line)
            st1.assume(Not(itv.isnone))
            itv = itv.val
        if isinstance(itv, tuple) and itv and itv[0] == '$range':
            yield from _comp_range(ex, node, gen, st1, fi, itv, line)
            continue
        if isinstance(itv, tuple) and itv and itv[0] == '$keys':
            itv = dict_keys_list(ex, st1, itv[1], line)
        if isinstance(itv, PyDict):
            itv = dict_keys_list(ex, st1, itv, line)
        if isinstance(itv, SSeq) and itv.kind == 'ilist':
            yield from _comp_ilist(ex, node, gen, st1, fi, itv, line)
            continue
        if is_str(itv):
            yield from _comp_str(ex, node, gen, st1, fi, itv, line)
            continue
        if isinstance(itv, TokList):
            yield from _comp_list(ex, node, gen, st1, fi, itv, line)
            continue
        raise Unsupported('comprehension over %r at %d' % (itv, line))


def _bind_target(ex, st, tgt, val, fi):
    for _ in ex.assign(_store(tgt), val, st, fi):
        pass


def _comp_ilist(ex, node, gen, st, fi, s, line):
    """[f(n) for n in <int list>] -> int list defined by a lambda; only
    arithmetic element expressions without condition"""
    if gen.ifs or not isinstance(gen.target, ast.Name):
        raise Unsupported('filtered int comprehension at %d' % line)
    k = z3.Int('ck!%d' % sym.uid())
    saved = st.env.get(gen.target.id, _MISSING)
    st.env[gen.target.id] = s.at(k)
    try:
        v = ex.ev1(node.elt, st, fi)
    finally:
        if saved is _MISSING:
            del st.env[gen.target.id]
        else:
            st.env[gen.target.id] = saved
    if not is_int(v):
        raise Unsupported('non-int element in int comprehension')
    yield st, SSeq(z3.Lambda([k], zint(v)), s.ln, 'ilist')


def _comp_range(ex, node, gen, st, fi, rng, line):
    a, b, step = rng[1], rng[2], rng[3]
    if step != 1 or gen.ifs or not isinstance(gen.target, ast.Name):
        raise Unsupported('range comprehension at %d' % line)
    k = z3.Int('ck!%d' % sym.uid())
    saved = st.env.get(gen.target.id, _MISSING)
    st.env[gen.target.id] = zint(a) + k
    try:
        v = ex.ev1(node.elt, st, fi)
    finally:
        if saved is _MISSING:
            del st.env[gen.target.id]
        else:
            st.env[gen.target.id] = saved
    if not is_int(v):
        raise Unsupported('non-int element in range comprehension')
    n = sym.imax(zint(b) - zint(a), 0)
    yield st, SSeq(z3.Lambda([k], zint(v)), n, 'ilist')


def _comp_str(ex, node, gen, st, fi, s, line):
    raise Unsupported('comprehension over string at %d' % line)


def _comp_list(ex, node, gen, st, fi, lst, line):
    """map/filter over a summarised list.  Single segments are evaluated
    eagerly (may fork on the filter); Many segments become Many segments
    whose element maker replays ELT / COND on a generic element."""
    tgt = gen.target

    def run_one(st1, val):
        """evaluate conds and elt on val in st1 -> (cond, value)"""
        saved = dict((n, st1.env.get(n, _MISSING)) for n in _names(tgt))
        _bind_target(ex, st1, tgt, val, fi)
        try:
            c = True
            for cnd in gen.ifs:
                c = And(c, ex.ev_truth(cnd, st1, fi))
            if c is False:
                return c, None
            if c is True:
                v = ex.ev1(node.elt, st1, fi)
            else:
                g = st1.clone()
                g.assume(c)
                npc = len(g.pc)
                v = ex.ev1(node.elt, g, fi)
                ex.merge_probe(st1, g, c, npc)
        finally:
            for n, sv in saved.items():
                if sv is _MISSING:
                    st1.env.pop(n, None)
                else:
                    st1.env[n] = sv
        return c, v

    out = []
    for sg in lst.segs:
        if isinstance(sg, Single):
            c, v = run_one(st, sg.obj)
            if c is True:
                out.append(Single(v))
            elif c is False:
                continue
            else:
                out.append(Many(Ite(c, 1, 0), (lambda s1, v=v: v), False,
                                'opt'))
        else:
            if gen.ifs:
                n = fresh_int('flen')
                st.assume(And(n >= 0, n <= zint(sg.ln)))
            else:
                n = sg.ln
            env_snapshot = st.env

            def mk(s1, sg=sg, env_snapshot=env_snapshot):
                e = sg.mk(s1)
                # replay on a scratch state sharing s1's assumptions
                scratch = State(ex)
                scratch.env = dict(env_snapshot)
                scratch.ghost = dict(s1.ghost) if hasattr(s1, 'ghost') \
                    else {}
                scratch.pc = list(s1.pc)
                npc = len(scratch.pc)
                c, v = run_one(scratch, e)
                for extra in scratch.pc[npc:]:
                    s1.assume(extra)
                s1.assume(c)
                return v
            fresh = _elt_is_fresh(node.elt)
            out.append(Many(n, mk, fresh, 'comp@%d' % line))
            # the element expression is evaluated lazily per instance; run
            # it once on a generic element now so that its obligations
            # (safety, callee requires) are always generated
            g = st.clone()
            g.assume(zint(sg.ln) > 0)
            try:
                mk(g)
            except Unsupported:
                raise
    res = TokList(out)
    # int results -> int list is not needed by the code base
    yield st, res


def _elt_is_fresh(elt):
    """copy.copy(x) / constructor call / local function returning a copy"""
    if isinstance(elt, ast.Call):
        f = elt.func
        if isinstance(f, ast.Attribute) and f.attr == 'copy' and \
                isinstance(f.value, ast.Name) and f.value.id == 'copy':
            return True
    return False


def _names(t):
    if isinstance(t, ast.Name):
        return [t.id]
    if isinstance(t, (ast.Tuple, ast.List)):
        r = []
        for e in t.elts:
            r += _names(e)
        return r
    return []
