"""Alpha-normalisation of local names.

Contracts (loop invariants, body contracts, ghost clauses) name parameters and
local variables of the real functions.  A commit that only *renames* locals or
parameters of a function leaves its behaviour untouched, but would leave the
contract without its vocabulary.  This module recovers the vocabulary
mechanically, on every run, from the current source:

  * `contracts/refnames.json` (written by tools/mkrefnames.py from the tree
    the contracts were written against) holds, per top-level function /
    method, a hash of its AST with every occurrence of a *local* name blanked
    and the list of those names in depth-first order;
  * if the current AST of the function has the same blanked hash, the two
    occurrence lists are aligned position by position; this gives, per
    binding (scope, name) of the current code, the name it had in the
    reference.  Bindings with contradictory answers are left alone;
  * the renaming is applied to the AST in memory and then *checked*: names
    bound in one scope stay pairwise distinct, and every name occurrence of
    the function (local or not) resolves to the same scope as before -- i.e.
    it is an alpha-conversion, which preserves the meaning of the function.
    If the check fails the function is left exactly as it is.

Scopes are function definitions, lambdas and comprehensions; bindings are
parameters, assigned names, loop / with / except targets, nested function
names; `global` names are not local.  Keyword names at call sites are not
names of the caller; a renamed parameter is recorded in `node._param_alias`
so that keyword calls still bind.
"""
import ast
import copy
import hashlib
import json
import os

REF = os.path.join(os.path.dirname(os.path.dirname(os.path.abspath(__file__))),
                   'contracts', 'refnames.json')
_ref = None
_SCOPES = (ast.FunctionDef, ast.AsyncFunctionDef, ast.Lambda, ast.ListComp,
           ast.SetComp, ast.DictComp, ast.GeneratorExp)


def ref():
    global _ref
    if _ref is None:
        try:
            with open(REF) as f:
                _ref = json.load(f)
        except OSError:
            _ref = {}
    return _ref


def _get(node, attr):
    if isinstance(attr, tuple):
        return getattr(node, attr[0])[attr[1]]
    return getattr(node, attr)


def _set(node, attr, v):
    if isinstance(attr, tuple):
        getattr(node, attr[0])[attr[1]] = v
    else:
        setattr(node, attr, v)


def resolve(fn):
    """every name occurrence of the unit in depth-first order:
    (node, attribute, index of the scope that binds it or None);
    the names bound per scope; the scope nodes"""
    scopes = []         # index -> set of bound names
    nodes = []
    parent = {}
    occ = []            # [node, attr, scope index of the occurrence]

    def scan(scope, up):
        idx = len(scopes)
        b, glob = set(), set()
        scopes.append(b)
        nodes.append(scope)
        parent[idx] = up

        def walk(n):
            for c in ast.iter_child_nodes(n):
                visit(c)

        def visit(c):
            if isinstance(c, ast.Global):
                glob.update(c.names)
                return
            if isinstance(c, ast.Nonlocal):
                for i, x in enumerate(c.names):
                    occ.append([c, ('names', i), idx])
                glob.update(c.names)    # bound further up
                return
            if isinstance(c, (ast.FunctionDef, ast.AsyncFunctionDef)):
                b.add(c.name)
                occ.append([c, 'name', idx])
                for d in c.decorator_list + c.args.defaults + \
                        [x for x in c.args.kw_defaults if x is not None]:
                    visit(d)
                scan(c, idx)
                return
            if isinstance(c, _SCOPES):
                if isinstance(c, ast.Lambda):
                    for d in c.args.defaults + \
                            [x for x in c.args.kw_defaults if x is not None]:
                        visit(d)
                scan(c, idx)
                return
            if isinstance(c, ast.Name):
                if isinstance(c.ctx, (ast.Store, ast.Del)):
                    b.add(c.id)
                occ.append([c, 'id', idx])
            elif isinstance(c, ast.ExceptHandler) and c.name:
                b.add(c.name)
                occ.append([c, 'name', idx])
            walk(c)

        if isinstance(scope, (ast.FunctionDef, ast.AsyncFunctionDef,
                              ast.Lambda)):
            a = scope.args
            for p in a.posonlyargs + a.args + \
                    [x for x in (a.vararg,) if x is not None] + \
                    a.kwonlyargs + [x for x in (a.kwarg,) if x is not None]:
                b.add(p.arg)
                occ.append([p, 'arg', idx])
            body = scope.body if isinstance(scope.body, list) \
                else [scope.body]
            for st in body:
                visit(st)
        else:
            walk(scope)
        b -= glob

    scan(fn, None)
    out = []
    for node, attr, idx in occ:
        name = _get(node, attr)
        sc = idx
        while sc is not None and name not in scopes[sc]:
            sc = parent[sc]
        out.append((node, attr, sc))
    return out, scopes, nodes


_BODIES = ('body', 'orelse', 'finalbody', 'handlers')


def itemise(fn):
    """the unit cut into items: every statement without the statement lists
    nested in it (an `if` is its test, a `for` its target and iterator, a
    nested def its signature), in source order.  Per item: the dump of the
    item with local name occurrences blanked, and those occurrences."""
    occ, scopes, nodes = resolve(fn)
    local = {(id(n), str(a)): sc for n, a, sc in occ if sc is not None}
    items = []

    def header(st):
        found = []

        def walk(n):
            # depth-first as in resolve(); nested statement lists are cut
            if isinstance(n, ast.Nonlocal):
                for i in range(len(n.names)):
                    if (id(n), str(('names', i))) in local:
                        found.append((n, ('names', i)))
            for attr in ('name', 'id', 'arg'):
                if (id(n), attr) in local:
                    found.append((n, attr))
            for f, v in ast.iter_fields(n):
                if n is st and f in _BODIES:
                    continue
                if isinstance(v, list):
                    for x in v:
                        if isinstance(x, ast.AST):
                            walk(x)
                elif isinstance(v, ast.AST):
                    walk(v)
        walk(st)
        names = [_get(n, a) for n, a in found]
        saved = {}
        for f in _BODIES:
            if isinstance(getattr(st, f, None), list) and \
                    not isinstance(st, ast.Lambda):
                saved[f] = getattr(st, f)
                setattr(st, f, [])
        for n, a in found:
            _set(n, a, '_')
        own = None
        if isinstance(st, ast.FunctionDef) and st is fn:
            own, st.name = st.name, '_'
        dump = type(st).__name__ + ':' + ast.dump(
            st, annotate_fields=False, include_attributes=False)
        if own is not None:
            st.name = own
        for (n, a), v in zip(found, names):
            _set(n, a, v)
        for f, v in saved.items():
            setattr(st, f, v)
        items.append([dump, [(n, a, local[(id(n), str(a))])
                             for n, a in found], None, st])

    def block(stmts, owner):
        # owner = [index of the item of the enclosing def, loops seen so far]
        for st in stmts:
            header(st)
            if isinstance(st, (ast.For, ast.While)):
                # the loop ordinal contracts use: loops of one function in
                # source order, nested defs not counted
                items[-1][2] = (owner[0], owner[1], st)
                owner[1] += 1
            inner = [len(items) - 1, 0] if isinstance(
                st, (ast.FunctionDef, ast.AsyncFunctionDef)) else owner
            for f in _BODIES:
                v = getattr(st, f, None)
                if isinstance(v, list) and not isinstance(st, ast.Lambda):
                    if f == 'handlers':
                        for hd in v:
                            header(hd)
                            block(hd.body, inner)
                    else:
                        block(v, inner)
    header(fn)
    block(fn.body, [0, 0])
    return items, occ, scopes, nodes


def skeleton(fn):
    """reference data of a unit: per item (hash of the blanked dump, names)"""
    items = itemise(fn)[0]
    return [_ref_item(it) for it in items]


def _ref_item(it):
    d, oc, loop = it[:3]
    r = [hashlib.sha1(d.encode()).hexdigest()[:16],
         [_get(n, a) for n, a, sc in oc]]
    if loop is not None:
        r.append([loop[0], loop[1]])    # [item of the def, loop ordinal]
    return r


def units(tree, modname):
    """(qualified name, FunctionDef) of every top-level function / method"""
    for n in tree.body:
        if isinstance(n, ast.FunctionDef):
            yield modname + '.' + n.name, n
        elif isinstance(n, ast.ClassDef):
            for m in n.body:
                if isinstance(m, ast.FunctionDef):
                    yield modname + '.' + n.name + '.' + m.name, m


def normalise(tree, modname, log=None):
    """rename locals of every unit of `tree` back to the reference names
    as far as items of the unit are items of the reference"""
    import difflib
    R = ref()
    for q, fn in units(tree, modname):
        r = R.get(q)
        if r is None:
            continue
        items, occ, scopes, nodes = itemise(fn)
        cur = [_ref_item(it) for it in items]
        if cur == r:
            continue
        want = {}
        sm = difflib.SequenceMatcher(None, [x[0] for x in cur],
                                     [x[0] for x in r], autojunk=False)
        image = {}
        for i, j, n in sm.get_matching_blocks():
            for k in range(n):
                image[i + k] = j + k
        image[0] = 0        # the unit itself
        # loops: a loop of the current code is the loop <ordinal> of the
        # contract only if its header is the header of that loop in the
        # reference and it sits in the same function; any other loop is
        # one the contract does not know
        def loop_shape(its):
            # per def (in order of appearance) the number of its loops
            shape = {}
            for x in its:
                lp = x[2] if len(x) > 2 else None
                if lp is not None:
                    shape[lp[0]] = shape.get(lp[0], 0) + 1
            return [shape[k] for k in sorted(shape)]
        same_loops = loop_shape(cur) == loop_shape(r)
        for i, it in enumerate(items):
            if it[2] is None or same_loops:
                # same loops per function as in the reference: the k-th loop
                # is the k-th loop (whatever was edited in its header)
                continue
            owner, _, node = it[2]
            j = image.get(i)
            if j is not None and len(r[j]) > 2 and \
                    image.get(owner) == r[j][2][0]:
                node._ref_ordinal = r[j][2][1]
            else:
                node._ref_ordinal = None
        # a nested function whose header is the header of a nested function
        # of the reference is that function, whatever it is called now
        # (contracts are keyed by the reference name; used when the renaming
        # below cannot restore the name, e.g. two functions that shared one
        # name in the reference)
        for i, it in enumerate(items):
            st_ = it[3]
            j = image.get(i)
            if i and j and isinstance(st_, ast.FunctionDef) and it[1] and \
                    it[1][0][0] is st_ and r[j][1]:
                st_._ref_name = r[j][1][0]
        for i, j, n in sm.get_matching_blocks():
            for k in range(n):
                oc = items[i + k][1]
                rn = r[j + k][1]
                if len(oc) != len(rn):
                    continue
                for (node, attr, sc), w in zip(oc, rn):
                    d = want.setdefault((sc, _get(node, attr)), {})
                    d[w] = d.get(w, 0) + 1
        local = [(n, a, sc) for n, a, sc in occ if sc is not None]
        # the reference name of a binding: the one most of its aligned
        # occurrences had (a heuristic; what is applied is checked below)
        m = {}
        for k, d in want.items():
            best = sorted(d.items(), key=lambda x: -x[1])
            if len(best) == 1 or best[0][1] > best[1][1]:
                m[k] = best[0][0]
        m = {k: v for k, v in m.items() if k[1] != v}
        # names bound in one scope must stay pairwise distinct
        while True:
            bad = set()
            for sc in {k[0] for k in m}:
                newname = {k: m.get((sc, k), k) for k in scopes[sc]}
                cnt = {}
                for k, v in newname.items():
                    cnt.setdefault(v, []).append(k)
                for v, ks in cnt.items():
                    if len(ks) > 1:
                        bad |= {(sc, k) for k in ks if (sc, k) in m}
            if not bad:
                break
            for k in bad:
                del m[k]
        while m:
            before = [_get(n, a) for n, a, sc in occ]
            new = [m.get((sc, _get(n, a)), _get(n, a)) if sc is not None
                   else _get(n, a) for n, a, sc in occ]
            for (node, attr, sc), v in zip(occ, new):
                _set(node, attr, v)
            occ2, scopes2, _ = resolve(fn)
            ok = [x[2] for x in occ2] == [x[2] for x in occ] and all(
                len(scopes2[i]) == len(scopes[i])
                for i in range(len(scopes)))
            if ok:
                break
            # not an alpha-conversion: undo, drop the renamings of the
            # scopes involved, try again with fewer
            for (node, attr, sc), v in zip(occ, before):
                _set(node, attr, v)
            badsc = {i for i in range(len(scopes))
                     if len(scopes2[i]) != len(scopes[i])}
            badsc |= {x[2] for x, y in zip(occ, occ2) if x[2] != y[2]}
            badsc |= {y[2] for x, y in zip(occ, occ2) if x[2] != y[2]}
            m2 = {k: v for k, v in m.items() if k[0] not in badsc}
            m = m2 if len(m2) < len(m) else {}
        if not m:
            continue
        # keyword calls use the current name of a parameter
        for (sc, k), v in m.items():
            d = nodes[sc]
            if isinstance(d, (ast.FunctionDef, ast.Lambda)):
                a = d.args
                if v in [p.arg for p in a.posonlyargs + a.args +
                         a.kwonlyargs]:
                    if not hasattr(d, '_param_alias'):
                        d._param_alias = {}
                    d._param_alias[k] = v
        if log is not None:
            log.append((q, {'%d:%s' % k: v for k, v in m.items()}))
