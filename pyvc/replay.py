"""Counterexample replay: concretise the solver's model into real Python
arguments, call the real function of the tree under check, and evaluate the
same contract (ensures / result shape) on the concrete outcome by embedding
the concrete values back as constants."""
import importlib
import sys
import traceback
import z3
from . import sym, solve, front
from .sym import SSeq, Obj, Opt, Opaque, TokList, Single, Many, zint
from .engine import State, PyDict, OptVal


def real_module(name):
    root = front.REPO
    if root not in sys.path:
        sys.path.insert(0, root)
    return importlib.import_module(name)


def real_object(qual):
    """module attribute path of a top-level function or class"""
    parts = qual.split('.')
    for i in range(len(parts), 0, -1):
        try:
            mod = real_module('.'.join(parts[:i]))
        except ImportError:
            continue
        o = mod
        for p in parts[i:]:
            o = getattr(o, p)
        return o
    raise ImportError(qual)


class Concretizer:
    def __init__(self, ex, model):
        self.ex = ex
        self.m = model
        self.tags = {v: k for k, v in ex.class_tags.items()}
        self.memo = {}

    def val(self, v):
        m = self.m
        if v is None or isinstance(v, (bool, int, str)):
            return v
        if isinstance(v, z3.BoolRef):
            return solve.model_eval_bool(m, v)
        if isinstance(v, z3.ArithRef):
            return solve.model_eval_int(m, v)
        if isinstance(v, SSeq):
            return solve.model_eval_seq(m, v)
        if isinstance(v, tuple):
            return tuple(self.val(x) for x in v)
        if isinstance(v, Opt):
            if solve.model_eval_bool(m, v.isnone):
                return None
            return self.val(v.obj)
        if isinstance(v, OptVal):
            if solve.model_eval_bool(m, v.isnone):
                return None
            return self.val(v.val)
        if isinstance(v, Obj):
            return self.obj(v)
        if isinstance(v, TokList):
            out = []
            for sg in v.segs:
                if isinstance(sg, Single):
                    out.append(self.val(sg.obj))
                else:
                    n = max(0, min(solve.model_eval_int(m, sg.ln), 8))
                    inst = list(getattr(sg.mk, 'instances', []))
                    for k in range(n):
                        if inst:
                            out.append(self.val(inst[min(k, len(inst) - 1)]
                                                if k < len(inst)
                                                else inst[-1]))
                        else:
                            raise ValueError('no instance of list element')
            return out
        if isinstance(v, PyDict):
            return {k: self.val(x) for k, x in v.items.items()}
        raise ValueError('cannot concretise %r' % (v,))

    def obj(self, o):
        if o.oid in self.memo:
            return self.memo[o.oid]
        cls = o.cls
        if not isinstance(cls, str):
            tag = solve.model_eval_int(self.m, cls)
            cls = self.tags.get(tag)
            if cls is None:
                raise ValueError('unknown class tag %r' % tag)
        try:
            rc = real_object(cls)
            inst = object.__new__(rc)
        except Exception:
            class _Anon:
                pass
            inst = _Anon()
        self.memo[o.oid] = inst
        for k, fv in o.fields.items():
            try:
                setattr(inst, k, self.val(fv))
            except ValueError:
                pass
        return inst


def embed(ex, v, memo=None):
    """concrete python value -> engine value (constants)"""
    memo = {} if memo is None else memo
    if v is None or isinstance(v, (bool, int, str)):
        return v
    if isinstance(v, tuple):
        return tuple(embed(ex, x, memo) for x in v)
    if isinstance(v, list):
        if all(isinstance(x, int) and not isinstance(x, bool) for x in v):
            return sym.lift_ilist(v)
        return TokList([Single(embed(ex, x, memo)) for x in v])
    if isinstance(v, dict):
        d = PyDict('embedded')
        for k, x in v.items():
            d.items[k] = embed(ex, x, memo)
        return d
    if id(v) in memo:
        return memo[id(v)]
    cls = type(v)
    q = cls.__module__ + '.' + cls.__qualname__
    o = Obj(q if q in ex.class_tags else q, {})
    memo[id(v)] = o
    for k, x in vars(v).items():
        try:
            o.fields[k] = embed(ex, x, memo)
        except Exception:
            pass
    return o


def closed_valid(pc, goal):
    s = z3.Solver()
    s.set(timeout=5000)
    for p in pc:
        s.add(sym.zbool(p))
    s.add(z3.Not(sym.zbool(goal)))
    r = s.check()
    if r == z3.unsat:
        return True
    if r == z3.sat:
        return False
    return None


def short(v, n=300):
    r = repr(v)
    return r if len(r) <= n else r[:n] + '...'


def describe(v):
    if isinstance(v, (list, tuple)):
        return [describe(x) for x in v]
    if isinstance(v, (int, str, bool)) or v is None:
        return v
    if isinstance(v, dict):
        return {str(k): describe(x) for k, x in v.items()}
    if isinstance(v, (set, frozenset)):
        return sorted(describe(x) for x in v)
    if not hasattr(v, '__dict__'):
        return repr(v)[:200]
    d = {'$class': type(v).__name__}
    for k, x in vars(v).items():
        if isinstance(x, (list, dict, set)):
            d[k] = describe(x)
            continue
        if isinstance(x, (int, str, bool)) or x is None:
            d[k] = x
    return d


def _try_one(ex, c, qual, names, conc, args0, cz, call, ob_name=None):
    from . import engine
    import copy as _copy
    import io
    import contextlib
    info = {'input': {n: describe(v) for n, v in conc.items()}}
    fi = ex.repo.funcs[qual]
    if getattr(c, 'native_callable', None) is not None:
        f = c.native_callable(ex)
    elif fi.cls:
        selfv = conc[names[0]]
        f = getattr(type(selfv), fi.node.name)
    else:
        f = real_object(qual)
    inputs = [conc[n] for n in names]
    snapshot = _copy.deepcopy(inputs)
    try:
        err = io.StringIO()
        with contextlib.redirect_stderr(err):
            result = call(f, inputs)
    except SystemExit as e:
        info['observed'] = 'SystemExit(%r)' % (e.code,)
        info['status'] = 'reproduced' if not c.no_return \
            else 'not-reproduced'
        return info
    except Exception as e:
        info['observed'] = 'exception ' + repr(e)
        info['trace'] = traceback.format_exc()[-800:]
        # an exception reproduces a run-time-safety obligation; for any
        # other clause it says nothing (the concretised objects carry only
        # the fields the contract speaks about)
        if ob_name is None or ':safe:' in ob_name:
            info['status'] = 'reproduced'
        else:
            info['status'] = 'not-reproduced'
            info['why'] = ('the real function raised on the concretised '
                           'input; the failed clause is not about that')
        return info
    info['observed'] = describe(result)
    # evaluate the contract on the concrete outcome
    ex2 = engine.Exec(ex.repo, ex.contracts)
    ex2.cur_func = qual
    st = State(ex2)
    memo = {}
    if getattr(c, 'native_only', False):
        why = c.native_post(dict(zip(names, snapshot),
                                 **{'$after': dict(zip(names, inputs))}),
                            result)
        info['status'] = 'reproduced' if why else 'not-reproduced'
        if why:
            info['failed_clauses'] = ['spec-function: ' + str(why)[:300]]
        return info
    # entry state (snapshot taken before the call): requires and `old`
    A = {n: embed(ex2, v, memo) for n, v in zip(names, snapshot)}
    for k, v in args0.items():
        if k not in A:
            try:
                A[k] = embed(ex2, cz.val(v), memo)
            except Exception:
                A[k] = v
    if c.ghosts:
        # ghosts without a model value stay universally quantified
        for k, v in c.ghosts(ex2, st, 'proof', {}).items():
            A.setdefault(k, v)
    # ghost texts (`src`) are used as sequences by the contract clauses
    for k in list(A):
        if k not in names and isinstance(A[k], str):
            A[k] = sym.lift_str(A[k])
    st.ghost.update({k: v for k, v in A.items() if k not in names})
    A2 = dict(A)
    A2['$ex'], A2['$st'] = ex2, st
    for lab, fn in c.requires:
        ok = closed_valid([], fn(A2))
        if ok is False:
            info['status'] = 'not-reproduced'
            info['why'] = 'concretised input violates requires:' + lab
            return info
    if c.olds:
        try:
            A['old'] = c.olds(A2)
        except Exception:      # noqa
            pass
    # exit state: the (possibly mutated) argument objects after the call
    memo2 = {}
    for n, v in zip(names, inputs):
        if not isinstance(v, (int, str, bool, float, type(None))):
            A[n] = embed(ex2, v, memo2)
    c.check_post(ex2, st, A, embed(ex2, result, memo2))
    failed = []
    for ob in ex2.obligations:
        ok = closed_valid(ob.pc, ob.goal)
        if ok is False:
            failed.append(ob.name)
    native = getattr(c, 'native_post', None)
    if native is not None and not failed:
        # executable form of the contract's functional spec (the loop body
        # contract unrolled): the property's sentence as a spec function
        why = native(dict(zip(names, snapshot),
                          **{'$after': dict(zip(names, inputs))}), result)
        if why:
            failed.append('spec-function: ' + str(why)[:200])
    if failed:
        info['status'] = 'reproduced'
        info['failed_clauses'] = failed[:6]
    else:
        info['status'] = 'not-reproduced'
    return info


def replay_function(ex, c, qual, model, args0, caller=None, ob_name=None):
    """-> dict(status=reproduced|not-reproduced|no-replay, input, observed)"""
    from . import engine
    info = {'status': 'no-replay', 'function': qual}
    try:
        cz = Concretizer(ex, model)
        fi = ex.repo.funcs[qual]
        names = [a.arg for a in fi.node.args.args]
        conc = {}
        for n in names:
            if n not in args0:
                raise ValueError('no value for ' + n)
            conc[n] = cz.val(args0[n])
        info['input'] = {n: describe(v) for n, v in conc.items()}
        if '<locals>' in qual:
            raise ValueError('closure')
        if fi.cls:
            selfv = conc[names[0]]
            f = getattr(type(selfv), fi.node.name)
        else:
            f = real_object(qual)
        call = caller or (lambda f, a: f(*a))
        cands = [conc]
        gen = getattr(c, 'replay_candidates', None)
        if gen is not None:
            cands = list(gen(conc)) or [conc]
        last = None
        for cand in cands[:40]:
            last = _try_one(ex, c, qual, names, cand, args0, cz, call,
                            ob_name)
            if last['status'] == 'reproduced':
                break
        info.update(last)
    except Exception as e:
        info['status'] = 'no-replay'
        info['why'] = repr(e)[:300]
    return info


def search_function(ex, c, qual, args0, tries=400, seed=0):
    """bounded native search for a failing input, used when the solver
    answers `unknown`: inputs come from the contract's sampler, every
    candidate is run on the real function and judged by the same contract.
    Sound for refutation only (a found input is a genuine failing input)."""
    import random
    sampler = getattr(c, 'sampler', None)
    if sampler is None:
        return {'status': 'no-replay', 'why': 'no sampler for ' + qual}
    rng = random.Random(seed)
    fi = ex.repo.funcs[qual]
    names = [a.arg for a in fi.node.args.args]
    cz = Concretizer(ex, None)
    last = {'status': 'not-reproduced'}
    n = 0
    for _ in range(tries):
        conc = sampler(rng)
        n += 1
        try:
            last = _try_one(ex, c, qual, names, conc, {}, cz,
                            lambda f, a: f(*a))
        except Exception as e:
            last = {'status': 'no-replay', 'why': repr(e)[:200]}
            continue
        if last.get('status') == 'reproduced':
            last['found_by'] = 'bounded native search, %d candidates' % n
            return last
    last['searched'] = n
    return last
