"""Contract table and specification combinators.

A contract (FContract) for function f consists of
   params    : name -> Spec        shape + per-value requirement of each
                                   parameter (make for the proof of f,
                                   check at every call site)
   requires  : [(label, fn(A)->formula)]     relations between parameters
   result    : fn(A)->Spec                   shape of the result
   ensures   : [(label, fn(A, r)->formula)]  relation result / parameters
   post_objs : [(label, fn(A)->value, Spec)] state of mutable argument
                                   objects after the call (checked at return,
                                   re-made at call sites = havoc + assume)
   loops     : ordinal -> LoopSpec
where A is the dict of parameter values at entry (plus ghosts).

The same object gives both directions:
   proof of f :  setup() makes params and assumes requires; check_post()
                 emits the ensures / result-shape / post_objs obligations;
   call site  :  apply() emits params-check + requires obligations, then
                 havocs post_objs, makes a fresh result and assumes ensures.
"""
import z3
from . import sym
from .sym import (SSeq, Obj, Opt, Opaque, TokList, Single, Many, Unsupported,
                  EngineError, And, Or, Not, Implies, Ite, zint, zbool,
                  is_int, is_bool, is_str, fresh_int, fresh_bool, fresh_seq,
                  lift_str, lift_ilist, forall)
from .engine import LoopSpec, Env, PyDict, OptVal, StrSet


# ------------------------------------------------------------------- specs

class Spec:
    def make(self, ex, st):
        raise NotImplementedError

    def check(self, ex, st, v, label, line=0):
        raise NotImplementedError


class AnyS(Spec):
    """value passed through untouched; make gives an opaque value"""
    def __init__(self, tag='any', truthy=None):
        self.tag = tag
        self.truthy = truthy

    def make(self, ex, st):
        if self.truthy is not None:
            return Opaque(self.tag, {'truth': self.truthy})
        return Opaque(self.tag)

    def check(self, ex, st, v, label, line=0):
        pass


class ConstS(Spec):
    def __init__(self, v):
        self.v = v

    def make(self, ex, st):
        return self.v

    def check(self, ex, st, v, label, line=0):
        if v is self.v:
            return
        ex.prove(st, label, ex.equal(v, self.v, st, line), line)


class IntS(Spec):
    def __init__(self, pred=None, name='n'):
        self.pred = pred
        self.name = name

    def make(self, ex, st):
        v = fresh_int(self.name)
        if self.pred:
            st.assume(self.pred(v))
        return v

    def check(self, ex, st, v, label, line=0):
        if not is_int(v):
            if is_bool(v):
                v = zint(v)
            else:
                raise Unsupported('%s: expected int, got %r' % (label, v))
        if self.pred:
            ex.prove(st, label, self.pred(v), line)


class BoolS(Spec):
    def __init__(self, name='b'):
        self.name = name

    def make(self, ex, st):
        return fresh_bool(self.name)

    def check(self, ex, st, v, label, line=0):
        if not is_bool(v):
            raise Unsupported('%s: expected bool, got %r' % (label, v))


class StrS(Spec):
    def __init__(self, pred=None, name='s', kind='str'):
        self.pred = pred
        self.name = name
        self.kind = kind

    def make(self, ex, st):
        v = fresh_seq(self.kind, self.name, st.assume)
        if self.pred:
            st.assume(self.pred(v))
        return v

    def check(self, ex, st, v, label, line=0):
        if self.kind == 'str':
            if not is_str(v):
                raise Unsupported('%s: expected str, got %r' % (label, v))
            v = lift_str(v)
        else:
            if isinstance(v, TokList) and not v.segs:
                v = lift_ilist([])
            if not isinstance(v, SSeq):
                raise Unsupported('%s: expected int list, got %r' % (label,
                                                                      v))
        if self.pred:
            ex.prove(st, label, self.pred(v), line)


def IListS(pred=None, name='l'):
    return StrS(pred, name, 'ilist')


class OptS(Spec):
    """None or a value of the inner spec (non-object values)"""
    def __init__(self, inner):
        self.inner = inner

    def make(self, ex, st):
        return OptVal(fresh_bool('isnone'), self.inner.make(ex, st))

    def check(self, ex, st, v, label, line=0):
        if v is None:
            return
        if isinstance(v, OptVal):
            g = st.clone()
            g.assume(Not(v.isnone))
            self.inner.check(ex, g, v.val, label, line)
            return
        self.inner.check(ex, st, v, label, line)


class ObjS(Spec):
    """object of a concrete class with specified fields"""
    unwrap_opt = True

    def __init__(self, cls, fields, lazy=None, meta=None, pred=None):
        self.cls = cls
        self.fields = fields      # name -> Spec
        self.lazy = lazy
        self.meta = meta or {}
        self.pred = pred          # fn(obj) -> formula relating the fields

    def make(self, ex, st):
        o = Obj(self.cls, {}, fresh=False)
        for k, sp in self.fields.items():
            o.fields[k] = sp.make(ex, st)
        if self.lazy:
            o.meta['lazy'] = self.lazy
        o.meta.update(self.meta)
        if self.pred:
            st.assume(self.pred(o))
        return o

    def check(self, ex, st, v, label, line=0):
        if isinstance(v, Opt):
            ex.prove(st, label + ':not-none', Not(v.isnone), line)
            v = v.obj
        if not isinstance(v, Obj):
            raise Unsupported('%s: expected object %s, got %r' % (
                label, self.cls, v))
        if isinstance(v.cls, str):
            if v.cls != self.cls and not (
                    v.cls in ex.repo.classes and self.cls in ex.repo.classes
                    and ex.repo.is_subclass(v.cls, self.cls)):
                ex.prove(st, label + ':class', False, line)
        else:
            ex.prove(st, label + ':class',
                     zint(v.cls) == ex.tag(self.cls), line)
        for k, sp in self.fields.items():
            if k not in v.fields:
                lz = v.meta.get('lazy')
                val = lz(ex, st, v, k) if lz else NotImplemented
                if val is NotImplemented:
                    raise Unsupported('%s: field %s missing on %r' % (
                        label, k, v))
                v.fields[k] = val
            sp.check(ex, st, v.fields[k], label + '.' + k, line)
        if self.pred:
            ex.prove(st, label + ':pred', self.pred(v), line)


class TupleS(Spec):
    def __init__(self, *specs):
        self.specs = specs

    def make(self, ex, st):
        return tuple(s.make(ex, st) for s in self.specs)

    def check(self, ex, st, v, label, line=0):
        if not isinstance(v, tuple) or len(v) != len(self.specs):
            raise Unsupported('%s: expected %d-tuple, got %r' % (
                label, len(self.specs), v))
        for i, (s, x) in enumerate(zip(self.specs, v)):
            s.check(ex, st, x, '%s[%d]' % (label, i), line)


class ListS(Spec):
    """summarised list: every element satisfies `elem` (a Spec);
    lenpred(len) constrains the length"""
    def __init__(self, elem, lenpred=None, name='lst', fresh=False,
                 indexed=None):
        self.elem = elem
        self.lenpred = lenpred
        self.name = name
        self.fresh = fresh
        self.indexed = indexed    # fn(abs_index, elem) -> formula

    def make(self, ex, st):
        n = fresh_int(self.name + '_len')
        st.assume(n >= 0)
        if self.lenpred:
            st.assume(self.lenpred(n))
        elem = self.elem

        def mk(s1):
            e = elem.make(ex, s1)
            mk.instances.append(e)
            return e
        mk.instances = []
        mk.spec = elem
        ix = None
        if self.indexed:
            fn = self.indexed
            ix = lambda s1, i, e: s1.assume(fn(i, e))      # noqa: E731
        return TokList([Many(n, mk, self.fresh, self.name, ix)])

    def check(self, ex, st, v, label, line=0):
        if isinstance(v, SSeq) and isinstance(v.ln, int) and v.ln == 0:
            v = TokList([])
        if isinstance(v, tuple) and v and v[0] == '$reversed':
            from .builtins import list_reversed
            v = list_reversed(ex, st, v[1], line)
        if hasattr(v, 'as_list'):
            v = v.as_list(ex, st, label, line)
        if isinstance(v, OptVal):
            ex.prove(st, label + ':not-none', Not(v.isnone), line)
            v = v.val
        if not isinstance(v, TokList):
            raise Unsupported('%s: expected list, got %r' % (label, v))
        if self.lenpred:
            ex.prove(st, label + ':len', self.lenpred(v.length()), line)
        off = 0
        for k, sg in enumerate(v.segs):
            if isinstance(sg, Many):
                # memoised first / last elements may have been mutated in
                # place: they are checked like explicit elements
                for nm, e in (('first', sg.first), ('last', sg.last)):
                    if e is not None:
                        g = st.clone()
                        g.assume(zint(sg.ln) > 0)
                        from .builtins import _find_obj
                        e2 = _find_obj(g, e.oid) if isinstance(e, Obj) \
                            else e
                        self.elem.check(ex, g, e2 if e2 is not None else e,
                                        '%s:seg%d:%s' % (label, k, nm), line)
            if isinstance(sg, Single):
                self.elem.check(ex, st, sg.obj, '%s:e%d' % (label, k), line)
                if self.indexed:
                    ex.prove(st, '%s:e%d:indexed' % (label, k),
                             self.indexed(off, sg.obj), line)
                off = off + 1
            else:
                if getattr(sg.mk, 'spec', None) is self.elem and \
                        not self.indexed:
                    off = off + sg.ln
                    continue
                g = st.clone()
                g.assume(zint(sg.ln) > 0)
                e = sg.mk(g)
                self.elem.check(ex, g, e, '%s:seg%d' % (label, k), line)
                if self.indexed:
                    j = fresh_int('j')
                    g.assume(And(zint(off) <= j, j < zint(off) + zint(sg.ln)))
                    if sg.indexed:
                        sg.indexed(g, j, e)
                    ex.prove(g, '%s:seg%d:indexed' % (label, k),
                             self.indexed(j, e), line)
                off = off + sg.ln


class DictS(Spec):
    """abstract dictionary str -> values of `val`; membership through an
    uninterpreted predicate; known = keys known to be present"""
    def __init__(self, val, name='d', known=(), total=False):
        self.val = val
        self.name = name
        self.known = known
        self.total = total

    def make(self, ex, st):
        d = PyDict(self.name)
        ss = StrSet(self.name + str(sym.uid()), known=self.known)
        d.has = (lambda ex_, st_, k: True) if self.total else \
            (lambda ex_, st_, k: ss.member(ex_, st_, k))
        val = self.val
        cache = {}

        def mk(ex_, st_, k):
            # same key term -> same value
            if isinstance(k, tuple):
                ck = ('t',) + tuple((lift_str(e).arr.sexpr(),
                                     str(lift_str(e).ln)) if is_str(e)
                                    else repr(e) for e in k)
            elif k is None or isinstance(k, str):
                ck = ('c', k)
            else:
                ck = ('s', k.arr.sexpr(), str(k.ln))
            if ck not in cache:
                cache[ck] = val.make(ex_, st_)
            return cache[ck]
        d.default_mk = mk
        d.strset = ss
        return d

    def check(self, ex, st, v, label, line=0):
        if not isinstance(v, PyDict):
            raise Unsupported('%s: expected dict, got %r' % (label, v))
        for k, x in v.items.items():
            self.val.check(ex, st, x, '%s[%r]' % (label, k), line)


# ---------------------------------------------------------------- contracts

class FContract:
    def __init__(self, qual, params, requires=(), result=None, ensures=(),
                 post_objs=(), ghosts=None, label=None, effects=None,
                 no_return=False, free=None, pure=False, olds=None,
                 assumed_result=None, assumed_note='', returns_param=None,
                 assumed_ensures=(), proof_ensures=()):
        self.qual = qual
        self.params = params            # ordered dict name -> Spec | None
        self.requires = list(requires)
        self.result = result
        self.ensures = list(ensures)
        self.post_objs = list(post_objs)
        self.ghosts = ghosts            # fn(ex, st, A) adds ghost entries
        self.loops = {}
        self.label = label
        self.effects = effects          # fn(ex, st, A) call-site side effect
        self.no_return = no_return
        self.free = free                # closure variables: name -> Spec
        self.pure = pure
        self.olds = olds                # fn(A) -> dict of entry values
        # result spec used at call sites only: stronger than what is proved
        # for the function itself -- an explicit, listed assumption
        self.assumed_result = assumed_result
        self.assumed_note = assumed_note
        self.returns_param = returns_param   # function returns this argument
        self.assumed_ensures = list(assumed_ensures)   # call side only
        # proved for the body, NOT assumed at call sites (clauses over the
        # ghost history of the activation, e.g. 'called X exactly once')
        self.proof_ensures = list(proof_ensures)

    def loop(self, ordinal):
        ls = self.loops.get(ordinal)
        if ls is None:
            ls = self.loops[ordinal] = LoopSpec()
        return ls

    # -- proof side
    def _params(self, G):
        return self.params(G) if callable(self.params) else self.params

    def setup(self, ex, st):
        G = self.ghosts(ex, st, 'proof', {}) if self.ghosts else {}
        st.ghost.update(G)
        A = dict(G)
        A['$ex'], A['$st'] = ex, st
        for n, sp in self._params(G).items():
            A[n] = sp.make(ex, st)
        self.param_names = list(self._params(G))
        if self.free:
            for n, sp in (self.free(G) if callable(self.free)
                          else self.free).items():
                A[n] = sp.make(ex, st)
        for lab, fn in self.requires:
            st.assume(fn(A))
        if self.olds:
            A['old'] = self.olds(A)
        A.pop('$ex'), A.pop('$st')
        return A

    def check_post(self, ex, st, A, result):
        A = dict(A)
        A['$ex'], A['$st'] = ex, st
        A['$locals'] = st.env
        if self.no_return:
            ex.prove(st, 'post:does-not-return', False)
            return
        tr = '/'.join(st.trace[-4:])
        if self.returns_param is not None:
            want = A[self.returns_param]
            same = result is want or (
                isinstance(result, Obj) and isinstance(want, Obj) and
                result.oid == want.oid)
            ex.prove(st, 'post:returns-%s@%s' % (self.returns_param, tr),
                     bool(same))
        if self.result is not None:
            sp = self.result(A)
            sp.check(ex, st, result, 'post:result@' + tr)
        for lab, fn in self.ensures + self.proof_ensures:
            ex.prove(st, 'post:%s@%s' % (lab, tr), sym.fit(
                'postcondition ' + lab, lambda: fn(A, result)))
        for lab, get, sp in self.post_objs:
            sp = sp(A) if callable(sp) and not isinstance(sp, Spec) else sp
            sp.check(ex, st, get(A), 'post:%s@%s' % (lab, tr))

    # -- call side
    def apply(self, ex, st, vals, line):
        tag = self.qual.split('.')[-1]
        G = self.ghosts(ex, st, 'call', vals) if self.ghosts else {}
        A = dict(G)
        A.update(vals)
        A['$ex'], A['$st'] = ex, st
        P = self._params(G)
        if any(n not in A for n in P) and len(vals) == len(P):
            # the parameters were renamed in the code: the contract's names
            # are labels, binding is by position as in the call itself
            for n, v in zip(P, list(vals.values())):
                A[n] = v
        for n, sp in P.items():
            if n not in A:
                raise Unsupported('call of %s: the contract names a '
                                  'parameter %s the code does not have' % (
                                      self.qual, n))
            if isinstance(A[n], OptVal) and not isinstance(sp, (OptS, AnyS)):
                ex.prove(st, 'call:%s@%d:arg:%s:not-none' % (tag, line, n),
                         Not(A[n].isnone), line)
                A[n] = A[n].val
            sp.check(ex, st, A[n], 'call:%s@%d:arg:%s' % (tag, line, n), line)
            if isinstance(A[n], Opt) and getattr(sp, 'unwrap_opt', False):
                A[n] = A[n].obj
        for lab, fn in self.requires:
            ex.prove(st, 'call:%s@%d:requires:%s' % (tag, line, lab),
                     sym.fit('precondition ' + lab, lambda: fn(A)), line)
        if self.no_return:
            st.assume(False)
            yield st, None
            return
        if self.olds:
            A['old'] = self.olds(A)
        if self.effects:
            self.effects(ex, st, A)
        for lab, get, sp in self.post_objs:
            sp = sp(A) if callable(sp) and not isinstance(sp, Spec) else sp
            self._remake(ex, st, get, A, sp)
        r = None
        if self.returns_param is not None:
            r = A[self.returns_param]
        elif self.assumed_result is not None:
            r = self.assumed_result(A).make(ex, st)
            ex.used_assumptions.add(self.qual + ': ' + self.assumed_note)
        elif self.result is not None:
            r = self.result(A).make(ex, st)
        for lab, fn in self.ensures:
            st.assume(fn(A, r))
        for lab, fn in self.assumed_ensures:
            st.assume(fn(A, r))
            ex.used_assumptions.add('%s: %s' % (self.qual, lab))
        st.mut += 0 if self.pure else 1
        yield st, r

    def apply_ctor(self, ex, st, args, kw, line):
        """constructor call of a class under (assumed) contract: parameters
        are those of __init__ without self"""
        names = list(self._params({}).keys()) if not callable(self.params) \
            else self.ctor_names
        vals = dict(zip(names, args))
        vals.update(kw)
        for n, d in getattr(self, 'ctor_defaults', {}).items():
            vals.setdefault(n, d)
        yield from self.apply(ex, st, vals, line)

    def _remake(self, ex, st, get, A, sp):
        cur = get(A)
        if hasattr(sp, 'remake'):
            sp.remake(ex, st, cur)
            return
        new = sp.make(ex, st)
        if isinstance(cur, Obj) and isinstance(new, Obj):
            cur.fields.update(new.fields)
        elif isinstance(cur, TokList) and isinstance(new, TokList):
            cur.segs[:] = new.segs
        else:
            raise EngineError('post object of %s is not mutable: %r' % (
                self.qual, cur))


class ContractTable:
    def __init__(self):
        self.table = {}
        self.inline_ok = set()
        self.externs = {}
        self.obj_methods = {}
        self.try_handlers = {}
        self.loops_only = {}
        self.store_hook = None
        self.dict_store_hook = None
        self.sym_method = None
        self.list_equal = None
        self.list_contains = None
        self.str_contains = None
        self.call_value = None
        self.isinstance_hook = None
        self.callable_hook = None
        self.next_hook = None
        self.anyall_many = None
        self.set_hook = None
        self.float_hook = None
        self.split_hook = None
        self.join_hook = None
        self.sort_hook = None
        self.list_append_hook = None
        self.dict_keys = None
        self.dict_iter = None
        self.dictcomp = None
        self.after_construct = None
        self.globals_hook = None
        self.with_hook = None
        self.attr_hook = None
        self.ilist_lemma_hook = None
        self.list_index_hook = None
        self.stmt_hooks = {}      # qual -> fn(ex, stmt, st, fi): explicit
        #                           assumption injection (listed in evidence)
        self.empty_hints = {}
        self.force = {}

    def add(self, c):
        self.table[c.qual] = c
        return c

    def get(self, qual):
        return self.table.get(qual)

    def get_loops(self, qual):
        """loop contracts for an inlined function"""
        c = self.table.get(qual) or self.loops_only.get(qual)
        if c is None:
            c = FContract(qual, {})
            self.loops_only[qual] = c
        return c

    def loops_for(self, qual):
        c = self.loops_only.get(qual)
        if c is None:
            c = self.loops_only[qual] = FContract(qual, {})
        return c

    def may_inline(self, qual):
        return qual in self.inline_ok

    def force_inline(self, qual, cur):
        """use the body instead of the contract of `qual` while verifying
        `cur` (never for qual == cur's own recursion)"""
        return qual in self.force.get(cur, ())

    def module_global(self, ex, st, module, name):
        if self.globals_hook:
            r = self.globals_hook(ex, st, module, name)
            if r is not NotImplemented:
                return r
        # module-level literal constants (bool / int / str / list of str)
        import ast as _ast
        node = ex.repo.modules[module].globals.get(name)
        try:
            v = _ast.literal_eval(node)
        except Exception:
            return NotImplemented
        if isinstance(v, (bool, int, str)):
            return v
        if isinstance(v, (list, tuple)) and all(isinstance(x, str)
                                                for x in v):
            return TokList([Single(x) for x in v])
        return NotImplemented

    def empty_list_kind(self, func, line):
        return self.empty_hints.get((func, line)) or \
            self.empty_hints.get(func)
