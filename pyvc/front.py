"""Front end: reads the real sources under $YALAFI_REPO (default /repo) with
`ast` on every run and builds the function table.  Nothing is copied by hand:
the verified text is the file content at the moment of the check.

What the extraction drops: comments and docstrings (not in the AST).
Local names: a function that differs from the tree the contracts were written
against only by a consistent renaming of parameters / local variables is
alpha-converted back to those names (pyvc/alpha.py; bijection checked).  The
text written by sys.stderr.write is not modelled (the executor keeps the
*event* as ghost counter `$diag`)."""
import ast
import os
from . import alpha

REPO = os.environ.get('YALAFI_REPO', '/repo')
PKG = 'yalafi'


class FuncInfo:
    def __init__(self, qual, node, module, cls, parent, path):
        self.qual = qual          # e.g. yalafi.parser.Parser.arg_buffer
        self.node = node          # ast.FunctionDef / ast.Lambda
        self.module = module      # ModuleInfo
        self.cls = cls            # class name or None
        self.parent = parent      # enclosing FuncInfo (closures) or None
        self.path = path
        self.loops = None

    @property
    def lineno(self):
        return self.node.lineno

    def loop_nodes(self):
        """While/For nodes of this function in source order (nested defs
        excluded) -- the loop ordinal used by contracts."""
        if self.loops is None:
            out = []

            def walk(n):
                for c in ast.iter_child_nodes(n):
                    if isinstance(c, (ast.FunctionDef, ast.Lambda,
                                      ast.ClassDef)):
                        continue
                    if isinstance(c, (ast.While, ast.For)):
                        out.append(c)
                    walk(c)
            walk(self.node)
            self.loops = out
        return self.loops


class ModuleInfo:
    def __init__(self, name, path, tree, src):
        self.name = name
        self.path = path
        self.tree = tree
        self.src = src
        self.imports = {}     # alias -> dotted module or (module, name)
        self.funcs = {}       # local name -> FuncInfo
        self.classes = {}     # class name -> ast.ClassDef
        self.globals = {}     # module-level simple assignments name -> ast expr


class Repo:
    def __init__(self, root=None):
        self.root = root or REPO
        self.modules = {}
        self.funcs = {}       # qualname -> FuncInfo
        self.classes = {}     # qualname -> (ModuleInfo, ast.ClassDef)
        self.renamed = []     # (qualname, {current local name: reference})
        self._load()

    def _load(self):
        base = os.path.join(self.root, PKG)
        for dp, dn, fn in os.walk(base):
            dn.sort()
            for f in sorted(fn):
                if not f.endswith('.py'):
                    continue
                path = os.path.join(dp, f)
                rel = os.path.relpath(path, self.root)[:-3]
                name = rel.replace(os.sep, '.')
                if name.endswith('.__init__'):
                    name = name[:-9]
                with open(path, encoding='utf-8') as fh:
                    src = fh.read()
                tree = ast.parse(src, filename=path)
                if not os.environ.get('PYVC_NO_ALPHA'):
                    alpha.normalise(tree, name, self.renamed)
                mi = ModuleInfo(name, path, tree, src)
                self.modules[name] = mi
                self._index(mi)

    def _resolve_rel(self, mi, level, module):
        if level == 0:
            return module
        parts = mi.name.split('.')
        is_pkg = mi.path.endswith('__init__.py')
        base = parts if is_pkg else parts[:-1]
        if level > 1:
            base = base[:-(level - 1)]
        return '.'.join(base + ([module] if module else []))

    def _index(self, mi):
        for n in mi.tree.body:
            if isinstance(n, ast.Import):
                for a in n.names:
                    mi.imports[a.asname or a.name.split('.')[0]] = \
                        a.name if a.asname else a.name.split('.')[0]
            elif isinstance(n, ast.ImportFrom):
                mod = self._resolve_rel(mi, n.level, n.module)
                for a in n.names:
                    mi.imports[a.asname or a.name] = (mod, a.name)
            elif isinstance(n, ast.Assign) and len(n.targets) == 1 and \
                    isinstance(n.targets[0], ast.Name):
                mi.globals[n.targets[0].id] = n.value
        self._index_body(mi, mi.tree.body, mi.name, None, None)

    def _index_body(self, mi, body, prefix, cls, parent):
        for n in body:
            if isinstance(n, ast.FunctionDef):
                q = prefix + '.' + n.name
                fi = FuncInfo(q, n, mi, cls, parent, mi.path)
                self.funcs[q] = fi
                if parent is None and cls is None:
                    mi.funcs[n.name] = fi
                self._index_nested(mi, n, q, cls, fi)
            elif isinstance(n, ast.ClassDef):
                q = prefix + '.' + n.name
                self.classes[q] = (mi, n)
                mi.classes[n.name] = n
                self._index_body(mi, n.body, q, n.name, None)

    def _index_nested(self, mi, fn, prefix, cls, parent):
        def walk(node):
            for c in ast.iter_child_nodes(node):
                if isinstance(c, ast.FunctionDef):
                    q = prefix + '.<locals>.' + c.name
                    fi = FuncInfo(q, c, mi, cls, parent, mi.path)
                    self.funcs[q] = fi
                    rn = getattr(c, '_ref_name', None)
                    if rn and rn != c.name:
                        # same nested function as `rn` of the tree the
                        # contracts were written against (pyvc/alpha.py)
                        self.funcs[prefix + '.<locals>.' + rn] = fi
                    self._index_nested(mi, c, q, cls, fi)
                elif isinstance(c, ast.ClassDef):
                    continue
                else:
                    walk(c)
        walk(fn)

    # ------------------------------------------------------------------
    def resolve_module_attr(self, mi, alias, attr):
        """`alias.attr` in module mi -> ('func', qual) | ('class', qual) |
        ('module', name) | None"""
        tgt = mi.imports.get(alias)
        if tgt is None:
            return None
        if isinstance(tgt, tuple):
            mod = tgt[0] + '.' + tgt[1]
            if mod not in self.modules:
                # from X import name  (name is a function/class)
                return None
        else:
            mod = tgt
        q = mod + '.' + attr
        if q in self.funcs:
            return ('func', q)
        if q in self.classes:
            return ('class', q)
        if q in self.modules:
            return ('module', q)
        return ('extern', q)

    def resolve_name(self, mi, name):
        """bare name in module mi"""
        if name in mi.funcs:
            return ('func', mi.funcs[name].qual)
        if name in mi.classes:
            return ('class', mi.name + '.' + name)
        tgt = mi.imports.get(name)
        if tgt is not None:
            if isinstance(tgt, tuple):
                q = tgt[0] + '.' + tgt[1]
                if q in self.funcs:
                    return ('func', q)
                if q in self.classes:
                    return ('class', q)
                if q in self.modules:
                    return ('module', q)
                return ('extern', q)
            if tgt in self.modules:
                return ('module', tgt)
            return ('extern', tgt)
        return None

    def class_bases(self, qual):
        mi, node = self.classes[qual]
        out = []
        for b in node.bases:
            if isinstance(b, ast.Name):
                r = self.resolve_name(mi, b.id)
            elif isinstance(b, ast.Attribute) and isinstance(b.value, ast.Name):
                r = self.resolve_module_attr(mi, b.value.id, b.attr)
            else:
                r = None
            if r and r[0] == 'class':
                out.append(r[1])
        return out

    def find_method(self, clsqual, name):
        """method resolution along single inheritance"""
        seen = set()
        todo = [clsqual]
        while todo:
            c = todo.pop(0)
            if c in seen or c not in self.classes:
                continue
            seen.add(c)
            q = c + '.' + name
            if q in self.funcs:
                return self.funcs[q]
            todo += self.class_bases(c)
        return None

    def is_subclass(self, clsqual, basequal):
        seen = set()
        todo = [clsqual]
        while todo:
            c = todo.pop(0)
            if c == basequal:
                return True
            if c in seen or c not in self.classes:
                continue
            seen.add(c)
            todo += self.class_bases(c)
        return False


def lift_module_statements(repo, module, first_pred, last_pred, name, params):
    """mechanical extraction of a range of module-level statements into a
    synthetic function (shell/shell.py is a script): the statements from the
    first one satisfying first_pred to the first later one satisfying
    last_pred become the body; `params` are the free variables.  Nothing is
    rewritten."""
    mi = repo.modules[module]
    body = mi.tree.body
    i0 = next((i for i, n in enumerate(body) if first_pred(n)), None)
    if i0 is None:
        # the statements are not where the extraction expects them (the
        # script was restructured): nothing to lift, the contract of the
        # lifted function then has no function ("undecided")
        return
    i1 = next((i for i, n in enumerate(body) if i >= i0 and last_pred(n)),
              None)
    if i1 is None:
        return
    fn = ast.FunctionDef(
        name=name,
        args=ast.arguments(posonlyargs=[], args=[ast.arg(arg=p) for p in
                                                 params],
                           kwonlyargs=[], kw_defaults=[], defaults=[]),
        body=body[i0:i1 + 1], decorator_list=[], returns=None,
        type_comment=None, type_params=[])
    fn.lineno = body[i0].lineno
    fn.end_lineno = body[i1].end_lineno
    ast.fix_missing_locations(fn)
    q = module + '.' + name
    fi = FuncInfo(q, fn, mi, None, None, mi.path)
    repo.funcs[q] = fi
    return fi


def lift_function_tail(repo, qual, first_pred, name, params,
                       last_pred=None):
    """mechanical extraction of a range of statements of a function: the
    statements of the body of `qual` from the first one satisfying
    first_pred to the first later one satisfying last_pred (default: the end
    of the function) become the body of a synthetic function `qual.<name>`;
    `params` are its free variables.  Nothing is rewritten."""
    fi0 = repo.funcs[qual]
    body = fi0.node.body
    i0 = next((i for i, n in enumerate(body) if first_pred(n)), None)
    if i0 is None:
        return          # the function was restructured: nothing to lift
    i1 = len(body) - 1
    if last_pred is not None:
        i1 = next((i for i, n in enumerate(body)
                   if i >= i0 and last_pred(n)), None)
        if i1 is None:
            return
    fn = ast.FunctionDef(
        name=name,
        args=ast.arguments(posonlyargs=[], args=[ast.arg(arg=p) for p in
                                                 params],
                           kwonlyargs=[], kw_defaults=[], defaults=[]),
        body=body[i0:i1 + 1], decorator_list=[], returns=None,
        type_comment=None, type_params=[])
    fn.lineno = body[i0].lineno
    fn.end_lineno = body[i1].end_lineno
    ast.fix_missing_locations(fn)
    q = qual + '.' + name
    fi = FuncInfo(q, fn, fi0.module, fi0.cls, fi0.parent, fi0.path)
    repo.funcs[q] = fi
    return fi


def lift_answer_decoding(repo):
    """the part of run_languagetool / run_textgears that turns the raw
    answer of the proofreader (bytes) into a JSON value: from the first
    top-level statement that calls a `.decode(` method to the last one that
    does"""
    out = []
    for f in ('run_languagetool', 'run_textgears'):
        qual = 'yalafi.shell.proofreader.' + f
        q = qual + '.<decode_answer>'
        if q not in repo.funcs and qual in repo.funcs:
            def has_decode(n):
                return any(isinstance(c, ast.Call) and
                           isinstance(c.func, ast.Attribute) and
                           c.func.attr == 'decode' for c in ast.walk(n)
                           ) and not isinstance(n, ast.FunctionDef)
            body = repo.funcs[qual].node.body
            idx = [i for i, n in enumerate(body) if has_decode(n)]
            if idx:
                last = body[idx[-1]]
                lift_function_tail(repo, qual, has_decode, '<decode_answer>',
                                   ['out'], lambda n, last=last: n is last)
        if q in repo.funcs:
            out.append(q)
    return out


def lift_ml_tail(repo):
    """the multi-language tail of tex2txt.tex2txt: from `main_lang = ...`
    to the end of the function (free variables: toks, opts, parms)"""
    qual = 'yalafi.tex2txt.tex2txt'
    q = qual + '.<ml_tail>'
    if q not in repo.funcs and qual in repo.funcs:
        lift_function_tail(repo, qual,
                           lambda n: _is_assign_to(n, 'main_lang'),
                           '<ml_tail>', ['toks', 'opts', 'parms'])
    return repo.funcs.get(q)


def _is_assign_to(n, text):
    return isinstance(n, ast.Assign) and ast.unparse(n.targets[0]) == text


def lift_include_loop(repo):
    q = 'yalafi.shell.shell.<include_loop>'
    if q not in repo.funcs:
        lift_module_statements(
            repo, 'yalafi.shell.shell',
            lambda n: _is_assign_to(n, 'todo'),
            lambda n: _is_assign_to(n, 'cmdline.file'),
            '<include_loop>', ['cmdline', 'opts'])
    return repo.funcs.get(q)


_repo = None


def repo():
    global _repo
    if _repo is None:
        _repo = Repo()
    return _repo
