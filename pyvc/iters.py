"""for-loop iteration models.

Each model keeps its ghost state in st.ghost under keys derived from the
loop ordinal, so that it survives state cloning:
   idx<N>   -- number of completed iterations / current index (ranges,
               sequences, enumerate)
A loop invariant may refer to these through E['idx<N>']."""
import ast
import z3
from . import sym
from .sym import (SSeq, Obj, Opt, Opaque, TokList, Single, Many, Unsupported,
                  And, Or, Not, Implies, Ite, zint, zbool, is_int, is_str,
                  fresh_int, fresh_bool, lift_str)
from .engine import PyDict


class Iter:
    def __init__(self, ex, s, itv, st, fi, spec):
        self.ex = ex
        self.s = s
        self.itv = itv
        self.fi = fi
        self.spec = spec
        self.ordinal = fi.loop_nodes().index(s)
        if getattr(s, '_ref_ordinal', None) is not None:
            self.ordinal = s._ref_ordinal       # see Exec.loop
        elif hasattr(s, '_ref_ordinal'):
            self.ordinal = 'X%d' % self.ordinal
        self.key = 'idx%s' % self.ordinal

    def rebind(self, st):
        return self

    def init(self, st):
        st.ghost[self.key] = 0

    def havoc(self, st):
        pass

    def at_exit(self, st):
        pass

    def at_break(self, st):
        pass

    def advance(self, st):
        st.ghost[self.key] = st.ghost[self.key] + 1

    def bind(self, st, val):
        for _ in self.ex.assign(self.s.target, val, st, self.fi):
            pass


class IndexIter(Iter):
    """iteration with an index running over [a, b)"""
    def bounds(self):
        raise NotImplementedError

    def elem(self, st, i):
        raise NotImplementedError

    def init(self, st):
        a, b = self.bounds()
        st.ghost[self.key] = a

    def havoc(self, st):
        a, b = self.bounds()
        i = fresh_int(self.key)
        st.ghost[self.key] = i
        st.assume(And(zint(a) <= i, i <= sym.imax(zint(a), zint(b))))

    def enter_body(self, st):
        a, b = self.bounds()
        i = st.ghost[self.key]
        st.assume(zint(i) < zint(b))
        self.bind(st, self.elem(st, i))
        return [st]

    def at_exit(self, st):
        a, b = self.bounds()
        i = st.ghost[self.key]
        st.assume(zint(i) >= zint(b))
        self.exit_value(st, a, b)

    def exit_value(self, st, a, b):
        pass


class RangeIter(IndexIter):
    def bounds(self):
        return self.itv[1], self.itv[2]

    def elem(self, st, i):
        return i

    def exit_value(self, st, a, b):
        # after the loop the variable holds b-1, or its old value when the
        # range was empty
        t = self.s.target
        if isinstance(t, ast.Name):
            old = st.env.get(t.id)
            if old is None or not is_int(old):
                st.env[t.id] = zint(b) - 1
            else:
                st.env[t.id] = Ite(zint(b) > zint(a), zint(b) - 1, old)


class SeqIter(IndexIter):
    """for c in <str|int list>  /  for n, c in enumerate(<str>, start)"""
    def __init__(self, *a, enum_start=None):
        super().__init__(*a)
        self.enum_start = enum_start
        self.seq = lift_str(self.itv) if is_str(self.itv) else self.itv

    def bounds(self):
        return 0, self.seq.ln

    def elem(self, st, i):
        e = self.seq.at(i)
        if self.seq.kind == 'str':
            e = sym.char(e)
        elif getattr(self.seq, 'tag', None) is not None:
            e = self.seq.tag(e)
        if self.enum_start is not None:
            return (zint(i) + zint(self.enum_start), e)
        return e


class ListIter(Iter):
    """for t in <summarised list> (optionally enumerate): generic element.
    The index ghost is available, the element is *some* element."""
    def __init__(self, *a, enum_start=None):
        super().__init__(*a)
        self.enum_start = enum_start
        self.lst = self.itv

    def init(self, st):
        st.ghost[self.key] = 0

    def havoc(self, st):
        i = fresh_int(self.key)
        st.ghost[self.key] = i
        st.assume(And(0 <= i, i <= zint(self.lst.length())))

    def enter_body(self, st):
        i = st.ghost[self.key]
        n = self.lst.length()
        st.assume(zint(i) < zint(n))
        out = []
        segs = self.lst.segs
        exact = self.spec.exact_index if hasattr(self.spec, 'exact_index') \
            else False
        off = 0
        for k, sg in enumerate(segs):
            s1 = st.clone() if k < len(segs) - 1 else st
            s1.trace.append('seg%d' % k)
            ln = 1 if isinstance(sg, Single) else sg.ln
            # the element at index i lies in segment k
            s1.assume(And(zint(off) <= zint(i),
                          zint(i) < zint(off) + zint(ln)))
            off = off + ln
            if isinstance(sg, Single):
                e = _live(s1, st, sg.obj)
            else:
                s1.assume(zint(sg.ln) > 0)
                e = sg.mk(s1)
                if sg.indexed:
                    sg.indexed(s1, zint(i), e)
            if self.enum_start is not None:
                e = (zint(i) + zint(self.enum_start), e)
            self.bind(s1, e)
            out.append(s1)
        return out

    def at_exit(self, st):
        st.assume(zint(st.ghost[self.key]) == zint(self.lst.length()))


def _live(s1, st, obj):
    """the copy of obj that lives in the cloned state s1"""
    if s1 is st or not isinstance(obj, Obj):
        return obj
    from .builtins import _find_obj
    return _find_obj(s1, obj.oid) or obj


class MatchIter(Iter):
    """for m in re.finditer(expr, s): assumed contract of finditer --
    matches are yielded left to right and do not overlap:
        last_end <= m.start <= m.end <= len(s),   group(0) == s[start:end]
    ghost `mend<N>` = end of the previous match (0 initially)."""
    def __init__(self, *a):
        super().__init__(*a)
        self.seq = lift_str(self.itv.data['s'])
        self.k2 = 'mend%d' % self.ordinal

    def init(self, st):
        st.ghost[self.key] = 0
        st.ghost[self.k2] = 0

    def havoc(self, st):
        i = fresh_int(self.key)
        e = fresh_int(self.k2)
        st.ghost[self.key] = i
        st.ghost[self.k2] = e
        st.assume(And(i >= 0, 0 <= e, e <= zint(self.seq.ln)))

    def enter_body(self, st):
        a = fresh_int('mstart')
        b = fresh_int('mend')
        st.assume(And(zint(st.ghost[self.k2]) <= a, a <= b,
                      b <= zint(self.seq.ln)))
        m = Obj('re.Match', {'_start': a, '_end': b, '_string': self.seq,
                              'string': self.seq})
        st.ghost['$match%d' % self.ordinal] = m
        self.bind(st, m)
        return [st]

    def advance(self, st):
        m = st.ghost['$match%d' % self.ordinal]
        st.ghost[self.key] = st.ghost[self.key] + 1
        st.ghost[self.k2] = m.fields['_end']


class HookIter(Iter):
    """iteration described by a contract hook: hook(ex, st) -> element"""
    def __init__(self, *a, mk=None):
        super().__init__(*a)
        self.mk = mk

    def enter_body(self, st):
        self.bind(st, self.mk(self.ex, st))
        return [st]

    def havoc(self, st):
        i = fresh_int(self.key)
        st.ghost[self.key] = i
        st.assume(i >= 0)


def make(ex, s, itv, st, fi, spec):
    if hasattr(itv, 'py_iter'):
        itv = itv.py_iter(ex, st, s.lineno)
    args = (ex, s, itv, st, fi, spec)
    if isinstance(itv, tuple) and itv and itv[0] == '$range':
        if itv[3] != 1:
            raise Unsupported('for over range with step')
        return RangeIter(*args)
    if isinstance(itv, tuple) and itv and itv[0] == '$enumerate':
        inner = itv[1]
        a2 = (ex, s, inner, st, fi, spec)
        if is_str(inner) or isinstance(inner, SSeq):
            return SeqIter(*a2, enum_start=itv[2])
        if isinstance(inner, TokList):
            return ListIter(*a2, enum_start=itv[2])
        raise Unsupported('enumerate over %r' % (inner,))
    if is_str(itv) or isinstance(itv, SSeq):
        return SeqIter(*args)
    if isinstance(itv, TokList):
        return ListIter(*args)
    if isinstance(itv, Opaque) and itv.tag == 'matchiter':
        return MatchIter(*args)
    if isinstance(itv, tuple) and itv and itv[0] == '$items' and \
            isinstance(itv[1], PyDict):
        # for k, v in d.items():  k as in `for k in d`, v = d[k]
        d = itv[1]
        if d.has is None:
            lst = TokList([Single((k, v)) for k, v in d.items.items()] +
                          [Single((k, v)) for k, v in d.sym_items])
            return ListIter(ex, s, lst, st, fi, spec)
        hook = ex.contracts.dict_iter
        mk0 = hook(ex, st, d) if hook else NotImplemented
        if mk0 is NotImplemented:
            def mk0(ex_, st_, d=d):
                k = sym.fresh_seq('str', 'key', st_.assume)
                st_.assume(d.has(ex_, st_, k))
                return k

        def mk(ex_, st_, d=d, mk0=mk0):
            k = mk0(ex_, st_)
            return (k, ex_.dict_get(d, k, st_, s.lineno, check=False))
        return HookIter(*args, mk=mk)
    if isinstance(itv, tuple) and itv and itv[0] == '$values' and \
            isinstance(itv[1], PyDict):
        # for v in d.values():  v = d[k] for a key k as in `for k in d`
        d = itv[1]
        if d.has is None:
            lst = TokList([Single(v) for v in d.items.values()] +
                          [Single(v) for k, v in d.sym_items])
            return ListIter(ex, s, lst, st, fi, spec)
        hook = ex.contracts.dict_iter
        mk0 = hook(ex, st, d) if hook else NotImplemented
        if mk0 is NotImplemented:
            def mk0(ex_, st_, d=d):
                k = sym.fresh_seq('str', 'key', st_.assume)
                st_.assume(d.has(ex_, st_, k))
                return k

        def mkv(ex_, st_, d=d, mk0=mk0):
            return ex_.dict_get(d, mk0(ex_, st_), st_, s.lineno, check=False)
        return HookIter(*args, mk=mkv)
    if isinstance(itv, tuple) and itv and itv[0] == '$keys':
        itv = itv[1]
    if isinstance(itv, PyDict):
        hook = ex.contracts.dict_iter
        mk = hook(ex, st, itv) if hook else NotImplemented
        if mk is NotImplemented:
            if itv.has is None:
                lst = TokList([Single(k) for k in itv.items] +
                              [Single(k) for k, _ in itv.sym_items])
                return ListIter(ex, s, lst, st, fi, spec)
            d = itv

            def mk(ex_, st_, d=d):
                # generic key of an abstract dictionary
                k = sym.fresh_seq('str', 'key', st_.assume)
                st_.assume(d.has(ex_, st_, k))
                return k
        return HookIter(*args, mk=mk)
    if isinstance(itv, tuple) and not (itv and isinstance(itv[0], str)
                                       and itv[0].startswith('$')):
        lst = TokList([Single(x) for x in itv])
        return ListIter(ex, s, lst, st, fi, spec)
    raise Unsupported('for over %r at %d' % (itv, s.lineno))
