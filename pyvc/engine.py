"""pyvc symbolic executor / verification-condition generator.

Forward symbolic execution of the real AST of one function at a time.
 * branches fork the path;
 * loops are cut at invariants supplied by the contract (inv-init,
   inv-preserved, exit state = havoc + invariant + negated guard);
 * calls to functions under contract are replaced by the callee's contract
   (requires -> obligation, ensures -> assumption); small helpers listed in
   `inline` are executed from their real body instead;
 * every partial operation (subscript, [-1], None dereference, dict lookup,
   int(), next() without default, unpacking) emits a `safe:` obligation.
Obligations are (path condition, goal) pairs decided by z3 (cvc5 fallback).
"""
import ast
import os
import z3
from . import sym
from .sym import (SSeq, Obj, Opt, Opaque, TokList, Single, Many, EngineError,
                  Unsupported, And, Or, Not, Implies, Ite, zint, zbool,
                  is_int, is_bool, is_str, fresh_int, fresh_bool, fresh_seq,
                  lift_str, lift_ilist, forall, exists)


class FuncRef:
    def __init__(self, qual, closure_env=None, bound=None):
        self.qual = qual
        self.closure_env = closure_env
        self.bound = bound      # bound self object for methods


class ClassRef:
    def __init__(self, qual):
        self.qual = qual


class ModuleRef:
    def __init__(self, name):
        self.name = name


class Builtin:
    def __init__(self, name):
        self.name = name


class GenExp:
    """unevaluated generator expression / comprehension pieces"""
    def __init__(self, node, st):
        self.node = node
        self.st = st


class Obligation:
    def __init__(self, name, pc, goal, kind='proof', line=0, func='',
                 note=''):
        self.name = name
        self.pc = list(pc)
        self.goal = goal
        self.kind = kind            # 'proof' | 'canary'
        self.line = line
        self.func = func
        self.note = note
        self.status = None          # 'unsat'|'sat'|'unknown'
        self.backend = None
        self.time = 0.0
        self.model = None


class State:
    def __init__(self, ex):
        self.ex = ex
        self.env = {}
        self.pc = []
        self.mut = 0           # mutation counter (heap stores)
        self.ghost = {}        # ghost values of this activation
        self.trace = []        # branch trace for obligation naming
        self.writes = []       # log of heap writes (oid/lid, field)
        self.dead = False      # path condition is False (after no-return)

    def writes_of(self, lst):
        return [w for w in self.writes if w[0] == lst.lid]

    def assume(self, f):
        if f is True:
            return
        if f is False:
            self.pc.append(z3.BoolVal(False))
            self.dead = True
            return
        self.pc.append(f)

    def clone(self):
        memo = {}
        n = State(self.ex)
        n.env = _clone(self.env, memo)
        n.ghost = _clone(self.ghost, memo)
        n.pc = list(self.pc)
        n.mut = self.mut
        n.trace = list(self.trace)
        n.writes = list(self.writes)
        n.dead = self.dead
        return n


def _clone(v, memo):
    i = id(v)
    if i in memo:
        return memo[i]
    if isinstance(v, Obj):
        n = Obj.__new__(Obj)
        memo[i] = n
        n.cls = v.cls
        n.fresh = v.fresh
        n.oid = v.oid
        n.meta = _clone(v.meta, memo)
        n.fields = {k: _clone(x, memo) for k, x in v.fields.items()}
        return n
    if isinstance(v, TokList):
        n = TokList()
        memo[i] = n
        n.lid = v.lid
        n.segs = [_clone(s, memo) for s in v.segs]
        return n
    if isinstance(v, Single):
        n = Single(_clone(v.obj, memo))
        memo[i] = n
        return n
    if isinstance(v, Many):
        n = Many(v.ln, v.mk, v.fresh, v.label, v.indexed)
        memo[i] = n
        n.first = _clone(v.first, memo)
        n.last = _clone(v.last, memo)
        return n
    if isinstance(v, Opt):
        n = Opt(v.isnone, _clone(v.obj, memo))
        memo[i] = n
        return n
    if isinstance(v, dict):
        n = {}
        memo[i] = n
        for k, x in v.items():
            n[k] = _clone(x, memo)
        return n
    if isinstance(v, list):
        n = []
        memo[i] = n
        n.extend(_clone(x, memo) for x in v)
        return n
    if isinstance(v, tuple):
        return tuple(_clone(x, memo) for x in v)
    if isinstance(v, FuncRef) and (v.closure_env is not None or
                                   v.bound is not None):
        n = FuncRef(v.qual, None, None)
        memo[i] = n
        n.closure_env = _clone(v.closure_env, memo)
        n.bound = _clone(v.bound, memo)
        return n
    if hasattr(v, 'py_clone'):
        return v.py_clone(memo, _clone)
    if isinstance(v, PyDict):
        n = PyDict(v.tag)
        memo[i] = n
        n.items = {k: _clone(x, memo) for k, x in v.items.items()}
        n.default_mk = v.default_mk
        n.has = v.has
        n.version = v.version
        n.sym_items = [(k, _clone(x, memo)) for k, x in v.sym_items]
        return n
    return v


class PyDict:
    """A dictionary.  Concrete keys (python str / None) are kept in `items`;
    symbolic look-ups go through `has(key)->Bool` and `default_mk(st,key)`
    when supplied by a spec."""
    def __init__(self, tag=''):
        self.tag = tag
        self.items = {}
        self.default_mk = None
        self.has = None
        self.version = 0
        self.sym_items = []     # (symbolic key, value) pairs, by identity


class LoopSpec:
    def __init__(self):
        self.invs = []        # (label, fn(E)->formula)
        self.shapes = {}      # name -> Spec (havoc + shape invariant)
        self.modifies = []    # extra havoc targets 'self.pos'
        self.variant = None   # fn(E)->int term
        self.keep = []        # names NOT to havoc although assigned
        self.ghost_update = None   # fn(E, st) executed at end of body
        self.body_post = []   # (label, fn(E_before, E_after)) body contract
        self.on_exit = None   # fn(E, st): ghost step on the exit path
        self.exact_index = False


class Env:
    """read-only view of a state's variables for contract lambdas"""
    def __init__(self, st, extra=None):
        self._st = st
        self._extra = extra or {}

    def __getitem__(self, k):
        if k == '$ex':
            return self._st.ex
        if k == '$st':
            return self._st
        if k in self._extra:
            return self._extra[k]
        if k in self._st.env:
            return self._st.env[k]
        if k in self._st.ghost:
            return self._st.ghost[k]
        raise KeyError(k)

    def __contains__(self, k):
        return k in self._extra or k in self._st.env or k in self._st.ghost

    def __getattr__(self, k):
        try:
            return self[k]
        except KeyError:
            raise AttributeError(k)


class Signal:
    def __init__(self, kind, value=None):
        self.kind = kind      # 'break' | 'continue' | 'return' | 'raise'
        self.value = value


class Exec:
    def __init__(self, repo, contracts):
        self.repo = repo
        self.contracts = contracts     # ContractTable
        self.obligations = []
        self.cur_func = None
        self.depth = 0
        # constructs modelled by an unconstrained value: kind -> names of
        # the solver constants that stand for such values
        self.imprecise = {}
        self.inlined = set()
        self.assumed_calls = set()
        self.used_assumptions = set()
        self.path_count = 0
        self.max_paths = 4000
        self.class_tags = {}
        self._build_tags()

    # ---------------------------------------------------------------- tags
    def _build_tags(self):
        self.class_tags['NoneType'] = 0
        n = 1
        for q in sorted(self.repo.classes):
            self.class_tags[q] = n
            n += 1
        for b in ('str', 'list', 'int', 'dict', 'tuple', 'bool', 'float',
                  'set', 'function'):
            self.class_tags[b] = -1 - len([k for k in self.class_tags
                                            if self.class_tags[k] < 0])

    def tag(self, qual):
        return self.class_tags[qual]

    def cls_of(self, v):
        """class tag (int or z3 Int) of a value"""
        if v is None:
            return 0
        if isinstance(v, Obj):
            if isinstance(v.cls, str):
                return self.class_tags[v.cls]
            return v.cls
        if isinstance(v, Opt):
            inner = self.cls_of(v.obj)
            return Ite(v.isnone, 0, inner)
        if is_str(v):
            return self.class_tags['str']
        if isinstance(v, bool) or isinstance(v, z3.BoolRef):
            return self.class_tags['bool']
        if is_int(v):
            return self.class_tags['int']
        if isinstance(v, (TokList, SSeq)):
            return self.class_tags['list']
        if isinstance(v, tuple):
            return self.class_tags['tuple']
        if isinstance(v, PyDict):
            return self.class_tags['dict']
        if isinstance(v, (FuncRef, Builtin)):
            return self.class_tags['function']
        raise Unsupported('type() of %r' % (v,))

    # ---------------------------------------------------------- obligations
    def prove(self, st, name, goal, line=0, note=''):
        if goal is True:
            goal = z3.BoolVal(True)
        if goal is False:
            goal = z3.BoolVal(False)
        full = '%s:%s' % (self.cur_func, name)
        parts = _split_goal(goal) if (':body-ensures:' in name or
                                      os.environ.get('PYVC_SPLIT')) \
            else [goal]
        if len(parts) == 1:
            self.obligations.append(Obligation(full, st.pc, goal, 'proof',
                                               line, self.cur_func, note))
            return
        for k, g in enumerate(parts):
            self.obligations.append(Obligation('%s#%d' % (full, k), st.pc, g,
                                               'proof', line, self.cur_func,
                                               note))

    def note_imprecise(self, kind, *values):
        names = self.imprecise.setdefault(kind, set())
        for v in values:
            names |= sym.const_names(v)

    def canary(self, st, name, line=0):
        full = '%s:canary:%s' % (self.cur_func, name)
        self.obligations.append(Obligation(full, st.pc, z3.BoolVal(False),
                                           'canary', line, self.cur_func))

    # ------------------------------------------------------------ top level
    def verify(self, qual):
        """generate the obligations of one function against its contract"""
        # `qual#variant`: a second contract of the same function (e.g. the
        # multi-language mode of tex2txt)
        fi = self.repo.funcs.get(qual.split('#')[0])
        if fi is None:
            # renamed / removed / merged into another function: the contract
            # has nothing to be checked against -- undecided, not an error
            raise Unsupported('function %s under contract is not in the '
                              'source' % qual.split('#')[0])
        c = self.contracts.get(qual)
        if c is None:
            raise EngineError('no contract for ' + qual)
        self.cur_func = c.label or qual
        st = State(self)
        args = c.setup(self, st)          # dict param -> value; assumes pre
        self.args0 = dict(args)
        st.env.update(args)
        if isinstance(fi.node, ast.FunctionDef):
            # parameters renamed in the code (and not recovered by the
            # alpha-normalisation): contract names are labels, the body sees
            # its own names, bound by position
            an = [p.arg for p in fi.node.args.posonlyargs + fi.node.args.args]
            cn = getattr(c, 'param_names', None) or []
            if len(an) == len(cn) and set(an) != set(cn):
                for a_, c_ in zip(an, cn):
                    if a_ != c_:
                        st.env[a_] = args[c_]
                for c_ in cn:
                    if c_ not in an:
                        # a clause that reads this local by its old name
                        # does not fit the code (undecided), it must not
                        # see a stale value
                        st.env.pop(c_, None)
            elif len(an) > len(cn) and an[:len(cn)] == cn:
                # parameters added at the end with default values (the
                # contract does not know them): the function is verified
                # for the calls that do not pass them
                from . import builtins as bi
                a_ = fi.node.args
                nd = len(a_.defaults)
                for i in range(len(cn), len(an)):
                    di = i - (len(an) - nd)
                    if di < 0:
                        raise Unsupported(
                            'parameter %s of %s is not in the contract and '
                            'has no default' % (an[i], qual))
                    st.env[an[i]] = bi.default_value(self, st, fi,
                                                     a_.defaults[di])
        st.env['$args'] = dict(args)
        st.ghost['$diag'] = 0
        self.canary(st, 'pre', fi.lineno)
        self._bind_closure(fi, st, c)
        outs = self.exec_block(fi.node.body, st, fi, c)
        nret = 0
        for st2, sig in outs:
            if sig is not None and sig.kind == 'raise':
                continue
            val = sig.value if sig is not None else None
            nret += 1
            st2.trace.append('ret@%d' % getattr(sig, 'line', 0)
                             if sig is not None else 'ret@end')
            if nret <= 8:
                self.canary(st2, 'return#%d' % nret, fi.lineno)
            c.check_post(self, st2, st2.env['$args'], val)
        return self.obligations

    def _bind_closure(self, fi, st, c):
        """bind module-level names lazily; closures get free vars from the
        contract (c.free)"""
        st.env['$fi'] = fi

    # ------------------------------------------------------------ statements
    def exec_block(self, stmts, st, fi, c):
        cur = [st]
        results = []
        for s in stmts:
            nxt = []
            for st1 in cur:
                if st1.dead:
                    continue        # after a call that does not return
                for st2, sig in self.exec_stmt(s, st1, fi, c):
                    if sig is None:
                        nxt.append(st2)
                    else:
                        results.append((st2, sig))
            cur = nxt
            if len(cur) + len(results) > self.max_paths:
                raise EngineError('path explosion in ' + fi.qual)
            if not cur:
                break
        results += [(s1, None) for s1 in cur if not s1.dead]
        return results

    def exec_stmt(self, s, st, fi, c):
        hook = self.contracts.stmt_hooks.get(fi.qual)
        if hook is not None:
            hook(self, s, st, fi)
        m = getattr(self, 'st_' + type(s).__name__, None)
        if m is None:
            raise Unsupported('statement %s at %s:%d' % (
                type(s).__name__, fi.qual, s.lineno))
        return list(m(s, st, fi, c))

    def st_Pass(self, s, st, fi, c):
        yield st, None

    def st_Global(self, s, st, fi, c):
        yield st, None

    def st_Expr(self, s, st, fi, c):
        if isinstance(s.value, ast.Constant):
            yield st, None
            return
        if isinstance(s.value, ast.Yield):
            # generator body executed straight through: the yielded value
            # is evaluated (safety obligations) and, when the contract has a
            # `yields` spec, checked; resumption continues with the next
            # statement
            if s.value.value is None:
                yield st, None
                return
            for st1, v in self.ev(s.value.value, st, fi):
                ysp = getattr(c, 'yields', None) if c is not None else None
                if ysp is not None:
                    ysp.check(self, st1, v, 'yield@%d' % s.lineno, s.lineno)
                yield st1, None
            return
        for st1, v in self.ev(s.value, st, fi):
            yield st1, None

    def st_Return(self, s, st, fi, c):
        if s.value is None:
            sg = Signal('return', None)
            sg.line = s.lineno
            yield st, sg
            return
        for st1, v in self.ev(s.value, st, fi):
            sg = Signal('return', v)
            sg.line = s.lineno
            yield st1, sg

    def st_Delete(self, s, st, fi, c):
        # del lst[a:]  -- truncation of a summarised list (in place)
        if len(s.targets) == 1 and isinstance(s.targets[0], ast.Subscript) \
                and isinstance(s.targets[0].slice, ast.Slice) and \
                s.targets[0].slice.upper is None and \
                s.targets[0].slice.step is None and \
                s.targets[0].slice.lower is not None:
            t = s.targets[0]
            for st1, lst in self.ev(t.value, st, fi):
                for st2, a in self.ev(t.slice.lower, st1, fi):
                    if not isinstance(lst, TokList):
                        raise Unsupported('del on %r' % (lst,))
                    keep = self.list_slice(lst, None, a, st2, s.lineno)
                    lst.segs[:] = keep.segs
                    st2.mut += 1
                    st2.writes.append((lst.lid, '$list'))
                    yield st2, None
            return
        raise Unsupported('del statement at %d' % s.lineno)

    def st_Break(self, s, st, fi, c):
        yield st, Signal('break')

    def st_Continue(self, s, st, fi, c):
        yield st, Signal('continue')

    def st_FunctionDef(self, s, st, fi, c):
        q = fi.qual + '.<locals>.' + s.name
        st.env[s.name] = FuncRef(q, closure_env=st.env)
        yield st, None

    def st_Assign(self, s, st, fi, c):
        if isinstance(s.value, ast.List) and not s.value.elts and \
                len(s.targets) == 1 and isinstance(s.targets[0], ast.Name):
            # `x = []`: the element kind is declared by the contract
            kind = self.contracts.empty_hints.get((fi.qual,
                                                   s.targets[0].id))
            st.env[s.targets[0].id] = lift_ilist([]) if kind == 'ilist' \
                else TokList([])
            yield st, None
            return
        for st1, v in self.ev(s.value, st, fi):
            sts = [st1]
            for tgt in s.targets:
                nxt = []
                for st2 in sts:
                    nxt += list(self.assign(tgt, v, st2, fi))
                sts = nxt
            for st2 in sts:
                yield st2, None

    def st_AugAssign(self, s, st, fi, c):
        # target op= value  ==>  target = target op value  (lists: in place)
        load = _as_load(s.target)
        for st1, old in self.ev(load, st, fi):
            for st2, v in self.ev(s.value, st1, fi):
                if isinstance(s.op, ast.Add) and (
                        isinstance(old, TokList) or
                        getattr(old, 'kind', None) == 'ilist'):
                    # list += iterable extends by the elements
                    from . import builtins as bi
                    v = bi.iterable_as_list(self, st2, v, s.lineno)
                if isinstance(old, TokList) and isinstance(s.op, ast.Add) \
                        and not (isinstance(v, SSeq) and not old.segs):
                    # in-place extension keeps identity
                    self.list_extend(old, v, st2, s.lineno)
                    st2.mut += 1
                    st2.writes.append((old.lid, '$list'))
                    yield st2, None
                    continue
                new = self.binop(s.op, old, v, st2, s.lineno)
                for st3 in self.assign(s.target, new, st2, fi):
                    yield st3, None

    def _cond_states(self, test, st, fi, line):
        """[(state, truth formula)] for a branch condition"""
        snap_obl = len(self.obligations)
        probe = st.clone()
        try:
            t = self.ev_truth(test, probe, fi)
            return [(probe, t)]
        except Unsupported:
            del self.obligations[snap_obl:]
        return [(s1, self.truth(v, s1, line))
                for s1, v in self.ev(test, st, fi)]

    def st_If(self, s, st, fi, c):
        for st1, t in self._cond_states(s.test, st, fi, s.lineno):
            if t is True:
                yield from self.exec_block(s.body, st1, fi, c)
            elif t is False:
                yield from self.exec_block(s.orelse, st1, fi, c)
            else:
                a = st1.clone()
                a.assume(t)
                a.trace.append('T@%d' % s.lineno)
                st1.assume(Not(t))
                st1.trace.append('F@%d' % s.lineno)
                if self.feasible(a):
                    yield from self.exec_block(s.body, a, fi, c)
                if self.feasible(st1):
                    yield from self.exec_block(s.orelse, st1, fi, c)

    def merge_probe(self, st, probe, guard, npc):
        """transfer what a guarded probe evaluation learned back into st:
        new assumptions (under the guard) and memoised generic list reads
        (objects created after the clone, so sharing them is sound)"""
        for extra in probe.pc[npc:]:
            st.assume(Implies(guard, extra))
        for gk in ('$lcache', '$memq'):
            pc_ = probe.ghost.get(gk)
            if pc_:
                mine = st.ghost.setdefault(gk, {})
                for k, v in pc_.items():
                    if k not in mine:
                        mine[k] = v

    def implied(self, st, f):
        """does the path condition imply f?  (solver query in a forked
        child with a hard deadline: z3 does not always honour timeouts)"""
        if f is True:
            return True
        if f is False:
            return False
        import os
        import select
        r, w = os.pipe()
        pid = os.fork()
        if pid == 0:
            os.close(r)
            ans = b'0'
            try:
                s = z3.Solver()
                s.set(timeout=3000)
                s.add(*[zbool(p) for p in st.pc])
                s.add(z3.Not(zbool(f)))
                if s.check() == z3.unsat:
                    ans = b'1'
            except BaseException:      # noqa
                pass
            try:
                os.write(w, ans)
            finally:
                os._exit(0)
        os.close(w)
        rd, _, _ = select.select([r], [], [], 6.0)
        ans = os.read(r, 1) if rd else b'0'
        os.close(r)
        try:
            os.kill(pid, 9)
        except OSError:
            pass
        os.waitpid(pid, 0)
        return ans == b'1'

    def feasible(self, st):
        """cheap pruning of dead paths (sound: only drops paths whose path
        condition is unsatisfiable).  Quantified assumptions are left out of
        the query (dropping assumptions can only make more paths look
        feasible) because z3 may not honour its timeout on them."""
        self.path_count += 1
        if not self.prune:
            return True
        if st.dead:
            return False
        s = z3.Solver()
        s.set(timeout=300)
        s.add(*[zbool(p) for p in st.pc if not _has_quantifier(zbool(p))])
        from .solve import _watchdog_check
        return _watchdog_check(s, 3) != z3.unsat

    prune = True

    def st_Try(self, s, st, fi, c):
        """try/except: an exception may be raised at the start of any
        statement of the body (no partial effects of that statement); the
        handler then runs on the state reached so far.  `safe:` obligations
        raised inside a body guarded by a bare / Exception handler are
        dropped, the failure would be caught.  finally/else unsupported."""
        if s.finalbody or s.orelse or len(s.handlers) != 1:
            raise Unsupported('try shape at %s:%d' % (fi.qual, s.lineno))
        h = s.handlers[0]
        catches_all = h.type is None or (
            isinstance(h.type, ast.Name) and h.type.id in ('Exception',
                                                           'BaseException'))
        if h.name is not None:
            raise Unsupported('except ... as at %d' % s.lineno)
        results = []
        handler_entries = []
        cur = [st]
        for stmt in s.body:
            nxt = []
            for st1 in cur:
                if self.may_raise(stmt, catches_all, h):
                    e = st1.clone()
                    e.trace.append('exc@%d' % stmt.lineno)
                    handler_entries.append(e)
                nobl = len(self.obligations)
                for st2, sig in self.exec_stmt(stmt, st1, fi, c):
                    if sig is None:
                        nxt.append(st2)
                    else:
                        results.append((st2, sig))
                if catches_all:
                    kept = [o for o in self.obligations[nobl:]
                            if ':safe:' not in o.name]
                    dropped = len(self.obligations) - nobl - len(kept)
                    self.obligations[nobl:] = kept
                    if dropped:
                        # discharged by the handler: recorded so that the
                        # evidence shows it (and the function is not
                        # counted as generating nothing)
                        self.prove(st1, 'try@%d:%d-run-time-failure(s)-of-'
                                   'line-%d-caught-by-catch-all-handler' % (
                                       s.lineno, dropped, stmt.lineno), True,
                                   stmt.lineno)
            cur = nxt
        results += [(s1, None) for s1 in cur]
        for e in handler_entries:
            results += self.exec_block(h.body, e, fi, c)
        yield from results

    def may_raise(self, stmt, catches_all, handler):
        """does this statement contain an operation that can raise an
        exception the handler catches?  Calls and subscripts can."""
        for n in ast.walk(stmt):
            if isinstance(n, (ast.Call, ast.Subscript, ast.With)):
                return True
        return False

    def st_With(self, s, st, fi, c):
        hook = self.contracts.with_hook
        if hook is None:
            raise Unsupported('with at %s:%d' % (fi.qual, s.lineno))
        yield from hook(self, s, st, fi, c)

    def st_While(self, s, st, fi, c):
        yield from self.loop(s, st, fi, c)

    def st_For(self, s, st, fi, c):
        yield from self.loop(s, st, fi, c)

    # ---------------------------------------------------------------- loops
    def try_map_pattern(self, s, st, fi):
        """for t in L: t.a = e1; t.b = e2   (e_i do not mention t)
        is executed as an in-place map over the summarised list L."""
        if not (isinstance(s, ast.For) and isinstance(s.target, ast.Name)
                and not s.orelse):
            return None
        t = s.target.id
        stores = []
        for b in s.body:
            if not (isinstance(b, ast.Assign) and len(b.targets) == 1 and
                    isinstance(b.targets[0], ast.Attribute) and
                    isinstance(b.targets[0].value, ast.Name) and
                    b.targets[0].value.id == t):
                return None
            for n in ast.walk(b.value):
                if isinstance(n, ast.Name) and n.id == t:
                    return None
                if isinstance(n, ast.Call):
                    return None
            stores.append((b.targets[0].attr, b.value, b.lineno))
        its = list(self.ev(s.iter, st, fi))
        if len(its) != 1 or not isinstance(its[0][1], TokList):
            return None
        st1, lst = its[0]
        vals = [(a, self.ev1(v, st1, fi), ln) for a, v, ln in stores]
        ex = self
        new = []
        for sg in lst.segs:
            if isinstance(sg, Single):
                for a, v, ln in vals:
                    self.store_attr(sg.obj, a, v, st1, ln)
                new.append(sg)
            else:
                if not sg.fresh:
                    hook = self.contracts.store_hook
                    probe = sg.mk(GuardedState(st1, zint(sg.ln) > 0))
                    if hook:
                        g = st1.clone()
                        g.assume(zint(sg.ln) > 0)
                        for a, v, ln in vals:
                            hook(self, g, probe, a, v, ln)

                def mk(s1, sg=sg, vals=vals):
                    o = sg.mk(s1)
                    for a, v, ln in vals:
                        o.fields[a] = v
                    return o
                m = Many(sg.ln, mk, sg.fresh, sg.label + '+map')
                new.append(m)
        lst.segs[:] = new
        st1.mut += 1
        st1.writes.append((lst.lid, '$list'))
        return st1

    def loop(self, s, st, fi, c):
        ordinal = fi.loop_nodes().index(s)
        if hasattr(s, '_ref_ordinal'):
            # the function differs from the tree the contracts were written
            # against: loops are identified by their header (pyvc/alpha.py),
            # a loop that is not one of the reference has no contract
            ordinal = s._ref_ordinal if s._ref_ordinal is not None \
                else 'X%d' % ordinal
        spec = c.loops.get(ordinal)
        if spec is None:
            r = self.try_map_pattern(s, st, fi)
            if r is not None:
                yield r, None
                return
        if spec is None:
            # a loop the contract does not know (new code): cut with the
            # weakest invariant `true` -- sound, everything the loop assigns
            # is unknown afterwards; obligations that need more fail
            spec = LoopSpec()
            self.default_loops = getattr(self, 'default_loops', 0) + 1
            self.note_imprecise('loop without invariant in the contract')
        tag = 'loop%s' % ordinal
        is_for = isinstance(s, ast.For)
        iters = [(st, None)]
        if is_for:
            iters = list(self.ev(s.iter, st, fi))
        for st0, itv in iters:
            it = None
            if is_for:
                it = self.make_iter(s, itv, st0, fi, spec)
                it.init(st0)
            # 1. invariant holds on entry
            self.check_invs(spec, st0, tag + ':inv-init', s.lineno)
            # 2. havoc
            targets = [n for n in _assigned_names(s) if n not in spec.keep]
            mark = sym.uid()
            nwr = len(st0.writes)
            hav = self.havoc_set(st0, list(targets) + list(spec.modifies) +
                                  list(spec.shapes))
            h = st0.clone()
            h.trace.append(tag)
            if is_for:
                it = it.rebind(h)
            self.havoc(h, targets, spec, s.lineno)
            if is_for:
                it.havoc(h)
            if isinstance(ordinal, str) or not (
                    spec.invs or spec.shapes or spec.modifies or
                    spec.body_post):
                # loop cut with `true`: what it assigns is unknown afterwards
                for n_ in targets:
                    try:
                        self.note_imprecise(
                            'loop without invariant in the contract',
                            self.lookup_path(h, n_))
                    except (KeyError, AttributeError):
                        pass
            self.assume_invs(spec, h)
            # 3a. exit path
            x = h.clone()
            x.trace.append(tag + '.exit')
            if is_for:
                it.rebind(x).at_exit(x)
                exits = [x]
            else:
                exits = []
                for x1, v in self.ev(s.test, x, fi):
                    t = self.truth(v, x1, s.lineno)
                    if t is True:
                        continue
                    x1.assume(Not(t))
                    exits.append(x1)
            for x1 in exits:
                if spec.on_exit:
                    spec.on_exit(Env(x1), x1)
                if self.feasible(x1):
                    if s.orelse:
                        # `else` of a loop: runs when the loop ends without
                        # break
                        yield from self.exec_block(s.orelse, x1, fi, c)
                    else:
                        yield x1, None
            # 3b. body path
            b = h
            b.trace.append(tag + '.body')
            if is_for:
                bodies = list(it.enter_body(b))
            else:
                bodies = []
                for b1, v in self.ev(s.test, b, fi):
                    t = self.truth(v, b1, s.lineno)
                    if t is False:
                        continue
                    b1.assume(t)
                    bodies.append(b1)
            for kb, b1 in enumerate(bodies[:4]):
                self.canary(b1, tag + ':body#%d' % kb, s.lineno)
                v0 = spec.variant(Env(b1)) if spec.variant else None
                snap = Env(b1.clone()) if spec.body_post else None
                for b2, sig in self.exec_block(s.body, b1, fi, c):
                    if sig is not None and sig.kind == 'break':
                        if is_for:
                            it.rebind(b2).at_break(b2)
                        yield b2, None
                        continue
                    if sig is not None and sig.kind in ('return', 'raise'):
                        yield b2, sig
                        continue
                    # normal end of body or continue: back edge
                    for w in b2.writes[nwr:]:
                        if w[0] < mark and w not in hav:
                            if not spec.invs and not spec.shapes and \
                                    not spec.modifies:
                                raise Unsupported(
                                    'loop %s of %s (no loop contract) '
                                    'writes %r' % (tag, fi.qual, w))
                            raise EngineError(
                                'loop %s of %s writes %r which is not in '
                                'its havoc set (declare it in modifies)' % (
                                    tag, fi.qual, w))
                    if is_for:
                        it.rebind(b2).advance(b2)
                    if spec.ghost_update:
                        spec.ghost_update(Env(b2), b2)
                    self.check_invs(spec, b2, tag + ':inv-preserved',
                                    s.lineno)
                    for lab, fn in spec.body_post:
                        goal = sym.fit('loop body contract ' + lab,
                                       lambda: fn(snap, Env(b2)))
                        self.prove(b2, '%s:body-ensures:%s@%s' % (
                            tag, lab, _tr(b2)), goal, s.lineno)
                    if v0 is not None:
                        v1 = spec.variant(Env(b2))
                        self.prove(b2, tag + ':variant-decreases',
                                   And(zint(v0) >= 0, zint(v1) < zint(v0)),
                                   s.lineno)

    def check_invs(self, spec, st, label, line):
        E = Env(st)
        for name, fn in spec.invs:
            # a variable the invariant speaks about no longer exists / has
            # another type: the contract does not fit the code (undecided)
            goal = sym.fit('loop invariant ' + name, lambda: fn(E))
            self.prove(st, '%s:%s@%s' % (label, name, _tr(st)), goal, line)
        for name, sp in spec.shapes.items():
            try:
                v = self.lookup_path(st, name)
            except (KeyError, AttributeError):
                if 'inv-init' in label:
                    continue        # first assigned inside the loop
                raise
            if callable(sp) and not hasattr(sp, 'check'):
                sp = sp(E)
            sp.check(self, st, v, '%s:shape:%s@%s' % (label, name, _tr(st)),
                     line)

    def assume_invs(self, spec, st):
        E = Env(st)
        for name, fn in spec.invs:
            st.assume(sym.fit('loop invariant ' + name, lambda: fn(E)))

    def lookup_path(self, st, path):
        parts = path.split('.')
        v = st.env[parts[0]] if parts[0] in st.env else st.ghost[parts[0]]
        for p in parts[1:]:
            v = v.fields[p]
        return v

    def store_path(self, st, path, val):
        parts = path.split('.')
        if len(parts) == 1:
            if parts[0] in st.ghost and parts[0] not in st.env:
                st.ghost[parts[0]] = val
            else:
                st.env[parts[0]] = val
            return
        v = st.env[parts[0]]
        for p in parts[1:-1]:
            v = v.fields[p]
        v.fields[parts[-1]] = val

    def havoc_set(self, st, paths):
        out = set()
        for p in paths:
            parts = p.split('.')
            try:
                v = st.env[parts[0]]
                for q in parts[1:-1]:
                    v = v.fields[q]
                if len(parts) > 1 and isinstance(v, Obj):
                    out.add((v.oid, parts[-1]))
                    fv = v.fields.get(parts[-1])
                    if isinstance(fv, TokList):
                        out.add((fv.lid, '$list'))
                elif len(parts) == 1 and isinstance(v, TokList):
                    out.add((v.lid, '$list'))
            except (KeyError, AttributeError):
                pass
        return out

    def havoc(self, st, targets, spec, line):
        names = list(targets) + [m for m in spec.modifies
                                 if m not in targets]
        names += [m for m in spec.shapes if m not in names]
        for name in names:
            if name in spec.shapes:
                sp = spec.shapes[name]
                if callable(sp) and not hasattr(sp, 'check'):
                    sp = sp(Env(st))
                self.store_path(st, name, sp.make(self, st))
                continue
            try:
                old = self.lookup_path(st, name)
            except (KeyError, AttributeError):
                continue       # first assigned inside the loop
            self.store_path(st, name, self.fresh_like(old, st, name))

    def fresh_like(self, v, st, name='h'):
        if isinstance(v, bool) or isinstance(v, z3.BoolRef):
            return fresh_bool(name)
        if is_int(v):
            return fresh_int(name)
        if isinstance(v, str):
            return fresh_seq('str', name, st.assume)
        if isinstance(v, SSeq):
            r = fresh_seq(v.kind, name, st.assume)
            r.tag = v.tag
            return r
        if v is None:
            return None
        if isinstance(v, tuple):
            return tuple(self.fresh_like(x, st, name) for x in v)
        if isinstance(v, Opaque):
            return Opaque(v.tag, v.data)
        if isinstance(v, Opt):
            raise Unsupported('havoc of optional %s needs a shape' % name)
        raise Unsupported('havoc of %s (%r) needs a shape in the loop '
                          'contract' % (name, v))

    # ----------------------------------------------------------- iterators
    def make_iter(self, s, itv, st, fi, spec):
        from . import iters
        return iters.make(self, s, itv, st, fi, spec)

    # ---------------------------------------------------------- assignment
    def assign(self, tgt, v, st, fi):
        if isinstance(tgt, ast.Name):
            st.env[tgt.id] = v
            yield st
        elif isinstance(tgt, (ast.Tuple, ast.List)):
            vals = self.unpack(v, len(tgt.elts), st, tgt.lineno)
            sts = [st]
            for t, x in zip(tgt.elts, vals):
                nxt = []
                for s1 in sts:
                    nxt += list(self.assign(t, x, s1, fi))
                sts = nxt
            yield from sts
        elif isinstance(tgt, ast.Attribute):
            for st1, o in self.ev(tgt.value, st, fi):
                self.store_attr(o, tgt.attr, v, st1, tgt.lineno)
                yield st1
        elif isinstance(tgt, ast.Subscript):
            for st1, o in self.ev(tgt.value, st, fi):
                if isinstance(tgt.slice, ast.Slice):
                    sl = tgt.slice
                    if sl.lower is None and sl.upper is None and \
                            isinstance(o, TokList) and \
                            isinstance(v, TokList):
                        # x[:] = value: in-place replacement (identity kept)
                        o.segs[:] = list(v.segs)
                        st1.mut += 1
                        st1.writes.append((o.lid, '$list'))
                        yield st1
                        continue
                    if sl.lower is None and sl.upper is None and \
                            isinstance(o, SSeq):
                        # x[:] = value  -- in-place replacement of a list
                        # held by name: model as rebinding through alias map
                        self.replace_list_content(tgt.value, o, v, st1, fi)
                        yield st1
                        continue
                    if isinstance(o, TokList) and isinstance(v, TokList) \
                            and not v.segs:
                        # x[a:b] = []  -- removal of a range, in place
                        for st2, lo in (self.ev(sl.lower, st1, fi)
                                        if sl.lower else [(st1, 0)]):
                            for st3, hi in (self.ev(sl.upper, st2, fi)
                                            if sl.upper else
                                            [(st2, o.length())]):
                                n = o.length()
                                a = sym.clamp_index(lo, n)
                                b = sym.clamp_index(hi, n)
                                cut = sym.imax(zint(b) - zint(a), 0)
                                tmp = TokList(list(o.segs))
                                self.normalise(tmp, st3)
                                sg = tmp.segs[0]
                                o.segs[:] = [Many(zint(n) - zint(cut), sg.mk,
                                                  False, 'cut')]
                                st3.mut += 1
                                st3.writes.append((o.lid, '$list'))
                                yield st3
                        continue
                    raise Unsupported('slice store at %d' % tgt.lineno)
                for st2, i in self.ev(tgt.slice, st1, fi):
                    self.store_item(o, i, v, st2, tgt.lineno)
                    yield st2
        else:
            raise Unsupported('assignment target %s' % type(tgt).__name__)

    def replace_list_content(self, node, old, new, st, fi):
        """`x[:] = new` on an int list / string list value.  Lists of the
        array layer have value semantics in the engine; an in-place update is
        modelled by rebinding the *access path* it was read from.  The
        contract must declare the aliasing of that path (ghost)."""
        if isinstance(node, ast.Name):
            st.env[node.id] = new
            hook = st.ghost.get('$alias:' + node.id)
            if hook:
                self.store_path(st, hook, new)
            st.mut += 1
            return
        raise Unsupported('in-place list update through %s' % ast.dump(node))

    def unpack(self, v, n, st, line):
        if isinstance(v, tuple):
            if len(v) != n:
                self.prove(st, 'safe:unpack@%d' % line, False, line)
            return list(v)
        if isinstance(v, TokList):
            self.prove(st, 'safe:unpack@%d' % line,
                       zint(v.length()) == n, line)
            return [self.list_get(v, k, st, line) for k in range(n)]
        raise Unsupported('unpack of %r at %d' % (v, line))

    def store_attr(self, o, attr, v, st, line):
        if isinstance(o, Opt):
            self.prove(st, 'safe:none-deref@%d' % line, Not(o.isnone), line)
            o = o.obj
        if not isinstance(o, Obj):
            raise Unsupported('attribute store on %r at %d' % (o, line))
        if o.meta.get('view') is not None:
            # a merged view (ite of several heap objects) is read-only: a
            # store through it would be lost
            raise Unsupported('attribute store through a merged view at %d'
                              % line)
        hook = self.contracts.store_hook
        if hook:
            hook(self, st, o, attr, v, line)
        o.fields[attr] = v
        st.mut += 1
        st.writes.append((o.oid, attr))

    def store_item(self, o, i, v, st, line):
        if hasattr(o, 'py_setitem'):
            o.py_setitem(self, st, i, v, line)
            st.mut += 1
            return
        if isinstance(o, TokList):
            self.list_set(o, i, v, st, line)
            st.mut += 1
            st.writes.append((o.lid, '$list'))
            return
        if isinstance(o, PyDict):
            if isinstance(i, str) or i is None:
                o.items[i] = v
                o.version += 1
                st.mut += 1
                return
            hook = self.contracts.dict_store_hook
            if hook:
                hook(self, st, o, i, v, line)
                st.mut += 1
                return
        raise Unsupported('item store on %r at %d' % (o, line))

    # ------------------------------------------------------- summarised list
    def seg_first(self, seg, st):
        if isinstance(seg, Single):
            return seg.obj
        if seg.first is None:
            seg.first = seg.mk(st)
        return seg.first

    def seg_last(self, seg, st):
        if isinstance(seg, Single):
            return seg.obj
        if seg.last is None:
            # a one-element segment has first is last; we keep them separate
            # objects but that only loses precision
            seg.last = seg.mk(st)
        return seg.last

    def list_len(self, lst):
        return lst.length()

    def list_get(self, lst, i, st, line, check=True):
        """lst[i]; emits the index-safety obligation"""
        n = lst.length()
        if check:
            if isinstance(i, int) and i < 0:
                self.prove(st, 'safe:index@%d' % line, zint(n) >= -i, line)
            else:
                self.prove(st, 'safe:index@%d' % line,
                           And(zint(i) >= -zint(n), zint(i) < zint(n)), line)
        segs = lst.segs
        # fast paths: concrete index from the front / back over Singles
        if isinstance(i, int):
            if i >= 0:
                k = i
                for sg in segs:
                    if isinstance(sg, Single):
                        if k == 0:
                            return sg.obj
                        k -= 1
                    else:
                        break
            else:
                k = -i - 1
                for sg in reversed(segs):
                    if isinstance(sg, Single):
                        if k == 0:
                            return sg.obj
                        k -= 1
                    else:
                        break
        # the index term is syntactically the offset of an explicit element
        # (x[i] = v ... x[i]): that element itself
        if not isinstance(i, int):
            off = 0
            want = z3.simplify(zint(i)).sexpr()
            for sg in segs:
                if isinstance(sg, Single):
                    if z3.simplify(zint(off)).sexpr() == want:
                        return sg.obj
                    off = off + 1
                else:
                    off = off + sg.ln
        # general: element described by a case split over the segments,
        # merged into one generic value through `merge_values`.  Reads are
        # memoised per index term until the list is written.
        key = (len(st.writes_of(lst)), zint(i).sexpr())
        cache = st.ghost.setdefault('$lcache', {})
        ck = (lst.lid,) + key
        if ck in cache:
            return cache[ck]
        r = self._list_get_general(lst, i, n, st, line)
        cache[ck] = r
        return r

    def _list_get_general(self, lst, i, n, st, line):
        segs = lst.segs
        idx = zint(i)
        idx = z3.If(idx < 0, idx + zint(n), idx)
        off = 0
        cands = []
        for sg in segs:
            ln = 1 if isinstance(sg, Single) else sg.ln
            cond = And(zint(off) <= idx, idx < zint(off) + zint(ln))
            if isinstance(sg, Single):
                cands.append((cond, sg.obj))
            else:
                # first / last of a Many segment are memoised
                if isinstance(i, int) and i == 0 and sg is segs[0]:
                    e0 = self.seg_first(sg, st)
                    if sg.indexed:
                        sg.indexed(GuardedState(st, cond), idx, e0)
                    cands.append((cond, e0))
                elif isinstance(i, int) and i == -1 and sg is segs[-1]:
                    e0 = self.seg_last(sg, st)
                    if sg.indexed:
                        sg.indexed(GuardedState(st, cond), idx, e0)
                    cands.append((cond, e0))
                else:
                    sub = st.clone() if False else st
                    cands.append((cond, ('many', sg, idx)))
            off = off + ln
        return self.merge_cands(cands, st, line)

    def merge_cands(self, cands, st, line):
        """value that equals cand_k under cond_k.  For heap objects we build
        a *view* object whose fields are ite-merged; stores through a merged
        view are rejected (not needed by the code base)."""
        live = []
        for cond, v in cands:
            if cond is False:
                continue
            live.append((cond, v))
        if not live:
            # unreachable index (safety obligation already emitted)
            st.assume(False)
            return Obj(fresh_int('cls'), {}, meta={'dead': True})
        # instantiate Many candidates under their guard
        inst = []
        for cond, v in live:
            if isinstance(v, tuple) and len(v) >= 2 and v[0] == 'many':
                g = GuardedState(st, cond)
                sg = v[1]
                ix = v[2] if len(v) > 2 else None
                v = sg.mk(g)
                if sg.indexed and ix is not None:
                    sg.indexed(g, ix, v)
            inst.append((cond, v))
        if len(inst) == 1:
            return inst[0][1]
        return merge_values(self, inst, st)

    def list_set(self, lst, i, v, st, line):
        n = lst.length()
        if not isinstance(i, int):
            if len(lst.segs) == 1 and isinstance(lst.segs[0], Many):
                sg = lst.segs[0]
                self.prove(st, 'safe:index@%d' % line,
                           And(0 <= zint(i), zint(i) < zint(n)), line)
                a = Many(zint(i), sg.mk, sg.fresh, sg.label)
                b = Many(zint(n) - zint(i) - 1, sg.mk, sg.fresh, sg.label)
                lst.segs[:] = [a, Single(v), b]
                return
            raise Unsupported('symbolic index store at %d' % line)
        if i == 0:
            self.prove(st, 'safe:index@%d' % line, zint(n) >= 1, line)
            sg = lst.segs[0] if lst.segs else None
            if isinstance(sg, Single):
                lst.segs[0] = Single(v)
            elif sg is not None:
                # split: Many(ln) -> Single(v) ++ Many(ln-1); if ln==0 the
                # store hits the next segment: only supported when the list
                # is a single Many segment
                if len(lst.segs) != 1:
                    st.assume(zint(sg.ln) >= 1)   # justified below
                    self.prove(st, 'safe:index-seg@%d' % line,
                               zint(sg.ln) >= 1, line)
                rest = Many(sg.ln - 1, sg.mk, sg.fresh, sg.label)
                rest.last = sg.last
                lst.segs[0:1] = [Single(v), rest]
            return
        if i == -1:
            self.prove(st, 'safe:index@%d' % line, zint(n) >= 1, line)
            sg = lst.segs[-1] if lst.segs else None
            if isinstance(sg, Single):
                lst.segs[-1] = Single(v)
            elif sg is not None:
                if len(lst.segs) != 1:
                    self.prove(st, 'safe:index-seg@%d' % line,
                               zint(sg.ln) >= 1, line)
                rest = Many(sg.ln - 1, sg.mk, sg.fresh, sg.label)
                rest.first = sg.first
                lst.segs[-1:] = [rest, Single(v)]
            return
        if i > 0 and len(lst.segs) > i and all(
                isinstance(sg, Single) for sg in lst.segs[:i + 1]):
            lst.segs[i] = Single(v)
            return
        raise Unsupported('index store [%d] at %d' % (i, line))

    def list_extend(self, lst, other, st, line):
        if isinstance(other, TokList):
            lst.segs.extend(other.segs)
            return
        if isinstance(other, tuple):
            lst.segs.extend(Single(x) for x in other)
            return
        raise Unsupported('extend with %r at %d' % (other, line))

    def list_pop_last(self, lst, st, line):
        n = lst.length()
        self.prove(st, 'safe:pop@%d' % line, zint(n) >= 1, line)
        return self._pop(lst, st, last=True)

    def list_pop_first(self, lst, st, line):
        n = lst.length()
        self.prove(st, 'safe:pop@%d' % line, zint(n) >= 1, line)
        return self._pop(lst, st, last=False)

    def _pop(self, lst, st, last):
        """remove and return the last/first element; assumes length >= 1
        (obligation emitted by the caller)"""
        st.assume(zint(lst.length()) >= 1)
        order = list(range(len(lst.segs)))
        if last:
            order.reverse()
        cands = []
        # drop provably-empty trailing Many segments lazily: we pop from the
        # outermost segment that can be non-empty; to stay exact we require
        # either a Single or a Many that is the only candidate
        idx = order[0]
        sg = lst.segs[idx]
        if isinstance(sg, Single):
            del lst.segs[idx]
            return sg.obj
        if len(lst.segs) == 1:
            el = self.seg_last(sg, st) if last else self.seg_first(sg, st)
            rest = Many(sg.ln - 1, sg.mk, sg.fresh, sg.label)
            lst.segs[idx] = rest
            return el
        # Many at the end with further segments before it: case split is
        # avoided by normalising (merging everything into one generic Many)
        self.normalise(lst, st)
        return self._pop(lst, st, last)

    def normalise(self, lst, st):
        """forget the segment structure: one Many segment whose element is
        any element of the old segments (sound over-approximation)"""
        segs = list(lst.segs)
        total = lst.length()
        n = fresh_int('nlen')
        st.assume(n == zint(total))

        ex = self

        def mk(s, segs=segs):
            cands = []
            for sg in segs:
                b = fresh_bool('pick')
                if isinstance(sg, Single):
                    cands.append((b, sg.obj))
                else:
                    cands.append((b, ('many', sg)))
            s.assume(Or(*[c for c, _ in cands]))
            return ex.merge_cands(cands, s, 0)
        lst.segs = [Many(n, mk, False, 'norm')]

    # ---------------------------------------------------------- expressions
    def ev(self, node, st, fi):
        m = getattr(self, 'ev_' + type(node).__name__, None)
        if m is None:
            raise Unsupported('expression %s at %s:%d' % (
                type(node).__name__, fi.qual, getattr(node, 'lineno', 0)))
        return m(node, st, fi)

    def ev_truth(self, node, st, fi):
        """truth value of a condition without forking: and/or/not are
        combined as formulas, the right operand is evaluated under the guard
        of the left one (its safety obligations carry the guard).  Raises
        Unsupported if a sub-expression forks or mutates the heap."""
        line = getattr(node, 'lineno', 0)
        if isinstance(node, ast.BoolOp):
            is_and = isinstance(node.op, ast.And)
            acc = None
            guard = True
            for v in node.values:
                if guard is True:
                    t = self.ev_truth(v, st, fi)
                elif guard is False:
                    break
                else:
                    probe = st.clone()
                    probe.assume(guard)
                    npc = len(probe.pc)
                    mut = probe.mut
                    t = self.ev_truth(v, probe, fi)
                    if probe.mut != mut:
                        raise Unsupported('mutation in condition at %d' %
                                          line)
                    self.merge_probe(st, probe, guard, npc)
                acc = t if acc is None else (And(acc, t) if is_and
                                             else Or(acc, t))
                guard = And(guard, t) if is_and else And(guard, Not(t))
            return acc
        if isinstance(node, ast.UnaryOp) and isinstance(node.op, ast.Not):
            return Not(self.ev_truth(node.operand, st, fi))
        mut = st.mut
        r = list(self.ev(node, st, fi))
        if len(r) != 1:
            raise Unsupported('forking expression at %d' % line)
        if r[0][0] is not st:
            raise Unsupported('state replaced in condition at %d' % line)
        return self.truth(r[0][1], st, line)

    def ev1(self, node, st, fi):
        """evaluate an expression that must not fork"""
        r = list(self.ev(node, st, fi))
        if len(r) != 1:
            raise Unsupported('forking expression at %d' % node.lineno)
        return r[0][1]

    def ev_Constant(self, node, st, fi):
        yield st, node.value

    def ev_JoinedStr(self, node, st, fi):
        raise Unsupported('f-string')

    def ev_Name(self, node, st, fi):
        n = node.id
        if n in st.env:
            yield st, st.env[n]
            return
        # closure variables
        env = st.env.get('$closure')
        while env is not None:
            if n in env:
                yield st, env[n]
                return
            env = env.get('$closure')
        mi = st.env['$fi'].module
        r = self.repo.resolve_name(mi, n)
        if r is not None:
            yield st, self.ref(r)
            return
        if n in mi.globals:
            gv = self.contracts.module_global(self, st, mi.name, n)
            if gv is not NotImplemented:
                yield st, gv
                return
        if n in _BUILTINS:
            yield st, Builtin(n)
            return
        if n == 'None':
            yield st, None
            return
        raise Unsupported('unbound name %s at %s:%d' % (n, fi.qual,
                                                        node.lineno))

    def ref(self, r):
        kind, q = r
        if kind == 'func':
            return FuncRef(q)
        if kind == 'class':
            return ClassRef(q)
        if kind == 'module':
            return ModuleRef(q)
        return Opaque('extern:' + q)

    def ev_Attribute(self, node, st, fi):
        for st1, o in self.ev(node.value, st, fi):
            yield st1, self.get_attr(o, node.attr, st1, node.lineno)

    def get_attr(self, o, attr, st, line):
        if isinstance(o, ModuleRef):
            q = o.name + '.' + attr
            if q in self.repo.funcs:
                return FuncRef(q)
            if q in self.repo.classes:
                return ClassRef(q)
            if q in self.repo.modules:
                return ModuleRef(q)
            mi = self.repo.modules.get(o.name)
            if mi is not None and attr in mi.globals:
                gv = self.contracts.module_global(self, st, o.name, attr)
                if gv is not NotImplemented:
                    return gv
            return Opaque('extern:' + q)
        if isinstance(o, Opaque) and o.tag.startswith('extern:'):
            return Opaque(o.tag + '.' + attr)
        if isinstance(o, Opt):
            self.prove(st, 'safe:none-deref@%d' % line, Not(o.isnone), line)
            o = o.obj
        if isinstance(o, OptVal):
            self.prove(st, 'safe:none-deref@%d' % line, Not(o.isnone), line)
            o = o.val
        if isinstance(o, Obj):
            hook = self.contracts.attr_hook
            if hook:
                r = hook(self, st, o, attr, line)
                if r is not NotImplemented:
                    return r
            if attr in o.fields:
                return o.fields[attr]
            # method?
            if isinstance(o.cls, str) and \
                    (o.cls, attr) in self.contracts.obj_methods:
                return ('$omethod', o, attr)
            if isinstance(o.cls, str):
                m = self.repo.find_method(o.cls, attr)
                if m is not None:
                    return FuncRef(m.qual, bound=o)
            lazy = o.meta.get('lazy')
            if lazy:
                v = lazy(self, st, o, attr)
                if v is not NotImplemented:
                    o.fields[attr] = v
                    return v
            if not isinstance(o.cls, str):
                # symbolic class: method lookup by name over token classes
                hook = self.contracts.sym_method
                if hook:
                    r = hook(self, st, o, attr)
                    if r is not NotImplemented:
                        return r
            raise Unsupported('attribute %s of %r at %d' % (attr, o, line))
        if is_str(o) or isinstance(o, (SSeq, TokList, PyDict, tuple)):
            return ('$method', o, attr)
        if hasattr(o, 'py_method'):
            return ('$pymethod', o, attr)
        if o is None:
            self.prove(st, 'safe:none-deref@%d' % line, False, line)
            st.assume(False)
            return Opaque('dead')
        raise Unsupported('attribute %s of %r at %d' % (attr, o, line))

    def ev_BoolOp(self, node, st, fi):
        is_and = isinstance(node.op, ast.And)
        yield from self._boolop(node.values, is_and, st, fi, node.lineno)

    def _boolop(self, vals, is_and, st, fi, line):
        if len(vals) == 1:
            yield from self.ev(vals[0], st, fi)
            return
        for st1, a in self.ev(vals[0], st, fi):
            t = self.truth(a, st1, line)
            if t is (not is_and):      # short circuit
                yield st1, a
                continue
            if t is is_and:
                yield from self._boolop(vals[1:], is_and, st1, fi, line)
                continue
            g = t if is_and else Not(t)
            # try the non-forking merge first
            probe = st1.clone()
            probe.assume(g)
            npc = len(probe.pc)
            nobl = len(self.obligations)
            res = list(self._boolop(vals[1:], is_and, probe, fi, line))
            if len(res) == 1 and res[0][0].mut == st1.mut:
                stb, b = res[0]
                tb = None
                try:
                    tb = self.truth(b, stb, line)
                except Unsupported:
                    tb = None
                if tb is not None and (is_bool(a) or True):
                    # merge: assumptions made while evaluating b are kept
                    # under the guard g
                    self.merge_probe(st1, stb, g, npc)
                    # values: python returns a or b themselves; we only
                    # merge when the result is used as a truth value or both
                    # are bools
                    if is_bool(a) and is_bool(b):
                        yield st1, (And(t, tb) if is_and else Or(t, tb))
                        continue
                    a_eff = a
                    if not is_and and isinstance(a, OptVal):
                        # `a or b` yields a only when a is truthy, hence
                        # not None: the wrapped value itself
                        a_eff = a.val
                    mv = merge_pair(self, g, b, a_eff, st1)
                    if mv is not NotImplemented:
                        yield st1, mv
                        continue
            # fork (obligations emitted by the probe stay valid: they carry
            # the probe's path condition)
            for stb, b in res:
                yield stb, b
            st1.assume(Not(g))
            yield st1, a

    def ev_UnaryOp(self, node, st, fi):
        for st1, v in self.ev(node.operand, st, fi):
            if isinstance(node.op, ast.Not):
                yield st1, Not(self.truth(v, st1, node.lineno))
            elif isinstance(node.op, ast.USub):
                yield st1, -v if isinstance(v, int) else -zint(v)
            else:
                raise Unsupported('unary op at %d' % node.lineno)

    def ev_IfExp(self, node, st, fi):
        for st1, c in self.ev(node.test, st, fi):
            t = self.truth(c, st1, node.lineno)
            if t is True:
                yield from self.ev(node.body, st1, fi)
            elif t is False:
                yield from self.ev(node.orelse, st1, fi)
            else:
                a = st1.clone()
                a.assume(t)
                npc = len(a.pc)
                ra = list(self.ev(node.body, a, fi))
                b = st1.clone()
                b.assume(Not(t))
                rb = list(self.ev(node.orelse, b, fi))
                if len(ra) == 1 and len(rb) == 1 and \
                        ra[0][0].mut == st1.mut and rb[0][0].mut == st1.mut:
                    mv = merge_pair(self, t, ra[0][1], rb[0][1], st1)
                    if mv is not NotImplemented:
                        self.merge_probe(st1, ra[0][0], t, npc)
                        self.merge_probe(st1, rb[0][0], Not(t), npc)
                        yield st1, mv
                        continue
                yield from ra
                yield from rb

    def ev_Tuple(self, node, st, fi):
        yield from self._ev_list(node.elts, st, fi, tuple)

    def _ev_list(self, elts, st, fi, mk):
        def rec(i, st, acc):
            if i == len(elts):
                yield st, mk(acc)
                return
            e = elts[i]
            if isinstance(e, ast.Starred):
                for st1, v in self.ev(e.value, st, fi):
                    if isinstance(v, tuple):
                        yield from rec(i + 1, st1, acc + list(v))
                    else:
                        raise Unsupported('star of non-tuple')
                return
            for st1, v in self.ev(e, st, fi):
                yield from rec(i + 1, st1, acc + [v])
        yield from rec(0, st, [])

    def ev_List(self, node, st, fi):
        if any(isinstance(e, ast.Starred) for e in node.elts):
            # [a, *xs, b]  ==  [a] + list(xs) + [b]  (a new list)
            yield from self._ev_star_list(node, st, fi)
            return
        for st1, vals in self._ev_list(node.elts, st, fi, list):
            yield st1, self.make_list(vals, st1, node.lineno)

    def _ev_star_list(self, node, st, fi):
        from . import builtins as bi
        groups, cur = [], []
        for e in node.elts:
            if isinstance(e, ast.Starred):
                if cur:
                    groups.append(('plain', cur))
                    cur = []
                groups.append(('star', e.value))
            else:
                cur.append(e)
        if cur:
            groups.append(('plain', cur))

        def rec(i, st, acc):
            if i == len(groups):
                yield st, acc
                return
            kind, g = groups[i]
            if kind == 'plain':
                for st1, vals in self._ev_list(g, st, fi, list):
                    part = self.make_list(vals, st1, node.lineno)
                    yield from rec(i + 1, st1, self._cat(acc, part, st1,
                                                         node.lineno))
            else:
                for st1, v in self.ev(g, st, fi):
                    v = bi.iterable_as_list(self, st1, v, node.lineno)
                    if isinstance(v, tuple):
                        v = self.make_list(list(v), st1, node.lineno)
                    if not isinstance(v, (TokList, SSeq)) or (
                            isinstance(v, SSeq) and v.kind != 'ilist'):
                        raise Unsupported('star of %r in a list display at '
                                          '%d' % (v, node.lineno))
                    yield from rec(i + 1, st1, self._cat(acc, v, st1,
                                                         node.lineno))
        yield from rec(0, st, None)

    def _cat(self, acc, part, st, line):
        if acc is None:
            # first group: a copy (the display builds a new list)
            if isinstance(part, TokList):
                return TokList(list(part.segs))
            return part
        if isinstance(acc, TokList) and not acc.segs:
            return self._cat(None, part, st, line)
        if isinstance(part, TokList) and not part.segs:
            return acc
        return self.binop(ast.Add(), acc, part, st, line)

    def make_list(self, vals, st, line):
        if not vals:
            return TokList([])
        if all(is_int(v) and not is_bool(v) for v in vals):
            return lift_ilist(vals)
        return TokList([Single(v) for v in vals])

    def ev_Dict(self, node, st, fi):
        d = PyDict('literal')
        sts = [st]
        for k, v in zip(node.keys, node.values):
            nxt = []
            for s1 in sts:
                for s2, kv in self.ev(k, s1, fi):
                    for s3, vv in self.ev(v, s2, fi):
                        if not (isinstance(kv, str) or kv is None):
                            if isinstance(kv, SSeq):
                                d.sym_items.append((kv, vv))
                                nxt.append(s3)
                                continue
                            raise Unsupported('dict literal key')
                        d.items[kv] = vv
                        nxt.append(s3)
            sts = nxt
        if len(sts) != 1:
            raise Unsupported('forking dict literal')
        yield sts[0], d

    def ev_Compare(self, node, st, fi):
        def rec(st, left, i, acc):
            if i == len(node.ops):
                yield st, acc
                return
            for st1, r in self.ev(node.comparators[i], st, fi):
                c = self.compare(node.ops[i], left, r, st1, node.lineno)
                yield from rec(st1, r, i + 1, And(acc, c))
        for st1, l in self.ev(node.left, st, fi):
            yield from rec(st1, l, 0, True)

    def compare(self, op, a, b, st, line):
        if isinstance(op, (ast.Is, ast.IsNot)):
            r = self.identical(a, b, st, line)
            return r if isinstance(op, ast.Is) else Not(r)
        if isinstance(op, (ast.In, ast.NotIn)):
            r = self.contains(b, a, st, line)
            return r if isinstance(op, ast.In) else Not(r)
        if isinstance(op, (ast.Eq, ast.NotEq)):
            r = self.equal(a, b, st, line)
            return r if isinstance(op, ast.Eq) else Not(r)
        if is_str(a) and is_str(b):
            return self.str_order(op, a, b, st, line)
        if hasattr(a, 'py_int'):
            a = a.py_int(self, st, line, 'compare')
        if hasattr(b, 'py_int'):
            b = b.py_int(self, st, line, 'compare')
        if not (is_int(a) or is_bool(a)) or not (is_int(b) or is_bool(b)):
            raise Unsupported('ordering of %r and %r at %d' % (a, b, line))
        if isinstance(a, int) and isinstance(b, int):
            return {ast.Lt: a < b, ast.LtE: a <= b, ast.Gt: a > b,
                    ast.GtE: a >= b}[type(op)]
        a, b = zint(a), zint(b)
        if isinstance(op, ast.Lt):
            return a < b
        if isinstance(op, ast.LtE):
            return a <= b
        if isinstance(op, ast.Gt):
            return a > b
        if isinstance(op, ast.GtE):
            return a >= b
        raise Unsupported('compare op')

    def str_order(self, op, a, b, st, line):
        """ordering of strings: supported when both have length 1 (code
        point order) -- obligation-free, falls back to Unsupported"""
        a, b = lift_str(a), lift_str(b)
        if a.conc is not None and b.conc is not None:
            return {ast.Lt: a.conc < b.conc, ast.LtE: a.conc <= b.conc,
                    ast.Gt: a.conc > b.conc, ast.GtE: a.conc >= b.conc}[
                        type(op)]
        la, lb = a.ln, b.ln
        if not (isinstance(la, int) and la == 1) or \
                not (isinstance(lb, int) and lb == 1):
            # lexicographic order of one-char strings only; require proof
            self.prove(st, 'engine:strcmp-len1@%d' % line,
                       And(zint(la) == 1, zint(lb) == 1), line,
                       note='string ordering only modelled for single '
                            'characters')
        x, y = a.at(0), b.at(0)
        return {ast.Lt: x < y, ast.LtE: x <= y, ast.Gt: x > y,
                ast.GtE: x >= y}[type(op)]

    def identical(self, a, b, st, line):
        if a is None or b is None:
            o = b if a is None else a
            if o is None:
                return True
            if isinstance(o, Opt):
                return o.isnone
            if isinstance(o, OptVal):
                return o.isnone
            return False
        if isinstance(a, OptVal) or isinstance(b, OptVal):
            if isinstance(b, OptVal):
                a, b = b, a
            return And(Not(a.isnone), self.identical(a.val, b, st, line))
        if isinstance(a, ClassRef) or isinstance(b, ClassRef):
            # type(x) is C  -- a is the tag value of type(x)
            ta = self.tag(a.qual) if isinstance(a, ClassRef) else a
            tb = self.tag(b.qual) if isinstance(b, ClassRef) else b
            if isinstance(ta, TypeOf):
                ta = ta.tag
            if isinstance(tb, TypeOf):
                tb = tb.tag
            if isinstance(ta, int) and isinstance(tb, int):
                return ta == tb
            return zint(ta) == zint(tb)
        if isinstance(a, TypeOf) or isinstance(b, TypeOf):
            ta = a.tag if isinstance(a, TypeOf) else self._type_tag(a)
            tb = b.tag if isinstance(b, TypeOf) else self._type_tag(b)
            if isinstance(ta, int) and isinstance(tb, int):
                return ta == tb
            return zint(ta) == zint(tb)
        if isinstance(a, Obj) and isinstance(b, Obj):
            return a is b if (a.oid == b.oid) else fresh_bool('same')
        if is_bool(a) and is_bool(b):
            return zbool(a) == zbool(b)
        raise Unsupported('`is` on %r, %r at %d' % (a, b, line))

    def _type_tag(self, v):
        if isinstance(v, Builtin):
            return self.class_tags[v.name]
        if isinstance(v, ClassRef):
            return self.tag(v.qual)
        raise Unsupported('type tag of %r' % (v,))

    def equal(self, a, b, st, line):
        if a is None or b is None:
            return self.identical(a, b, st, line)
        if is_str(a) and is_str(b):
            return sym.seq_eq(a, b)
        if isinstance(a, OptVal) or isinstance(b, OptVal):
            if isinstance(b, OptVal):
                a, b = b, a
            if isinstance(b, OptVal):
                raise Unsupported('== of two optionals')
            return And(Not(a.isnone), self.equal(a.val, b, st, line))
        if isinstance(a, SSeq) and isinstance(b, SSeq):
            return sym.seq_eq(a, b)
        if (is_int(a) or is_bool(a)) and (is_int(b) or is_bool(b)):
            if is_bool(a) and is_bool(b):
                if isinstance(a, bool) and isinstance(b, bool):
                    return a == b
                return zbool(a) == zbool(b)
            if isinstance(a, int) and isinstance(b, int):
                return a == b
            return zint(a) == zint(b)
        if is_str(a) != is_str(b) and (is_int(a) or is_int(b)):
            return False
        if isinstance(a, tuple) and isinstance(b, tuple):
            if len(a) != len(b):
                return False
            return And(*[self.equal(x, y, st, line) for x, y in zip(a, b)])
        if isinstance(a, TokList) and isinstance(b, TokList):
            hook = self.contracts.list_equal
            if hook:
                r = hook(self, st, a, b, line)
                if r is not NotImplemented:
                    return r
        if isinstance(a, (TypeOf, ClassRef)) or isinstance(b, (TypeOf,
                                                                ClassRef)):
            return self.identical(a, b, st, line)
        raise Unsupported('== on %r, %r at %d' % (a, b, line))

    def contains(self, coll, x, st, line):
        """x in coll"""
        if hasattr(coll, 'py_contains'):
            return coll.py_contains(self, st, x, line)
        if isinstance(coll, str) and isinstance(x, str):
            return x in coll
        if is_str(coll) and is_str(x):
            x = lift_str(x)
            if isinstance(x.ln, int) and x.ln == 1:
                return sym.seq_contains_char(coll, x.at(0))
            if is_str(coll) and isinstance(coll, str) and x.conc is None:
                # symbolic x in concrete string (e.g. c in '*AO'):
                # substring semantics; the empty string is always contained
                opts = [sym.seq_eq(x, '')]
                for a in range(len(coll)):
                    for b in range(a + 1, len(coll) + 1):
                        opts.append(sym.seq_eq(x, coll[a:b]))
                return Or(*opts)
            hook = self.contracts.str_contains
            if hook:
                r = hook(self, st, coll, x, line)
                if r is not NotImplemented:
                    return r
            # general substring test: an unknown truth value that respects
            # the lengths (sound over-approximation)
            b = fresh_bool('substr')
            xs, cs = lift_str(x), lift_str(coll)
            st.assume(Implies(b, zint(xs.ln) <= zint(cs.ln)))
            st.assume(Implies(zint(xs.ln) == 0, b))
            return b
        if isinstance(coll, tuple):
            return Or(*[self.equal(x, c, st, line) if not isinstance(
                c, ClassRef) else self.identical(x, c, st, line)
                for c in coll])
        if isinstance(coll, TokList):
            # membership in a list of strings / values with concrete segs
            if all(isinstance(s, Single) for s in coll.segs):
                return Or(*[self.equal(x, s.obj, st, line)
                            for s in coll.segs])
            hook = self.contracts.list_contains
            if hook:
                r = hook(self, st, coll, x, line)
                if r is not NotImplemented:
                    return r
            b = fresh_bool('member')
            st.assume(Implies(zint(coll.length()) == 0, Not(b)))
            return b
        if isinstance(coll, StrSet):
            return coll.member(self, st, x)
        if isinstance(coll, PyDict):
            if isinstance(x, str) or x is None:
                if coll.has is None:
                    return x in coll.items
                if x in coll.items:
                    return True
            if coll.has is not None:
                return coll.has(self, st, x)
            if is_str(x):
                return Or(*[sym.seq_eq(x, k) for k in coll.items
                            if isinstance(k, str)])
            raise Unsupported('symbolic key test at %d' % line)
        if isinstance(coll, SSeq) and coll.kind == 'ilist' and \
                hasattr(x, 'ident'):
            if hasattr(x, 'member_of'):
                return x.member_of(self, st, coll)
            return sym.seq_contains_char(coll, x.ident)
        if isinstance(coll, SSeq) and coll.kind == 'ilist' and is_int(x):
            return sym.seq_contains_char(coll, x)
        raise Unsupported('`in` on %r at %d' % (coll, line))

    def ev_BinOp(self, node, st, fi):
        for st1, a in self.ev(node.left, st, fi):
            for st2, b in self.ev(node.right, st1, fi):
                yield st2, self.binop(node.op, a, b, st2, node.lineno)

    def binop(self, op, a, b, st, line):
        if hasattr(a, 'py_binop'):
            r = a.py_binop(self, st, op, b, line)
            if r is not NotImplemented:
                return r
        if isinstance(a, OptVal):
            self.prove(st, 'safe:none-operand@%d' % line, Not(a.isnone), line)
            a = a.val
        if isinstance(b, OptVal):
            self.prove(st, 'safe:none-operand@%d' % line, Not(b.isnone), line)
            b = b.val
        if hasattr(a, 'py_int') or hasattr(b, 'py_int'):
            other = b if hasattr(a, 'py_int') else a
            if is_str(other) and not isinstance(op, ast.Mult):
                a = a.py_str(self, st, line) if hasattr(a, 'py_str') else a
                b = b.py_str(self, st, line) if hasattr(b, 'py_str') else b
            else:
                a = a.py_int(self, st, line) if hasattr(a, 'py_int') else a
                b = b.py_int(self, st, line) if hasattr(b, 'py_int') else b
        if isinstance(op, ast.Add):
            if is_str(a) and is_str(b):
                return sym.seq_concat(a, b)
            if isinstance(a, SSeq) and isinstance(b, SSeq):
                r = sym.seq_concat(a, b)
                if self.contracts.ilist_lemma_hook and a.kind == 'ilist':
                    self.contracts.ilist_lemma_hook(self, st, 'concat',
                                                    (a, b), r, None)
                return r
            if isinstance(a, SSeq) and isinstance(b, TokList) and not b.segs:
                return a
            if isinstance(b, SSeq) and isinstance(a, TokList) and not a.segs:
                return b
            if isinstance(a, TokList) and isinstance(b, TokList):
                return TokList(a.segs + b.segs)
            if isinstance(a, tuple) and isinstance(b, tuple):
                return a + b
            if is_int(a) and is_int(b):
                return a + b
        elif isinstance(op, ast.Sub):
            if is_int(a) and is_int(b):
                return a - b
        elif isinstance(op, ast.Mult):
            if is_int(a) and is_int(b):
                return a * b
            if is_str(a) and is_int(b):
                a = lift_str(a)
                if a.conc is not None and isinstance(b, int):
                    return a.conc * b
                if isinstance(a.ln, int) and a.ln == 1:
                    return sym.seq_repeat(a.at(0), b, 'str')
                raise Unsupported('str * int at %d' % line)
            if isinstance(a, SSeq) and a.kind == 'ilist' and is_int(b):
                if isinstance(a.ln, int) and a.ln == 1:
                    return sym.seq_repeat(a.at(0), b, 'ilist')
                if isinstance(a.ln, int) and a.ln == 0:
                    return a
            if isinstance(a, TokList) and is_int(b):
                if len(a.segs) == 1 and isinstance(a.segs[0], Single):
                    o = a.segs[0].obj
                    n = b if isinstance(b, int) else \
                        z3.If(b > 0, b, z3.IntVal(0))
                    return TokList([Many(n, lambda s, o=o: o, False,
                                         'repeat')])
        elif isinstance(op, ast.Mod):
            if is_int(a) and is_int(b):
                if isinstance(a, int) and isinstance(b, int):
                    return a % b
                raise Unsupported('symbolic %')
        raise Unsupported('binop %s on %r, %r at %d' % (
            type(op).__name__, a, b, line))

    def ev_Subscript(self, node, st, fi):
        for st1, o in self.ev(node.value, st, fi):
            if isinstance(node.slice, ast.Slice):
                sl = node.slice
                if sl.step is not None:
                    raise Unsupported('slice step')

                def part(n, s):
                    if n is None:
                        return [(s, None)]
                    return list(self.ev(n, s, fi))
                for st2, lo in part(sl.lower, st1):
                    for st3, hi in part(sl.upper, st2):
                        yield st3, self.slice(o, lo, hi, st3, node.lineno)
            else:
                for st2, i in self.ev(node.slice, st1, fi):
                    yield st2, self.index(o, i, st2, node.lineno)

    def slice(self, o, lo, hi, st, line):
        if is_str(o) or isinstance(o, SSeq):
            return sym.seq_slice(o, lo, hi)
        if isinstance(o, TokList):
            return self.list_slice(o, lo, hi, st, line)
        if isinstance(o, tuple) and (lo is None or isinstance(lo, int)) and \
                (hi is None or isinstance(hi, int)):
            return o[lo:hi]
        raise Unsupported('slice of %r at %d' % (o, line))

    def list_slice(self, lst, lo, hi, st, line):
        n = lst.length()
        if lo is None and hi is None:
            return TokList(list(lst.segs))
        # concrete prefix / suffix over Single segments
        if all(isinstance(s, Single) for s in lst.segs) and \
                (lo is None or isinstance(lo, int)) and \
                (hi is None or isinstance(hi, int)):
            return TokList(lst.segs[lo:hi])
        if isinstance(lo, int) and lo >= 0 and hi is None:
            segs = list(lst.segs)
            k = lo
            while k > 0 and segs and isinstance(segs[0], Single):
                segs.pop(0)
                k -= 1
            if k == 0:
                return TokList(segs)
            if len(segs) == 1:
                sg = segs[0]
                ln = sym.imax(sg.ln - k, 0)
                return TokList([Many(ln, sg.mk, sg.fresh, sg.label)])
        if lo is None and hi is not None and len(lst.segs) == 1 and \
                isinstance(lst.segs[0], Many):
            sg = lst.segs[0]
            b = sym.clamp_index(hi, n)
            return TokList([Many(b, sg.mk, sg.fresh, sg.label, sg.indexed)])
        # general: a sub-list whose elements are elements of lst
        a = 0 if lo is None else sym.clamp_index(lo, n)
        b = n if hi is None else sym.clamp_index(hi, n)
        ln = fresh_int('sl')
        st.assume(ln == sym.imax(zint(b) - zint(a), 0))
        src = TokList(list(lst.segs))
        ex = self

        def mk(s, src=src):
            tmp = TokList(list(src.segs))
            ex.normalise(tmp, s)
            return tmp.segs[0].mk(s)
        fresh = all((not isinstance(s, Single)) and s.fresh
                    for s in lst.segs) and bool(lst.segs)
        return TokList([Many(ln, mk, fresh, 'slice')])

    def index(self, o, i, st, line):
        if hasattr(i, 'py_int'):
            i = i.py_int(self, st, line, 'as-index')
        if hasattr(o, 'py_index'):
            return o.py_index(self, st, i, line)
        if isinstance(o, Opt):
            self.prove(st, 'safe:none-deref@%d' % line, Not(o.isnone), line)
            o = o.obj
        if is_str(o) or isinstance(o, SSeq):
            s = lift_str(o) if is_str(o) else o
            n = s.ln
            if isinstance(i, int) and isinstance(n, int):
                if not (-n <= i < n):
                    self.prove(st, 'safe:index@%d' % line, False, line)
                    st.assume(False)
                    return 0 if s.kind == 'ilist' else ''
                k = i if i >= 0 else i + n
            else:
                self.prove(st, 'safe:index@%d' % line,
                           And(zint(i) >= -zint(n), zint(i) < zint(n)), line)
                if isinstance(i, int):
                    k = i if i >= 0 else zint(n) + i
                else:
                    k = z3.If(zint(i) < 0, zint(i) + zint(n), zint(i))
            e = s.at(k)
            if s.kind == 'str':
                if s.conc is not None and isinstance(k, int):
                    return s.conc[k]
                return sym.char(e)
            return e
        if isinstance(o, TokList):
            if not is_int(i):
                raise Unsupported('non-int index at %d' % line)
            hook = self.contracts.list_index_hook
            if hook:
                hook(self, st, o, i, line)
            return self.list_get(o, i, st, line)
        if isinstance(o, tuple):
            if isinstance(i, int):
                if not (-len(o) <= i < len(o)):
                    self.prove(st, 'safe:index@%d' % line, False, line)
                    st.assume(False)
                    return None
                return o[i]
            raise Unsupported('symbolic tuple index at %d' % line)
        if isinstance(o, PyDict):
            return self.dict_get(o, i, st, line)
        raise Unsupported('subscript of %r at %d' % (o, line))

    def dict_get(self, d, k, st, line, check=True):
        for kk, vv in d.sym_items:
            if kk is k:
                return vv
        if (isinstance(k, str) or k is None) and k in d.items:
            return d.items[k]
        if isinstance(k, SSeq) and k.conc is not None and k.conc in d.items:
            return d.items[k.conc]
        if check:
            self.prove(st, 'safe:key@%d' % line,
                       self.contains(d, k, st, line), line)
        if d.default_mk is None:
            if is_str(k) and d.items:
                # ite over the concrete keys
                cands = [(sym.seq_eq(k, kk), v) for kk, v in d.items.items()
                         if isinstance(kk, str)]
                return merge_values(self, cands, st)
            raise Unsupported('symbolic dict lookup in %s at %d' % (d.tag,
                                                                     line))
        return d.default_mk(self, st, k)

    # ------------------------------------------------------------ truthiness
    def truth(self, v, st, line=0):
        if v is None:
            return False
        if isinstance(v, bool):
            return v
        if isinstance(v, z3.BoolRef):
            if z3.is_true(v):
                return True
            if z3.is_false(v):
                return False
            return v
        if isinstance(v, int):
            return v != 0
        if isinstance(v, z3.ArithRef):
            return v != 0
        if isinstance(v, str):
            return len(v) > 0
        if isinstance(v, SSeq):
            if isinstance(v.ln, int):
                return v.ln > 0
            return v.ln > 0
        if isinstance(v, TokList):
            n = v.length()
            if isinstance(n, int):
                return n > 0
            return n > 0
        if isinstance(v, Opt):
            return Not(v.isnone)
        if isinstance(v, OptVal):
            return And(Not(v.isnone), self.truth(v.val, st, line))
        if isinstance(v, Obj):
            return True
        if isinstance(v, tuple):
            return len(v) > 0
        if isinstance(v, PyDict):
            if v.has is None:
                return len(v.items) > 0
        if isinstance(v, (FuncRef, ClassRef, Builtin)):
            return True
        if isinstance(v, Opaque) and v.data is not None and \
                'truth' in v.data:
            return v.data['truth']
        if hasattr(v, 'truth_value'):
            return v.truth_value(self, st)
        if hasattr(v, 'py_truth'):
            return v.py_truth(self, st)
        raise Unsupported('truth value of %r at %d' % (v, line))

    # ----------------------------------------------------------------- calls
    def ev_Call(self, node, st, fi):
        from . import builtins as bi
        yield from bi.call(self, node, st, fi)

    def ev_Lambda(self, node, st, fi):
        yield st, LambdaRef(node, st.env)

    def ev_ListComp(self, node, st, fi):
        from . import builtins as bi
        yield from bi.listcomp(self, node, st, fi)

    def ev_GeneratorExp(self, node, st, fi):
        yield st, GenExp(node, st)

    def ev_DictComp(self, node, st, fi):
        hook = self.contracts.dictcomp
        if hook:
            r = hook(self, node, st, fi)
            if r is not NotImplemented:
                yield st, r
                return
        raise Unsupported('dict comprehension at %d' % node.lineno)

    def ev_Starred(self, node, st, fi):
        raise Unsupported('starred expression at %d' % node.lineno)


class LambdaRef:
    def __init__(self, node, env):
        self.node = node
        self.env = env


class TypeOf:
    """result of type(x)"""
    def __init__(self, tag):
        self.tag = tag


class OptVal:
    """optional non-object value (e.g. str or None)"""
    def __init__(self, isnone, val):
        self.isnone = isnone
        self.val = val


class StrSet:
    """abstract set/list of strings with an uninterpreted membership
    predicate; `known` are members, `known_not` non-members"""
    def __init__(self, name, known=(), known_not=(), exact=False,
                 maxlen=None):
        self.maxlen = maxlen
        self.name = name
        self.fn = z3.Function('in_' + name, sym.A, sym.I, sym.B)
        self.known = list(known)
        self.known_not = list(known_not)
        self.exact = exact      # membership is exactly `known`

    def truth_value(self, ex, st):
        if self.exact:
            return len(self.known) > 0
        if self.known:
            return True
        if not hasattr(self, '_nonempty'):
            self._nonempty = fresh_bool('nonempty_' + self.name)
        return self._nonempty

    def member(self, ex, st, x):
        if x is None:
            return None in self.known
        if isinstance(x, tuple):
            memo = self.__dict__.setdefault('_tuples', {})
            key = tuple((lift_str(e).arr.sexpr(), str(lift_str(e).ln))
                        if is_str(e) else repr(e) for e in x)
            if key not in memo:
                memo[key] = fresh_bool('in_' + self.name)
            return memo[key]
        if isinstance(x, str):
            if x in self.known:
                return True
            if x in self.known_not or self.exact:
                return False
        x = lift_str(x)
        if self.exact:
            return Or(*[sym.seq_eq(x, k) for k in self.known])
        b = self.fn(x.arr, zint(x.ln))
        if self.maxlen is not None:
            st.assume(Implies(b, And(zint(x.ln) >= 1,
                                     zint(x.ln) <= self.maxlen)))
        # consistency with the known members / non-members
        for k in self.known:
            if k is not None:
                st.assume(Implies(sym.seq_eq(x, k), b))
        for k in self.known_not:
            st.assume(Implies(sym.seq_eq(x, k), Not(b)))
        return b


class GuardedState:
    """state proxy: assumptions are added under a guard"""
    def __init__(self, st, guard):
        self._st = st
        self._g = guard
        self.ex = st.ex

    def assume(self, f):
        self._st.assume(Implies(self._g, f))

    @property
    def env(self):
        return self._st.env

    @property
    def ghost(self):
        return self._st.ghost

    @property
    def pc(self):
        return self._st.pc


def merge_pair(ex, c, a, b, st):
    """value equal to a if c else b, or NotImplemented"""
    if a is b:
        return a
    if (is_int(a) or is_bool(a)) and (is_int(b) or is_bool(b)) and \
            is_bool(a) == is_bool(b):
        return Ite(c, a, b)
    if is_str(a) and is_str(b):
        a1, b1 = lift_str(a), lift_str(b)
        r = SSeq(z3.If(c, a1.arr, b1.arr), Ite(c, a1.ln, b1.ln), 'str')
        # ghost provenance tags: 'raw' (taint) is a MAY property and
        # survives if either side carries it; any other tag is a MUST
        # property and survives only if both sides agree
        ta, tb = getattr(a, 'tag', None), getattr(b, 'tag', None)
        if ta == tb:
            r.tag = ta
        elif 'raw' in (ta, tb):
            r.tag = 'raw'
        return r
    if isinstance(a, SSeq) and isinstance(b, SSeq) and a.kind == b.kind:
        return SSeq(z3.If(c, a.arr, b.arr), Ite(c, a.ln, b.ln), a.kind)
    if isinstance(a, tuple) and isinstance(b, tuple) and len(a) == len(b) \
            and not (a and isinstance(a[0], str) and a[0].startswith('$')):
        parts = [merge_pair(ex, c, x, y, st) for x, y in zip(a, b)]
        if any(p is NotImplemented for p in parts):
            return NotImplemented
        return tuple(parts)
    if isinstance(a, (Obj, Opt)) or isinstance(b, (Obj, Opt)) or a is None \
            or b is None:
        if (a is None or isinstance(a, (Obj, Opt))) and \
                (b is None or isinstance(b, (Obj, Opt))):
            return merge_values(ex, [(c, a), (Not(c), b)], st)
    if isinstance(a, OptVal) or isinstance(b, OptVal) or \
            ((a is None) != (b is None)):
        def split(v):
            if v is None:
                return True, None
            if isinstance(v, OptVal):
                return v.isnone, v.val
            return False, v
        na, va = split(a)
        nb, vb = split(b)
        if va is None:
            va = vb
        if vb is None:
            vb = va
        mv = merge_pair(ex, c, va, vb, st)
        if mv is NotImplemented:
            return NotImplemented
        return OptVal(Ite(c, na, nb), mv)
    return NotImplemented


def merge_values(ex, cands, st):
    """cands: [(cond, value)] with exhaustive, exclusive conds (under pc)"""
    vals = [v for _, v in cands]
    if all(v is vals[0] for v in vals):
        return vals[0]
    if all(isinstance(v, Obj) or v is None or isinstance(v, Opt)
           for v in vals):
        # merged *view*: fields are ite-merged; class tag too
        objs = []
        for c, v in cands:
            if v is None:
                objs.append((c, True, None))
            elif isinstance(v, Opt):
                objs.append((c, v.isnone, v.obj))
            else:
                objs.append((c, False, v))
        some = [o for _, _, o in objs if o is not None]
        if not some:
            return None
        names = set(some[0].fields)
        for o in some[1:]:
            names &= set(o.fields)
        view = Obj(None, {}, meta={'view': [o for o in some]})
        tag = None
        for c, n, o in reversed(objs):
            if o is None:
                continue
            t = ex.cls_of(o)
            tag = t if tag is None else Ite(c, t, tag)
        view.cls = tag
        if isinstance(tag, int):
            for q, t in ex.class_tags.items():
                if t == tag:
                    view.cls = q
        for f in names:
            acc = None
            ok = True
            for c, n, o in reversed(objs):
                if o is None:
                    continue
                fv = o.fields[f]
                if acc is None:
                    acc = fv
                else:
                    m = merge_pair(ex, c, fv, acc, st)
                    if m is NotImplemented:
                        ok = False
                        break
                    acc = m
            if ok:
                view.fields[f] = acc
        isn = False
        anynone = any(o is None or (n is not False) for _, n, o in objs)
        if anynone:
            isn = Or(*[And(c, n) for c, n, o in objs])
            return Opt(isn, view)
        return view
    acc = None
    for c, v in reversed(cands):
        if acc is None:
            acc = v
        else:
            m = merge_pair(ex, c, v, acc, st)
            if m is NotImplemented:
                raise Unsupported('cannot merge %r and %r' % (v, acc))
            acc = m
    return acc


def _path_of(node):
    """dotted access path Name(.attr)* or None"""
    parts = []
    while isinstance(node, ast.Attribute):
        parts.append(node.attr)
        node = node.value
    if isinstance(node, ast.Name):
        parts.append(node.id)
        return '.'.join(reversed(parts))
    return None


_MUTATORS = ('append', 'extend', 'insert', 'pop', 'sort', 'remove', 'clear')


_QCACHE = {}


def _has_quantifier(e):
    k = e.get_id()
    r = _QCACHE.get(k)
    if r is None:
        r = False
        todo = [e]
        seen = set()
        while todo:
            x = todo.pop()
            i = x.get_id()
            if i in seen:
                continue
            seen.add(i)
            if z3.is_quantifier(x):
                r = True
                break
            todo.extend(x.children())
        _QCACHE[k] = r
    return r


def _split_goal(g, depth=0):
    """conjuncts of a goal (And / If at the top are split so that every
    clause is its own, smaller obligation)"""
    if not isinstance(g, z3.BoolRef) or depth > 4:
        return [g]
    if z3.is_and(g):
        out = []
        for c in g.children():
            out += _split_goal(c, depth + 1)
        return out
    if z3.is_app_of(g, z3.Z3_OP_ITE):
        c, a, b = g.children()
        return ([z3.Implies(c, x) for x in _split_goal(a, depth + 1)] +
                [z3.Implies(z3.Not(c), x) for x in _split_goal(b,
                                                               depth + 1)])
    if z3.is_implies(g):
        a, b = g.children()
        parts = _split_goal(b, depth + 1)
        if len(parts) > 1:
            return [z3.Implies(a, x) for x in parts]
    return [g]


def refine_list(ex, st, lst, fn):
    """every element of the summarised list additionally satisfies
    fn(ex, state, elem) -- only to be used where a loop over the whole list
    has established it (loop body contract)"""
    new = []
    for sg in lst.segs:
        if isinstance(sg, Single):
            st.assume(fn(ex, st, sg.obj))
            new.append(sg)
        else:
            def mk(s1, sg=sg):
                e = sg.mk(s1)
                s1.assume(fn(ex, s1, e))
                return e
            m = Many(sg.ln, mk, sg.fresh, sg.label + '+ref', sg.indexed)
            new.append(m)
    lst.segs[:] = new
    cache = st.ghost.get('$lcache')
    if cache:
        for k in [k for k in cache if k[0] == lst.lid]:
            del cache[k]


def _assigned_names(loop):
    """names and dotted paths (x.f) assigned or mutated in place in a loop"""
    out = []

    def add(p):
        if p is not None and p not in out:
            out.append(p)

    def tgt(t):
        if isinstance(t, ast.Name):
            add(t.id)
        elif isinstance(t, (ast.Tuple, ast.List)):
            for e in t.elts:
                tgt(e)
        elif isinstance(t, ast.Attribute):
            add(_path_of(t))
        elif isinstance(t, ast.Subscript):
            add(_path_of(t.value))

    def walk(n):
        for c in ast.iter_child_nodes(n):
            if isinstance(c, (ast.FunctionDef, ast.Lambda)):
                if isinstance(c, ast.FunctionDef):
                    add(c.name)
                continue
            if isinstance(c, ast.Assign):
                for t in c.targets:
                    tgt(t)
            elif isinstance(c, (ast.AugAssign, ast.AnnAssign)):
                tgt(c.target)
            elif isinstance(c, ast.For):
                tgt(c.target)
            elif isinstance(c, ast.NamedExpr):
                tgt(c.target)
            elif isinstance(c, ast.With):
                for it in c.items:
                    if it.optional_vars is not None:
                        tgt(it.optional_vars)
            elif isinstance(c, ast.Call) and isinstance(c.func,
                                                        ast.Attribute) \
                    and c.func.attr in _MUTATORS:
                add(_path_of(c.func.value))
            walk(c)
    if isinstance(loop, ast.For):
        tgt(loop.target)
    walk(loop)
    return out


def _as_load(t):
    import copy
    n = copy.copy(t)
    n.ctx = ast.Load()
    return n


def _tr(st):
    return '/'.join(st.trace[-6:])


_BUILTINS = {'len', 'min', 'max', 'abs', 'next', 'list', 'range', 'reversed',
             'type', 'isinstance', 'int', 'str', 'any', 'all', 'callable',
             'repr', 'enumerate', 'super', 'float', 'set', 'dict', 'tuple',
             'bool', 'sorted', 'chr', 'ord', 'open', 'exec', 'eval', 'sum',
             'zip', 'print', 'RecursionError', 'Exception'}
