"""Verification driver: one worker per function (fork pool), results as
plain dicts."""
import importlib
import multiprocessing as mp
import os
import sys
import time
import traceback

HERE = os.path.dirname(os.path.dirname(os.path.abspath(__file__)))
if HERE not in sys.path:
    sys.path.insert(0, HERE)


def load_contracts(modnames):
    from pyvc import front
    from pyvc.contracts import ContractTable
    T = ContractTable()
    repo = front.repo()
    for m in modnames:
        mod = importlib.import_module(m)
        mod.register(T, repo)
    return T, repo


def verify_one(job):
    """job = (qual, contract modules, options) -> result dict"""
    qual, mods, opts = job
    from pyvc import engine, solve, sym
    t0 = time.time()
    res = {'function': qual, 'obligations': [], 'error': None,
           'unsupported': None, 'inlined': [], 'assumed': [],
           'used_assumptions': []}
    try:
        T, repo = load_contracts(mods)
        ex = engine.Exec(repo, T)
        ex.prune = opts.get('prune', True)
        obls = ex.verify(qual)
        res['inlined'] = sorted(ex.inlined)
        res['assumed'] = sorted(ex.assumed_calls)
        res['used_assumptions'] = sorted(ex.used_assumptions)
        res['paths'] = ex.path_count
        c = T.get(qual)
        def on_sat(ob):
            from pyvc import replay
            rp = getattr(c, 'replay', None)
            if rp is not None:
                return rp(ex, ob, ob.model)
            return replay.replay_function(ex, c, qual, ob.model, ex.args0)
        for ob in obls:
            if os.environ.get('PYVC_TRACE'):
                print('solving', ob.name, file=sys.stderr, flush=True)
            r = solve.solve_isolated(ob, opts.get('second', False), on_sat)
            d = {'name': ob.name, 'kind': ob.kind, 'status': r['status'],
                 'backend': r.get('backend'), 'time': round(r['time'], 4),
                 'line': ob.line, 'note': ob.note}
            if r.get('second'):
                d['second'] = r['second']
            if r['status'] == 'unknown' and ob.kind == 'proof' and \
                    getattr(c, 'sampler', None) is not None:
                # the solver gave no answer: bounded native search for a
                # failing input (refutation only)
                from pyvc import replay
                sr = replay.search_function(ex, c, qual, ex.args0,
                                            seed=opts.get('seed', 0))
                if sr.get('status') == 'reproduced':
                    d['status'] = 'sat'
                    d['backend'] = 'solver unknown; failing input found ' \
                        'by bounded native search'
                    d['model'] = {}
                    d['replay'] = sr
            if r['status'] == 'sat' and ob.kind == 'proof':
                d['model'] = r.get('model', {})
                d['replay'] = r.get('extra') or {'status': 'no-replay'}
            res['obligations'].append(d)
    except sym.Unsupported as e:
        res['unsupported'] = str(e)
    except Exception as e:
        res['error'] = ''.join(traceback.format_exception(
            type(e), e, e.__traceback__))[-3000:]
    res['wall'] = round(time.time() - t0, 3)
    return res


def verify_many(quals, mods, opts=None, procs=None):
    opts = opts or {}
    jobs = [(q, mods, opts) for q in quals]
    procs = procs or min(len(jobs), int(os.environ.get('PYVC_PROCS', '16')))
    if procs <= 1 or len(jobs) == 1:
        return [verify_one(j) for j in jobs]
    ctx = mp.get_context('fork')
    with ctx.Pool(procs) as pool:
        return pool.map(verify_one, jobs, chunksize=1)


if __name__ == '__main__':
    import json
    quals = sys.argv[1].split(',')
    mods = sys.argv[2].split(',')
    out = verify_many(quals, mods)
    for r in out:
        print('==', r['function'], 'wall', r['wall'])
        if r['error']:
            print(r['error'])
        if r['unsupported']:
            print('UNSUPPORTED', r['unsupported'])
        for o in r['obligations']:
            flag = ''
            if o['kind'] == 'proof' and o['status'] != 'unsat':
                flag = '   <<<<<<'
            if o['kind'] == 'canary' and o['status'] == 'unsat':
                flag = '   <<<<<< VACUOUS'
            print('  %-8s %-7s %6.3fs %s%s' % (o['kind'], o['status'],
                                              o['time'], o['name'], flag))
            if flag and 'model' in o and os.environ.get('PYVC_MODEL'):
                print('      ', json.dumps(o['model'])[:1500])
