"""Verification driver: one worker per function (fork pool), results as
plain dicts."""
import importlib
import multiprocessing as mp
import os
import sys
import time
import traceback

HERE = os.path.dirname(os.path.dirname(os.path.abspath(__file__)))
if HERE not in sys.path:
    sys.path.insert(0, HERE)


def load_contracts(modnames):
    from pyvc import front
    from pyvc.contracts import ContractTable
    T = ContractTable()
    repo = front.repo()
    for m in modnames:
        mod = importlib.import_module(m)
        mod.register(T, repo)
    return T, repo


def verify_one(job):
    """job = (qual, contract modules, options) -> result dict"""
    qual, mods, opts = job
    from pyvc import engine, solve, sym
    t0 = time.time()
    res = {'function': qual, 'obligations': [], 'error': None,
           'unsupported': None, 'inlined': [], 'assumed': [],
           'used_assumptions': []}
    try:
        T, repo = load_contracts(mods)
        ex = engine.Exec(repo, T)
        ex.prune = opts.get('prune', True)
        obls = ex.verify(qual)
        res['inlined'] = sorted(ex.inlined)
        res['assumed'] = sorted(ex.assumed_calls)
        res['used_assumptions'] = sorted(ex.used_assumptions)
        res['paths'] = ex.path_count
        res['default_loops'] = getattr(ex, 'default_loops', 0)
        res['imprecise'] = sorted(ex.imprecise)
        impsyms = {k: v for k, v in ex.imprecise.items()}
        c = T.get(qual)
        def on_sat(ob):
            from pyvc import replay
            rp = getattr(c, 'replay', None)
            if rp is not None:
                return rp(ex, ob, ob.model)
            return replay.replay_function(ex, c, qual, ob.model, ex.args0,
                                          ob_name=ob.name)
        sel = opts.get('select')
        for ob in obls:
            if sel is not None and ob.kind == 'proof' and not sel(ob.name):
                # not part of this property's claim: not solved
                res['obligations'].append({
                    'name': ob.name, 'kind': 'skipped', 'status': 'skipped',
                    'backend': None, 'time': 0.0, 'line': ob.line,
                    'note': ob.note})
                continue
            if os.environ.get('PYVC_TRACE'):
                print('solving', ob.name, file=sys.stderr, flush=True)
            r = solve.solve_isolated(ob, opts.get('second', False), on_sat)
            d = {'name': ob.name, 'kind': ob.kind, 'status': r['status'],
                 'backend': r.get('backend'), 'time': round(r['time'], 4),
                 'line': ob.line, 'note': ob.note}
            if r.get('second'):
                d['second'] = r['second']
            try:
                import z3 as _z3
                # a clause that evaluated to plain False (object identity,
                # a fact about the AST, a ghost counter): its failure does
                # not hang on any symbolic value
                d['const_false'] = bool(_z3.is_false(_z3.simplify(ob.goal)))
            except Exception:   # noqa
                d['const_false'] = False
            if r['status'] == 'sat' and ob.kind == 'proof' and impsyms:
                # which over-approximated values the failed clause hangs on:
                # constants of the goal, and of the path-condition conjuncts
                # that share a constant with the goal (one step)
                try:
                    gs = sym.const_names(ob.goal)
                    for cj in ob.pc:
                        cs = sym.const_names(cj)
                        if cs & gs:
                            gs = gs | cs
                    d['hangs_on'] = sorted(k for k, names in impsyms.items()
                                           if names & gs)
                except Exception:   # noqa
                    d['hangs_on'] = sorted(impsyms)
            if r['status'] == 'unknown' and ob.kind == 'proof' and \
                    getattr(c, 'sampler', None) is not None:
                # the solver gave no answer: bounded native search for a
                # failing input (refutation only)
                from pyvc import replay
                sr = replay.search_function(ex, c, qual, ex.args0,
                                            seed=opts.get('seed', 0))
                if sr.get('status') == 'reproduced':
                    d['status'] = 'sat'
                    d['backend'] = 'solver unknown; failing input found ' \
                        'by bounded native search'
                    d['model'] = {}
                    d['replay'] = sr
            if r['status'] == 'sat' and ob.kind == 'proof':
                d['model'] = r.get('model', {})
                d['replay'] = r.get('extra') or {'status': 'no-replay'}
            res['obligations'].append(d)
    except sym.Unsupported as e:
        res['unsupported'] = str(e)
        # the code is outside what the generator can execute (e.g. after a
        # rewrite the contract's loop specs no longer fit): no proof.  If
        # the contract carries a sampler and an executable spec function,
        # a bounded native search may still REFUTE the contract.
        try:
            c = T.get(qual)
            if getattr(c, 'sampler', None) is not None:
                from pyvc import replay
                sr = replay.search_function(ex, c, qual, {},
                                            seed=opts.get('seed', 0))
                if sr.get('status') == 'reproduced':
                    res['unsupported'] = None
                    res['obligations'].append({
                        'name': '%s:post:contract-refuted-natively' % qual,
                        'kind': 'proof', 'status': 'sat',
                        'backend': 'no VC (%s); failing input found by '
                        'bounded native search' % str(e)[:120],
                        'time': 0.0, 'line': 0, 'note': '', 'model': {},
                        'replay': sr})
        except Exception:      # noqa
            pass
    except Exception as e:
        res['error'] = ''.join(traceback.format_exception(
            type(e), e, e.__traceback__))[-3000:]
    res['wall'] = round(time.time() - t0, 3)
    return res


def verify_many(quals, mods, opts=None, procs=None):
    """one forked process per function, at most `procs` at a time; results
    come back as JSON over a pipe.  A worker that dies or exceeds the
    per-function limit yields an error result instead of blocking the run
    (multiprocessing.Pool hangs forever when a worker is lost)."""
    import json
    import select
    opts = opts or {}
    jobs = [(q, mods, opts) for q in quals]
    procs = procs or int(os.environ.get('PYVC_PROCS', '16'))
    limit = int(os.environ.get('PYVC_FUNC_LIMIT_S', '2400'))
    if procs <= 1:
        return [verify_one(j) for j in jobs]
    pending = list(enumerate(jobs))
    running = {}          # fd -> [pid, index, job, start, buffer]
    results = [None] * len(jobs)

    def lost(job, why, t0):
        return {'function': job[0], 'obligations': [], 'error': why,
                'unsupported': None, 'inlined': [], 'assumed': [],
                'used_assumptions': [], 'wall': time.time() - t0}
    while pending or running:
        while pending and len(running) < procs:
            idx, job = pending.pop(0)
            r, w = os.pipe()
            sys.stdout.flush()
            pid = os.fork()
            if pid == 0:
                os.close(r)
                try:
                    out = verify_one(job)
                    data = json.dumps(out, default=str).encode()
                except BaseException as e:      # noqa
                    data = json.dumps(lost(job, 'worker exception ' +
                                           repr(e), time.time())).encode()
                try:
                    off = 0
                    while off < len(data):
                        off += os.write(w, data[off:off + 65536])
                finally:
                    os._exit(0)
            os.close(w)
            running[r] = [pid, idx, job, time.time(), b'']
        rd, _, _ = select.select(list(running), [], [], 1.0)
        for fd in rd:
            chunk = os.read(fd, 1 << 20)
            if chunk:
                running[fd][4] += chunk
                continue
            pid, idx, job, t0, buf = running.pop(fd)
            os.close(fd)
            try:
                os.waitpid(pid, 0)
            except OSError:
                pass
            try:
                results[idx] = json.loads(buf.decode())
            except ValueError:
                results[idx] = lost(job, 'worker died without a result', t0)
        now = time.time()
        for fd in list(running):
            pid, idx, job, t0, buf = running[fd]
            if now - t0 > limit:
                try:
                    os.kill(pid, 9)
                    os.waitpid(pid, 0)
                except OSError:
                    pass
                os.close(fd)
                del running[fd]
                results[idx] = lost(job, 'worker exceeded %d s' % limit, t0)
    return results


if __name__ == '__main__':
    import json
    quals = sys.argv[1].split(',')
    mods = sys.argv[2].split(',')
    out = verify_many(quals, mods)
    for r in out:
        print('==', r['function'], 'wall', r['wall'])
        if r['error']:
            print(r['error'])
        if r['unsupported']:
            print('UNSUPPORTED', r['unsupported'])
        for o in r['obligations']:
            flag = ''
            if o['kind'] == 'proof' and o['status'] != 'unsat':
                flag = '   <<<<<<'
            if o['kind'] == 'canary' and o['status'] == 'unsat':
                flag = '   <<<<<< VACUOUS'
            print('  %-8s %-7s %6.3fs %s%s' % (o['kind'], o['status'],
                                              o['time'], o['name'], flag))
            if flag and 'model' in o and os.environ.get('PYVC_MODEL'):
                print('      ', json.dumps(o['model'])[:1500])
